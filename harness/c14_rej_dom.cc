// C14 part 1 menus: C / NNC polyhedra, grids, rational boxes, BD shapes, octagonal shapes.
#include "harness/c14_rej.hh"

namespace c14r {

static const Variable A(0), B(1), C(2), D(3);
typedef BD_Shape<mpq_class> BDS;
typedef Octagonal_Shape<mpq_class> OCT;

// ---- observers -------------------------------------------------------------------------------
template <typename PH> static bool poly_same(const PH& x, const PH& y, std::string& why, bool nnc) {
  int n = x.space_dimension();
  if ((int)y.space_dimension() != n) { why = "space dimension"; return false; }
  // through the constraints and, independently, through the generators (copies: observers must not minimize x itself first)
  PH xc(x), xg(x), yc(y);
  ref::Cell cy = vf::cell_of(yc.constraints(), n);
  if (!same_cells(vf::cell_of(xc.constraints(), n), cy, why)) { why = "constraints(): " + why; return false; }
  ref::Gens g = vf::gens_of(xg.generators(), n);
  ref::Cell cg(n);
  if (!g.empty()) { vf::RefGuard guard; cg = ref::from_gens(g, n, nnc); }
  if (g.empty()) cg.bot = true;
  if (!same_cells(cg, cy, why)) { why = "generators(): " + why; return false; }
  return true;
}
template <> struct Obs<C_Polyhedron> {
  static bool same(const C_Polyhedron& x, const C_Polyhedron& y, std::string& why) { return poly_same(x, y, why, false); }
  static void follow(C_Polyhedron& x) { if (x.space_dimension() > 0) { x.add_constraint(A <= 1); x.affine_image(A, A + 1); } (void) x.minimized_generators(); }
};
template <> struct Obs<NNC_Polyhedron> {
  static bool same(const NNC_Polyhedron& x, const NNC_Polyhedron& y, std::string& why) { return poly_same(x, y, why, true); }
  static void follow(NNC_Polyhedron& x) { if (x.space_dimension() > 0) { x.add_constraint(A < 1); x.affine_image(A, A + 1); } (void) x.minimized_generators(); }
};
template <typename SH> static bool shape_same(const SH& x, const SH& y, std::string& why) {
  int n = x.space_dimension();
  if ((int)y.space_dimension() != n) { why = "space dimension"; return false; }
  SH xc(x), yc(y);
  return same_cells(vf::cell_of(xc.constraints(), n), vf::cell_of(yc.constraints(), n), why);
}
template <> struct Obs<BDS> {
  static bool same(const BDS& x, const BDS& y, std::string& why) { return shape_same(x, y, why); }
  static void follow(BDS& x) { if (x.space_dimension() > 0) { x.add_constraint(A <= 1); x.affine_image(A, A + 1); } (void) x.is_empty(); }
};
template <> struct Obs<OCT> {
  static bool same(const OCT& x, const OCT& y, std::string& why) { return shape_same(x, y, why); }
  static void follow(OCT& x) { if (x.space_dimension() > 0) { x.add_constraint(A <= 1); x.affine_image(A, A + 1); } (void) x.is_empty(); }
};
template <> struct Obs<Rational_Box> {
  static bool same(const Rational_Box& x, const Rational_Box& y, std::string& why) { return shape_same(x, y, why); }
  static void follow(Rational_Box& x) { if (x.space_dimension() > 0) { x.add_constraint(A <= 1); x.affine_image(A, A + 1); } (void) x.is_empty(); }
};
template <> struct Obs<Grid> {
  static bool same(const Grid& x, const Grid& y, std::string& why) {
    if (x.space_dimension() != y.space_dimension()) { why = "space dimension"; return false; }
    if (!(x == y)) { why = "operator== says different"; return false; }
    std::string a = vf::print_of(x.minimized_congruences()), b = vf::print_of(y.minimized_congruences());
    if (a != b) { why = "minimized_congruences(): " + a + " vs " + b; return false; }
    a = vf::print_of(x.minimized_grid_generators()); b = vf::print_of(y.minimized_grid_generators());
    if (a != b) { why = "minimized_grid_generators(): " + a + " vs " + b; return false; }
    return true;
  }
  static void follow(Grid& x) { if (x.space_dimension() > 0) { x.add_congruence((A %= 1) / 2); x.affine_image(A, A + 1); } (void) x.minimized_grid_generators(); }
};

// ---- domain traits ---------------------------------------------------------------------------
template <typename T> struct Tr { enum { closed = 1, poly = 0, nnc = 0, grid = 0, box = 0, weakly = 0 }; };
template <> struct Tr<C_Polyhedron> { enum { closed = 1, poly = 1, nnc = 0, grid = 0, box = 0, weakly = 0 }; };
template <> struct Tr<NNC_Polyhedron> { enum { closed = 0, poly = 1, nnc = 1, grid = 0, box = 0, weakly = 0 }; };
template <> struct Tr<Grid> { enum { closed = 0, poly = 0, nnc = 0, grid = 1, box = 0, weakly = 0 }; };
template <> struct Tr<Rational_Box> { enum { closed = 0, poly = 0, nnc = 0, grid = 0, box = 1, weakly = 0 }; };
template <> struct Tr<BDS> { enum { closed = 1, poly = 0, nnc = 0, grid = 0, box = 0, weakly = 1 }; };
template <> struct Tr<OCT> { enum { closed = 1, poly = 0, nnc = 0, grid = 0, box = 0, weakly = 1 }; };

#define IA "invalid_argument"
#define LE "length_error"
#define N (x.space_dimension())
template <typename T> static bool has_dim1(const T& x) { return x.space_dimension() >= 1; }
template <typename T> static bool has_dim2(const T& x) { return x.space_dimension() >= 2; }

// the part of the alphabet that all simple domains share
template <typename T>
static void add_common(Menu<T>& m) {
  typedef std::function<bool(const T&)> App;
  App d1 = has_dim1<T>, d2 = has_dim2<T>, any;
  // --- queries with a dimension-incompatible argument
  m.call("relation_with(Constraint)", "constraint_dimension_exceeds", IA, [](T& x, Rej& rj) { OPND(Constraint, c, (le_dim(N + 1) >= 0)); rj.attempt([&] { (void) x.relation_with(c); }); OPCHK(c); });
  m.call("relation_with(Generator)", "generator_dimension_exceeds", IA, [](T& x, Rej& rj) { OPND(Generator, g, (point(le_dim(N + 1)))); rj.attempt([&] { (void) x.relation_with(g); }); OPCHK(g); });
  m.call("relation_with(Congruence)", "congruence_dimension_exceeds", IA, [](T& x, Rej& rj) { OPND(Congruence, c, ((le_dim(N + 1) %= 0) / 2)); rj.attempt([&] { (void) x.relation_with(c); }); OPCHK(c); });
  m.call("contains", "operand_dimension_differs", IA, [](T& x, Rej& rj) { OPND(T, y, (N + 1)); rj.attempt([&] { (void) x.contains(y); }); OPCHK(y); });
  m.call("strictly_contains", "operand_dimension_differs", IA, [](T& x, Rej& rj) { OPND(T, y, (N + 1)); rj.attempt([&] { (void) x.strictly_contains(y); }); OPCHK(y); });
  m.call("is_disjoint_from", "operand_dimension_differs", IA, [](T& x, Rej& rj) { OPND(T, y, (N + 2)); rj.attempt([&] { (void) x.is_disjoint_from(y); }); OPCHK(y); });
  m.call("constrains", "variable_not_a_dimension", IA, [](T& x, Rej& rj) { rj.attempt([&] { (void) x.constrains(Variable(N)); }); });
  m.call("bounds_from_above", "expression_dimension_exceeds", IA, [](T& x, Rej& rj) { OPND(Linear_Expression, e, (le_dim(N + 1))); rj.attempt([&] { (void) x.bounds_from_above(e); }); OPCHK(e); });
  m.call("bounds_from_below", "expression_dimension_exceeds", IA, [](T& x, Rej& rj) { OPND(Linear_Expression, e, (le_dim(N + 1))); rj.attempt([&] { (void) x.bounds_from_below(e); }); OPCHK(e); });
  m.call("maximize", "expression_dimension_exceeds", IA, [](T& x, Rej& rj) { OPND(Linear_Expression, e, (le_dim(N + 1))); Coefficient n, d; bool mx; rj.attempt([&] { (void) x.maximize(e, n, d, mx); }); OPCHK(e); });
  m.call("maximize(point)", "expression_dimension_exceeds", IA, [](T& x, Rej& rj) { OPND(Linear_Expression, e, (le_dim(N + 1))); Coefficient n, d; bool mx; Generator g(point()); rj.attempt([&] { (void) x.maximize(e, n, d, mx, g); }); OPCHK(e); });
  m.call("minimize", "expression_dimension_exceeds", IA, [](T& x, Rej& rj) { OPND(Linear_Expression, e, (le_dim(N + 1))); Coefficient n, d; bool mx; rj.attempt([&] { (void) x.minimize(e, n, d, mx); }); OPCHK(e); });
  m.call("minimize(point)", "expression_dimension_exceeds", IA, [](T& x, Rej& rj) { OPND(Linear_Expression, e, (le_dim(N + 1))); Coefficient n, d; bool mx; Generator g(point()); rj.attempt([&] { (void) x.minimize(e, n, d, mx, g); }); OPCHK(e); });
  m.call("frequency", "expression_dimension_exceeds", IA, [](T& x, Rej& rj) { OPND(Linear_Expression, e, (le_dim(N + 1))); Coefficient a, b, c, d; rj.attempt([&] { (void) x.frequency(e, a, b, c, d); }); OPCHK(e); });
  // --- adding / refining
  m.call("add_constraint", "constraint_dimension_exceeds", IA, [](T& x, Rej& rj) { OPND(Constraint, c, (le_dim(N + 1) == 0)); rj.attempt([&] { x.add_constraint(c); }); OPCHK(c); });
  m.call("add_constraints", "constraint_system_dimension_exceeds", IA, [](T& x, Rej& rj) { OPND(Constraint_System, cs, (le_dim(N + 1) == 0)); rj.attempt([&] { x.add_constraints(cs); }); OPCHK(cs); });
  m.call("add_recycled_constraints", "constraint_system_dimension_exceeds", IA, [](T& x, Rej& rj) { OPND(Constraint_System, cs, (le_dim(N + 1) == 0)); rj.attempt([&] { x.add_recycled_constraints(cs); }); });
  m.call("add_congruence", "congruence_dimension_exceeds", IA, [](T& x, Rej& rj) { OPND(Congruence, c, ((le_dim(N + 1) %= 0) / 0)); rj.attempt([&] { x.add_congruence(c); }); OPCHK(c); });
  m.call("add_congruences", "congruence_system_dimension_exceeds", IA, [](T& x, Rej& rj) { OPND(Congruence_System, cs, ((le_dim(N + 1) %= 0) / 0)); rj.attempt([&] { x.add_congruences(cs); }); OPCHK(cs); });
  m.call("add_recycled_congruences", "congruence_system_dimension_exceeds", IA, [](T& x, Rej& rj) { OPND(Congruence_System, cs, ((le_dim(N + 1) %= 0) / 0)); rj.attempt([&] { x.add_recycled_congruences(cs); }); });
  m.call("refine_with_constraint", "constraint_dimension_exceeds", IA, [](T& x, Rej& rj) { OPND(Constraint, c, (le_dim(N + 1) >= 0)); rj.attempt([&] { x.refine_with_constraint(c); }); OPCHK(c); });
  m.call("refine_with_constraints", "constraint_system_dimension_exceeds", IA, [](T& x, Rej& rj) { OPND(Constraint_System, cs, (le_dim(N + 1) >= 0)); rj.attempt([&] { x.refine_with_constraints(cs); }); OPCHK(cs); });
  m.call("refine_with_congruence", "congruence_dimension_exceeds", IA, [](T& x, Rej& rj) { OPND(Congruence, c, ((le_dim(N + 1) %= 0) / 3)); rj.attempt([&] { x.refine_with_congruence(c); }); OPCHK(c); });
  m.call("refine_with_congruences", "congruence_system_dimension_exceeds", IA, [](T& x, Rej& rj) { OPND(Congruence_System, cs, ((le_dim(N + 1) %= 0) / 3)); rj.attempt([&] { x.refine_with_congruences(cs); }); OPCHK(cs); });
  m.call("unconstrain(Variable)", "variable_not_a_dimension", IA, [](T& x, Rej& rj) { rj.attempt([&] { x.unconstrain(Variable(N)); }); });
  m.call("unconstrain(Variables_Set)", "variable_not_a_dimension", IA, [](T& x, Rej& rj) { Variables_Set vs = vset(0, N); if (N == 0) vs = vset(0); rj.attempt([&] { x.unconstrain(vs); }); });
  // --- ill-formed system arguments handed out by accessors (pending rows, not minimized, minimized, converted)
  cs_variants<T>(m, "add_constraints", "constraint_system_dimension_exceeds", IA, CK_DIM, [](T& x, const Constraint_System& cs) { x.add_constraints(cs); });
  cs_variants<T>(m, "refine_with_constraints", "constraint_system_dimension_exceeds", IA, CK_DIM, [](T& x, const Constraint_System& cs) { x.refine_with_constraints(cs); });
  cgs_variants<T>(m, "add_congruences", "congruence_system_dimension_exceeds", IA, GGK_DIM, [](T& x, const Congruence_System& cgs) { x.add_congruences(cgs); });
  cgs_variants<T>(m, "refine_with_congruences", "congruence_system_dimension_exceeds", IA, GGK_DIM, [](T& x, const Congruence_System& cgs) { x.refine_with_congruences(cgs); });
  // --- binary operators with a dimension-incompatible operand
  m.call("intersection_assign", "operand_dimension_differs", IA, [](T& x, Rej& rj) { OPND(T, y, (N + 1)); rj.attempt([&] { x.intersection_assign(y); }); OPCHK(y); });
  m.call("upper_bound_assign", "operand_dimension_differs", IA, [](T& x, Rej& rj) { OPND(T, y, (N + 1)); rj.attempt([&] { x.upper_bound_assign(y); }); OPCHK(y); });
  m.call("upper_bound_assign_if_exact", "operand_dimension_differs", IA, [](T& x, Rej& rj) { OPND(T, y, (N + 1)); rj.attempt([&] { (void) x.upper_bound_assign_if_exact(y); }); OPCHK(y); });
  m.call("difference_assign", "operand_dimension_differs", IA, [](T& x, Rej& rj) { OPND(T, y, (N + 1)); rj.attempt([&] { x.difference_assign(y); }); OPCHK(y); });
  m.call("simplify_using_context_assign", "operand_dimension_differs", IA, [](T& x, Rej& rj) { OPND(T, y, (N + 1)); rj.attempt([&] { (void) x.simplify_using_context_assign(y); }); OPCHK(y); });
  m.call("time_elapse_assign", "operand_dimension_differs", IA, [](T& x, Rej& rj) { OPND(T, y, (N + 1)); rj.attempt([&] { x.time_elapse_assign(y); }); OPCHK(y); });
  m.call("intersection_assign", "operand_dimension_smaller", IA, [](T& x, Rej& rj) { OPND(T, y, (N - 1)); rj.attempt([&] { x.intersection_assign(y); }); OPCHK(y); }, false, d1);
  m.call("upper_bound_assign", "operand_dimension_smaller", IA, [](T& x, Rej& rj) { OPND(T, y, (N - 1, EMPTY)); rj.attempt([&] { x.upper_bound_assign(y); }); OPCHK(y); }, false, d1);
  // --- affine transfer functions
  m.call("affine_image", "variable_not_a_dimension", IA, [](T& x, Rej& rj) { OPND(Linear_Expression, e, (Linear_Expression(1))); rj.attempt([&] { x.affine_image(Variable(N), e); }); OPCHK(e); });
  m.call("affine_image", "expression_dimension_exceeds", IA, [](T& x, Rej& rj) { OPND(Linear_Expression, e, (le_dim(N + 1))); rj.attempt([&] { x.affine_image(A, e); }); OPCHK(e); }, false, d1);
  m.call("affine_image", "zero_denominator", IA, [](T& x, Rej& rj) { OPND(Linear_Expression, e, (A + 1)); rj.attempt([&] { x.affine_image(A, e, Coefficient(0)); }); OPCHK(e); }, false, d1);
  m.call("affine_preimage", "variable_not_a_dimension", IA, [](T& x, Rej& rj) { OPND(Linear_Expression, e, (Linear_Expression(1))); rj.attempt([&] { x.affine_preimage(Variable(N), e); }); OPCHK(e); });
  m.call("affine_preimage", "expression_dimension_exceeds", IA, [](T& x, Rej& rj) { OPND(Linear_Expression, e, (le_dim(N + 1))); rj.attempt([&] { x.affine_preimage(A, e); }); OPCHK(e); }, false, d1);
  m.call("affine_preimage", "zero_denominator", IA, [](T& x, Rej& rj) { OPND(Linear_Expression, e, (A + 1)); rj.attempt([&] { x.affine_preimage(A, e, Coefficient(0)); }); OPCHK(e); }, false, d1);
  m.call("generalized_affine_image(var)", "variable_not_a_dimension", IA, [](T& x, Rej& rj) { OPND(Linear_Expression, e, (Linear_Expression(1))); rj.attempt([&] { x.generalized_affine_image(Variable(N), EQUAL, e); }); OPCHK(e); });
  m.call("generalized_affine_image(var)", "expression_dimension_exceeds", IA, [](T& x, Rej& rj) { OPND(Linear_Expression, e, (le_dim(N + 1))); rj.attempt([&] { x.generalized_affine_image(A, EQUAL, e); }); OPCHK(e); }, false, d1);
  m.call("generalized_affine_image(var)", "zero_denominator", IA, [](T& x, Rej& rj) { OPND(Linear_Expression, e, (A + 1)); rj.attempt([&] { x.generalized_affine_image(A, EQUAL, e, Coefficient(0)); }); OPCHK(e); }, false, d1);
  m.call("generalized_affine_image(var)", "relsym_NOT_EQUAL", IA, [](T& x, Rej& rj) { OPND(Linear_Expression, e, (A + 1)); rj.attempt([&] { x.generalized_affine_image(A, NOT_EQUAL, e); }); OPCHK(e); }, false, d1);
  m.call("generalized_affine_preimage(var)", "variable_not_a_dimension", IA, [](T& x, Rej& rj) { OPND(Linear_Expression, e, (Linear_Expression(1))); rj.attempt([&] { x.generalized_affine_preimage(Variable(N), EQUAL, e); }); OPCHK(e); });
  m.call("generalized_affine_preimage(var)", "expression_dimension_exceeds", IA, [](T& x, Rej& rj) { OPND(Linear_Expression, e, (le_dim(N + 1))); rj.attempt([&] { x.generalized_affine_preimage(A, EQUAL, e); }); OPCHK(e); }, false, d1);
  m.call("generalized_affine_preimage(var)", "zero_denominator", IA, [](T& x, Rej& rj) { OPND(Linear_Expression, e, (A + 1)); rj.attempt([&] { x.generalized_affine_preimage(A, EQUAL, e, Coefficient(0)); }); OPCHK(e); }, false, d1);
  m.call("generalized_affine_preimage(var)", "relsym_NOT_EQUAL", IA, [](T& x, Rej& rj) { OPND(Linear_Expression, e, (A + 1)); rj.attempt([&] { x.generalized_affine_preimage(A, NOT_EQUAL, e); }); OPCHK(e); }, false, d1);
  m.call("generalized_affine_image(lhs)", "lhs_dimension_exceeds", IA, [](T& x, Rej& rj) { OPND(Linear_Expression, l, (le_dim(N + 1))); OPND(Linear_Expression, e, (Linear_Expression(1))); rj.attempt([&] { x.generalized_affine_image(l, EQUAL, e); }); OPCHK(l); OPCHK(e); });
  m.call("generalized_affine_image(lhs)", "rhs_dimension_exceeds", IA, [](T& x, Rej& rj) { OPND(Linear_Expression, l, (A + 0)); OPND(Linear_Expression, e, (le_dim(N + 1))); rj.attempt([&] { x.generalized_affine_image(l, EQUAL, e); }); OPCHK(l); OPCHK(e); }, false, d1);
  m.call("generalized_affine_image(lhs)", "relsym_NOT_EQUAL", IA, [](T& x, Rej& rj) { OPND(Linear_Expression, l, (A + 0)); OPND(Linear_Expression, e, (A + 1)); rj.attempt([&] { x.generalized_affine_image(l, NOT_EQUAL, e); }); OPCHK(l); OPCHK(e); }, false, d1);
  m.call("generalized_affine_preimage(lhs)", "lhs_dimension_exceeds", IA, [](T& x, Rej& rj) { OPND(Linear_Expression, l, (le_dim(N + 1))); OPND(Linear_Expression, e, (Linear_Expression(1))); rj.attempt([&] { x.generalized_affine_preimage(l, EQUAL, e); }); OPCHK(l); OPCHK(e); });
  m.call("generalized_affine_preimage(lhs)", "rhs_dimension_exceeds", IA, [](T& x, Rej& rj) { OPND(Linear_Expression, l, (A + 0)); OPND(Linear_Expression, e, (le_dim(N + 1))); rj.attempt([&] { x.generalized_affine_preimage(l, EQUAL, e); }); OPCHK(l); OPCHK(e); }, false, d1);
  m.call("generalized_affine_preimage(lhs)", "relsym_NOT_EQUAL", IA, [](T& x, Rej& rj) { OPND(Linear_Expression, l, (A + 0)); OPND(Linear_Expression, e, (A + 1)); rj.attempt([&] { x.generalized_affine_preimage(l, NOT_EQUAL, e); }); OPCHK(l); OPCHK(e); }, false, d1);
  m.call("bounded_affine_image", "variable_not_a_dimension", IA, [](T& x, Rej& rj) { OPND(Linear_Expression, e, (Linear_Expression(1))); rj.attempt([&] { x.bounded_affine_image(Variable(N), e, e); }); OPCHK(e); });
  m.call("bounded_affine_image", "lower_bound_dimension_exceeds", IA, [](T& x, Rej& rj) { OPND(Linear_Expression, lb, (le_dim(N + 1))); OPND(Linear_Expression, ub, (A + 1)); rj.attempt([&] { x.bounded_affine_image(A, lb, ub); }); OPCHK(lb); OPCHK(ub); }, false, d1);
  m.call("bounded_affine_image", "upper_bound_dimension_exceeds", IA, [](T& x, Rej& rj) { OPND(Linear_Expression, lb, (A - 1)); OPND(Linear_Expression, ub, (le_dim(N + 1))); rj.attempt([&] { x.bounded_affine_image(A, lb, ub); }); OPCHK(lb); OPCHK(ub); }, false, d1);
  m.call("bounded_affine_image", "zero_denominator", IA, [](T& x, Rej& rj) { OPND(Linear_Expression, lb, (A - 1)); OPND(Linear_Expression, ub, (A + 1)); rj.attempt([&] { x.bounded_affine_image(A, lb, ub, Coefficient(0)); }); OPCHK(lb); OPCHK(ub); }, false, d1);
  m.call("bounded_affine_preimage", "variable_not_a_dimension", IA, [](T& x, Rej& rj) { OPND(Linear_Expression, e, (Linear_Expression(1))); rj.attempt([&] { x.bounded_affine_preimage(Variable(N), e, e); }); OPCHK(e); });
  m.call("bounded_affine_preimage", "lower_bound_dimension_exceeds", IA, [](T& x, Rej& rj) { OPND(Linear_Expression, lb, (le_dim(N + 1))); OPND(Linear_Expression, ub, (A + 1)); rj.attempt([&] { x.bounded_affine_preimage(A, lb, ub); }); OPCHK(lb); OPCHK(ub); }, false, d1);
  m.call("bounded_affine_preimage", "upper_bound_dimension_exceeds", IA, [](T& x, Rej& rj) { OPND(Linear_Expression, lb, (A - 1)); OPND(Linear_Expression, ub, (le_dim(N + 1))); rj.attempt([&] { x.bounded_affine_preimage(A, lb, ub); }); OPCHK(lb); OPCHK(ub); }, false, d1);
  m.call("bounded_affine_preimage", "zero_denominator", IA, [](T& x, Rej& rj) { OPND(Linear_Expression, lb, (A - 1)); OPND(Linear_Expression, ub, (A + 1)); rj.attempt([&] { x.bounded_affine_preimage(A, lb, ub, Coefficient(0)); }); OPCHK(lb); OPCHK(ub); }, false, d1);
  // --- wrapping
  m.call("wrap_assign", "variable_not_a_dimension", IA, [](T& x, Rej& rj) { Variables_Set vs = vset(N); rj.attempt([&] { x.wrap_assign(vs, BITS_8, UNSIGNED, OVERFLOW_WRAPS); }); });
  m.call("wrap_assign", "constraint_system_dimension_exceeds_vars", IA, [](T& x, Rej& rj) { Variables_Set vs = vset(0); OPND(Constraint_System, cs, (le_dim(N + 1) >= 0)); rj.attempt([&] { x.wrap_assign(vs, BITS_8, UNSIGNED, OVERFLOW_WRAPS, &cs); }); OPCHK(cs); }, false, d1);
  // --- space dimensions
  m.call("add_space_dimensions_and_embed", "space_dimension_overflow", LE, [](T& x, Rej& rj) { rj.attempt([&] { x.add_space_dimensions_and_embed(T::max_space_dimension()); }); }, false, d1);
  m.call("add_space_dimensions_and_project", "space_dimension_overflow", LE, [](T& x, Rej& rj) { rj.attempt([&] { x.add_space_dimensions_and_project(T::max_space_dimension()); }); }, false, d1);
  m.call("add_space_dimensions_and_embed", "space_dimension_overflow_by_one", LE, [](T& x, Rej& rj) { rj.attempt([&] { x.add_space_dimensions_and_embed(T::max_space_dimension() - N + 1); }); });
  m.call("remove_space_dimensions", "variable_not_a_dimension", IA, [](T& x, Rej& rj) { Variables_Set vs = vset(N); rj.attempt([&] { x.remove_space_dimensions(vs); }); });
  m.call("remove_space_dimensions", "one_of_two_variables_not_a_dimension", IA, [](T& x, Rej& rj) { Variables_Set vs = vset(0, N + 1); rj.attempt([&] { x.remove_space_dimensions(vs); }); }, false, d1);
  m.call("remove_higher_space_dimensions", "new_dimension_greater", IA, [](T& x, Rej& rj) { rj.attempt([&] { x.remove_higher_space_dimensions(N + 1); }); });
  m.call("expand_space_dimension", "variable_not_a_dimension", IA, [](T& x, Rej& rj) { rj.attempt([&] { x.expand_space_dimension(Variable(N), 1); }); });
  if (!Tr<T>::box) m.call("expand_space_dimension", "space_dimension_overflow", LE, [](T& x, Rej& rj) { rj.attempt([&] { x.expand_space_dimension(A, T::max_space_dimension()); }); }, false, d1);
  m.call("fold_space_dimensions", "destination_not_a_dimension", IA, [](T& x, Rej& rj) { Variables_Set vs = vset(0); rj.attempt([&] { x.fold_space_dimensions(vs, Variable(N)); }); }, false, d1);
  m.call("fold_space_dimensions", "folded_variable_not_a_dimension", IA, [](T& x, Rej& rj) { Variables_Set vs = vset(N); rj.attempt([&] { x.fold_space_dimensions(vs, A); }); }, false, d1);
  m.call("fold_space_dimensions", "destination_among_folded", IA, [](T& x, Rej& rj) { Variables_Set vs = vset(0, 1); rj.attempt([&] { x.fold_space_dimensions(vs, B); }); }, false, d2);
  // --- construction
  m.call(m.cls + "(dimension)", "space_dimension_exceeds_maximum", LE, [](T& x, Rej& rj) { (void) x; rj.attempt([&] { T y(T::max_space_dimension() + 1); (void) y; }); });
}

// strict relation symbols on topologically closed domains
template <typename T>
static void add_closed(Menu<T>& m) {
  std::function<bool(const T&)> d1 = has_dim1<T>;
  m.call("generalized_affine_image(var)", "strict_relsym_on_closed_domain", IA, [](T& x, Rej& rj) { OPND(Linear_Expression, e, (A + 1)); rj.attempt([&] { x.generalized_affine_image(A, LESS_THAN, e); }); OPCHK(e); }, false, d1);
  m.call("generalized_affine_preimage(var)", "strict_relsym_on_closed_domain", IA, [](T& x, Rej& rj) { OPND(Linear_Expression, e, (A + 1)); rj.attempt([&] { x.generalized_affine_preimage(A, GREATER_THAN, e); }); OPCHK(e); }, false, d1);
  m.call("generalized_affine_image(lhs)", "strict_relsym_on_closed_domain", IA, [](T& x, Rej& rj) { OPND(Linear_Expression, l, (A + 0)); OPND(Linear_Expression, e, (A + 1)); rj.attempt([&] { x.generalized_affine_image(l, GREATER_THAN, e); }); OPCHK(l); OPCHK(e); }, false, d1);
  m.call("generalized_affine_preimage(lhs)", "strict_relsym_on_closed_domain", IA, [](T& x, Rej& rj) { OPND(Linear_Expression, l, (A + 0)); OPND(Linear_Expression, e, (A + 1)); rj.attempt([&] { x.generalized_affine_preimage(l, LESS_THAN, e); }); OPCHK(l); OPCHK(e); }, false, d1);
}

// ---- polyhedra -------------------------------------------------------------------------------
template <typename PH> struct Other { typedef NNC_Polyhedron type; };
template <> struct Other<NNC_Polyhedron> { typedef C_Polyhedron type; };

template <typename PH>
static void add_poly(Menu<PH>& m) {
  typedef typename Other<PH>::type OT;
  typedef std::function<bool(const PH&)> App;
  App d1 = has_dim1<PH>, d2 = has_dim2<PH>;
  App empty1 = [](const PH& x) { PH c(x); return x.space_dimension() >= 1 && c.is_empty(); };
  // topology-incompatible operands
#define TOPO(method, stmt) m.call(method, "operand_topology_differs", IA, [](PH& x, Rej& rj) { OPND(OT, y, (N)); rj.attempt([&] { stmt; }); OPCHK(y); })
  TOPO("contains", (void) x.contains(y)); TOPO("strictly_contains", (void) x.strictly_contains(y)); TOPO("is_disjoint_from", (void) x.is_disjoint_from(y));
  TOPO("intersection_assign", x.intersection_assign(y)); TOPO("poly_hull_assign", x.poly_hull_assign(y)); TOPO("upper_bound_assign", x.upper_bound_assign(y));
  TOPO("poly_difference_assign", x.poly_difference_assign(y)); TOPO("difference_assign", x.difference_assign(y));
  TOPO("simplify_using_context_assign", (void) x.simplify_using_context_assign(y)); TOPO("time_elapse_assign", x.time_elapse_assign(y));
  TOPO("concatenate_assign", x.concatenate_assign(y)); TOPO("BHRZ03_widening_assign", x.BHRZ03_widening_assign(y)); TOPO("H79_widening_assign", x.H79_widening_assign(y));
  TOPO("m_swap", x.m_swap(y));
  m.call("limited_H79_extrapolation_assign", "operand_topology_differs", IA, [](PH& x, Rej& rj) { OPND(OT, y, (N)); Constraint_System cs; rj.attempt([&] { x.limited_H79_extrapolation_assign(y, cs); }); OPCHK(y); });
  m.call("limited_BHRZ03_extrapolation_assign", "operand_topology_differs", IA, [](PH& x, Rej& rj) { OPND(OT, y, (N)); Constraint_System cs; rj.attempt([&] { x.limited_BHRZ03_extrapolation_assign(y, cs); }); OPCHK(y); });
  // dimension-incompatible operands of the polyhedron-only operators
#define DIMY(method, stmt) m.call(method, "operand_dimension_differs", IA, [](PH& x, Rej& rj) { OPND(PH, y, (N + 1)); rj.attempt([&] { stmt; }); OPCHK(y); })
  DIMY("poly_hull_assign", x.poly_hull_assign(y)); DIMY("poly_difference_assign", x.poly_difference_assign(y)); m.call("positive_time_elapse_assign", "operand_dimension_differs", IA, [](PH& x, Rej& rj) { OPND(PH, y, (N + 1)); rj.attempt([&] { x.positive_time_elapse_assign(y); }); OPCHK(y); }, true);   // goes through an NNC copy
  DIMY("BHRZ03_widening_assign", x.BHRZ03_widening_assign(y)); DIMY("H79_widening_assign", x.H79_widening_assign(y)); DIMY("widening_assign", x.widening_assign(y));
  m.call("limited_H79_extrapolation_assign", "operand_dimension_differs", IA, [](PH& x, Rej& rj) { OPND(PH, y, (N + 1)); Constraint_System cs; rj.attempt([&] { x.limited_H79_extrapolation_assign(y, cs); }); OPCHK(y); });
  m.call("limited_H79_extrapolation_assign", "constraint_system_dimension_exceeds", IA, [](PH& x, Rej& rj) { OPND(PH, y, (N, EMPTY)); OPND(Constraint_System, cs, (le_dim(N + 1) >= 0)); rj.attempt([&] { x.limited_H79_extrapolation_assign(y, cs); }); OPCHK(y); OPCHK(cs); });
  m.call("bounded_H79_extrapolation_assign", "constraint_system_dimension_exceeds", IA, [](PH& x, Rej& rj) { OPND(PH, y, (N, EMPTY)); OPND(Constraint_System, cs, (le_dim(N + 1) >= 0)); rj.attempt([&] { x.bounded_H79_extrapolation_assign(y, cs); }); OPCHK(y); OPCHK(cs); }, true);   // computes the bounding boxes first
  m.call("limited_BHRZ03_extrapolation_assign", "constraint_system_dimension_exceeds", IA, [](PH& x, Rej& rj) { OPND(PH, y, (N, EMPTY)); OPND(Constraint_System, cs, (le_dim(N + 1) >= 0)); rj.attempt([&] { x.limited_BHRZ03_extrapolation_assign(y, cs); }); OPCHK(y); OPCHK(cs); });
  m.call("bounded_BHRZ03_extrapolation_assign", "operand_dimension_differs", IA, [](PH& x, Rej& rj) { OPND(PH, y, (N + 1)); Constraint_System cs; rj.attempt([&] { x.bounded_BHRZ03_extrapolation_assign(y, cs); }); OPCHK(y); }, true);   // computes the bounding boxes first
  // generators
  m.call("add_generator", "generator_dimension_exceeds", IA, [](PH& x, Rej& rj) { OPND(Generator, g, (point(le_dim(N + 1)))); rj.attempt([&] { x.add_generator(g); }); OPCHK(g); });
  m.call("add_generators", "generator_system_dimension_exceeds", IA, [](PH& x, Rej& rj) { OPND(Generator_System, gs, (point(le_dim(N + 1)))); rj.attempt([&] { x.add_generators(gs); }); OPCHK(gs); });
  m.call("add_recycled_generators", "generator_system_dimension_exceeds", IA, [](PH& x, Rej& rj) { OPND(Generator_System, gs, (point(le_dim(N + 1)))); rj.attempt([&] { x.add_recycled_generators(gs); }); });
  m.call("add_generator", "ray_into_empty_polyhedron", IA, [](PH& x, Rej& rj) { OPND(Generator, g, (ray(A))); rj.attempt([&] { x.add_generator(g); }); OPCHK(g); }, true, empty1);
  m.call("add_generator", "line_into_empty_polyhedron", IA, [](PH& x, Rej& rj) { OPND(Generator, g, (line(A))); rj.attempt([&] { x.add_generator(g); }); OPCHK(g); }, true, empty1);
  m.call("add_generators", "no_point_into_empty_polyhedron", IA, [](PH& x, Rej& rj) { OPND(Generator_System, gs, (ray(A))); gs.insert(line(A)); rj.attempt([&] { x.add_generators(gs); }); }, true, empty1);
  m.call("add_recycled_generators", "no_point_into_empty_polyhedron", IA, [](PH& x, Rej& rj) { Generator_System gs(ray(A)); rj.attempt([&] { x.add_recycled_generators(gs); }); }, true, empty1);
  // ill-formed systems in every lazy state
  gs_variants<PH>(m, "add_generators", "generator_system_dimension_exceeds", IA, GK_DIM, [](PH& x, const Generator_System& gs) { x.add_generators(gs); });
  cgs_variants<PH>(m, "add_congruences", "proper_congruence", IA, GGK_PROPER, [](PH& x, const Congruence_System& cgs) { x.add_congruences(cgs); }, d1);
  cs_variants<PH>(m, "limited_H79_extrapolation_assign", "constraint_system_dimension_exceeds", IA, CK_DIM, [](PH& x, const Constraint_System& cs) { PH y(x.space_dimension(), EMPTY); x.limited_H79_extrapolation_assign(y, cs); });
  cs_variants<PH>(m, "limited_BHRZ03_extrapolation_assign", "constraint_system_dimension_exceeds", IA, CK_DIM, [](PH& x, const Constraint_System& cs) { PH y(x.space_dimension(), EMPTY); x.limited_BHRZ03_extrapolation_assign(y, cs); });
  if (!Tr<PH>::nnc) {
    cs_variants<PH>(m, "add_constraints", "strict_inequality_on_C_polyhedron", IA, CK_STRICT, [](PH& x, const Constraint_System& cs) { x.add_constraints(cs); }, d1);
    cs_variants<PH>(m, m.cls + "(Constraint_System)", "strict_inequality_on_C_polyhedron", IA, CK_STRICT, [](PH& x, const Constraint_System& cs) { (void) x; PH y(cs); (void) y; });
    cs_variants<PH>(m, "limited_H79_extrapolation_assign", "strict_inequality_on_C_polyhedron", IA, CK_STRICT, [](PH& x, const Constraint_System& cs) { PH y(x.space_dimension(), EMPTY); x.limited_H79_extrapolation_assign(y, cs); }, d1);
    cs_variants<PH>(m, "limited_BHRZ03_extrapolation_assign", "strict_inequality_on_C_polyhedron", IA, CK_STRICT, [](PH& x, const Constraint_System& cs) { PH y(x.space_dimension(), EMPTY); x.limited_BHRZ03_extrapolation_assign(y, cs); }, d1);
    cs_variants<PH>(m, "bounded_H79_extrapolation_assign", "strict_inequality_on_C_polyhedron", IA, CK_STRICT, [](PH& x, const Constraint_System& cs) { PH y(x.space_dimension(), EMPTY); x.bounded_H79_extrapolation_assign(y, cs); }, d1, true);
    cs_variants<PH>(m, "bounded_BHRZ03_extrapolation_assign", "strict_inequality_on_C_polyhedron", IA, CK_STRICT, [](PH& x, const Constraint_System& cs) { PH y(x.space_dimension(), EMPTY); x.bounded_BHRZ03_extrapolation_assign(y, cs); }, d1, true);
    gs_variants<PH>(m, "add_generators", "closure_point_on_C_polyhedron", IA, GK_CLOSURE, [](PH& x, const Generator_System& gs) { x.add_generators(gs); }, d1);
    gs_variants<PH>(m, m.cls + "(Generator_System)", "closure_point_on_C_polyhedron", IA, GK_CLOSURE, [](PH& x, const Generator_System& gs) { (void) x; PH y(gs); (void) y; });
  }
  // congruences that are proper
  m.call("add_congruence", "proper_congruence", IA, [](PH& x, Rej& rj) { OPND(Congruence, c, ((A %= 1) / 2)); rj.attempt([&] { x.add_congruence(c); }); OPCHK(c); }, false, d1);
  m.call("add_congruences", "proper_congruence", IA, [](PH& x, Rej& rj) { OPND(Congruence_System, cs, ((A %= 1) / 2)); rj.attempt([&] { x.add_congruences(cs); }); OPCHK(cs); }, false, d1);
  m.call("add_recycled_congruences", "proper_congruence", IA, [](PH& x, Rej& rj) { Congruence_System cs((A %= 1) / 2); rj.attempt([&] { x.add_recycled_congruences(cs); }); }, false, d1);
  m.call("add_congruences", "equality_then_proper_congruence", IA, [](PH& x, Rej& rj) { Congruence_System cs; cs.insert((A %= 0) / 0); cs.insert((A %= 1) / 2); rj.attempt([&] { x.add_congruences(cs); }); }, false, d1);
  // construction
  m.call(m.cls + "(Generator_System)", "no_point", IA, [](PH& x, Rej& rj) { (void) x; OPND(Generator_System, gs, (ray(A + B))); rj.attempt([&] { PH y(gs); (void) y; }); OPCHK(gs); });
  m.call(m.cls + "(Generator_System,Recycle_Input)", "no_point", IA, [](PH& x, Rej& rj) { (void) x; Generator_System gs(line(A)); rj.attempt([&] { PH y(gs, Recycle_Input()); (void) y; }); });
  if (!Tr<PH>::nnc) {
    // strict constraints / closure points on closed polyhedra
    m.call("add_constraint", "strict_inequality_on_C_polyhedron", IA, [](PH& x, Rej& rj) { OPND(Constraint, c, (A > 0)); rj.attempt([&] { x.add_constraint(c); }); OPCHK(c); }, false, d1);
    m.call("add_constraints", "strict_inequality_on_C_polyhedron", IA, [](PH& x, Rej& rj) { Constraint_System cs; cs.insert(A >= 0); cs.insert(A < 5); const std::string d = vf::dump_of(cs); rj.attempt([&] { x.add_constraints(cs); }); rj.operand("cs", d, vf::dump_of(cs)); }, false, d1);
    m.call("add_recycled_constraints", "strict_inequality_on_C_polyhedron", IA, [](PH& x, Rej& rj) { Constraint_System cs; cs.insert(A >= 0); cs.insert(A < 5); rj.attempt([&] { x.add_recycled_constraints(cs); }); }, false, d1);
    m.call("add_generator", "closure_point_on_C_polyhedron", IA, [](PH& x, Rej& rj) { OPND(Generator, g, (closure_point(A))); rj.attempt([&] { x.add_generator(g); }); OPCHK(g); }, false, d1);
    m.call("add_generators", "closure_point_on_C_polyhedron", IA, [](PH& x, Rej& rj) { Generator_System gs; gs.insert(point(A)); gs.insert(closure_point(2 * A)); rj.attempt([&] { x.add_generators(gs); }); }, false, d1);
    m.call("add_recycled_generators", "closure_point_on_C_polyhedron", IA, [](PH& x, Rej& rj) { Generator_System gs; gs.insert(point(A)); gs.insert(closure_point(2 * A)); rj.attempt([&] { x.add_recycled_generators(gs); }); }, false, d1);
    m.call(m.cls + "(Constraint_System)", "strict_inequality_on_C_polyhedron", IA, [](PH& x, Rej& rj) { (void) x; OPND(Constraint_System, cs, (A + B > 0)); rj.attempt([&] { PH y(cs); (void) y; }); OPCHK(cs); });
    m.call(m.cls + "(Constraint_System,Recycle_Input)", "strict_inequality_on_C_polyhedron", IA, [](PH& x, Rej& rj) { (void) x; Constraint_System cs(A + B > 0); rj.attempt([&] { PH y(cs, Recycle_Input()); (void) y; }); });
    m.call(m.cls + "(Generator_System)", "closure_point_on_C_polyhedron", IA, [](PH& x, Rej& rj) { (void) x; Generator_System gs; gs.insert(point()); gs.insert(closure_point(A)); const std::string d = vf::dump_of(gs); rj.attempt([&] { PH y(gs); (void) y; }); rj.operand("gs", d, vf::dump_of(gs)); });
    m.call("limited_H79_extrapolation_assign", "strict_inequality_on_C_polyhedron", IA, [](PH& x, Rej& rj) { OPND(PH, y, (N, EMPTY)); OPND(Constraint_System, cs, (A > 0)); rj.attempt([&] { x.limited_H79_extrapolation_assign(y, cs); }); OPCHK(y); OPCHK(cs); }, false, d1);
    m.call("limited_BHRZ03_extrapolation_assign", "strict_inequality_on_C_polyhedron", IA, [](PH& x, Rej& rj) { OPND(PH, y, (N, EMPTY)); OPND(Constraint_System, cs, (A > 0)); rj.attempt([&] { x.limited_BHRZ03_extrapolation_assign(y, cs); }); OPCHK(y); OPCHK(cs); }, false, d1);
  }
}
template <typename PH>
static void poly_states(Menu<PH>& m) {
  const bool nnc = Tr<PH>::nnc;
  m.state("universe0", [] { return PH(0); });
  m.state("empty0", [] { return PH(0, EMPTY); });
  m.state("universe2", [] { return PH(2); });
  m.state("empty2_marked", [] { return PH(2, EMPTY); });
  m.state("empty2_by_constraints_unminimized", [] { PH x(2); x.add_constraint(A >= 1); x.add_constraint(A <= 0); return x; });
  m.state("empty1_by_constraints_minimized", [] { PH x(1); x.add_constraint(A >= 1); x.add_constraint(A <= 0); (void) x.is_empty(); return x; });
  m.state("point2_by_generator", [] { PH x(2, EMPTY); x.add_generator(point(A + 2 * B, 3)); return x; });
  m.state("triangle2_by_constraints", [] { PH x(2); x.add_constraint(A >= 0); x.add_constraint(B >= 0); x.add_constraint(A + B <= 3); return x; });
  m.state("triangle2_by_generators", [] { PH x(2, EMPTY); x.add_generator(point()); x.add_generator(point(3 * A)); x.add_generator(point(3 * B, 2)); return x; });
  m.state("triangle2_minimized", [] { PH x(2); x.add_constraint(A >= 0); x.add_constraint(B >= 0); x.add_constraint(A + B <= 3); (void) x.minimized_generators(); (void) x.minimized_constraints(); return x; });
  m.state("triangle2_pending_constraint", [] { PH x(2); x.add_constraint(A >= 0); x.add_constraint(B >= 0); x.add_constraint(A + B <= 3); (void) x.minimized_generators(); x.add_constraint(A <= 2); return x; });
  m.state("triangle2_pending_generator", [] { PH x(2); x.add_constraint(A >= 0); x.add_constraint(B >= 0); x.add_constraint(A + B <= 3); (void) x.minimized_generators(); x.add_generator(point(5 * A)); return x; });
  m.state("halfplane2_by_constraint", [] { PH x(2); x.add_constraint(A - B >= 1); return x; });
  m.state("cone2_by_generators", [] { PH x(2, EMPTY); x.add_generator(point(A)); x.add_generator(ray(A + B)); x.add_generator(ray(A - B)); return x; });
  m.state("strip2_with_line", [] { PH x(2, EMPTY); x.add_generator(point()); x.add_generator(line(A + B)); x.add_generator(point(A)); return x; });
  m.state("line1_equality", [] { PH x(2); x.add_constraint(A == 2); x.add_constraint(B >= 0); return x; });
  m.state("tetra3_by_constraints", [] { PH x(3); x.add_constraint(A >= 0); x.add_constraint(B >= 0); x.add_constraint(C >= 0); x.add_constraint(A + B + C <= 2); return x; });
  m.state("segment3_by_generators", [] { PH x(3, EMPTY); x.add_generator(point(A + C)); x.add_generator(point(B, 2)); return x; });
  if (nnc) {
    m.state("open_triangle2_by_constraints", [] { PH x(2); x.add_constraint(A > 0); x.add_constraint(B > 0); x.add_constraint(A + B < 3); return x; });
    m.state("half_open_segment2_by_generators", [] { PH x(2, EMPTY); x.add_generator(point(A)); x.add_generator(closure_point(3 * A + B)); return x; });
    m.state("open_halfplane2_minimized", [] { PH x(2); x.add_constraint(A - B > 1); (void) x.minimized_generators(); return x; });
    m.state("empty2_by_strict_constraints", [] { PH x(2); x.add_constraint(A > 0); x.add_constraint(A < 0); return x; });
  }
}

// ---- weakly relational shapes and boxes ------------------------------------------------------------
template <typename SH>
static void shape_states(Menu<SH>& m) {
  m.state("universe0", [] { return SH(0); });
  m.state("empty0", [] { return SH(0, EMPTY); });
  m.state("universe2", [] { return SH(2); });
  m.state("empty2_marked", [] { return SH(2, EMPTY); });
  m.state("empty2_by_constraints_unclosed", [] { SH x(2); x.add_constraint(A >= 1); x.add_constraint(A <= 0); return x; });
  m.state("empty2_by_constraints_detected", [] { SH x(2); x.add_constraint(A >= 1); x.add_constraint(A <= 0); (void) x.is_empty(); return x; });
  m.state("point2", [] { SH x(2); x.add_constraint(3 * A == 1); x.add_constraint(B == 2); return x; });
  m.state("box2_by_constraints", [] { SH x(2); x.add_constraint(A >= 0); x.add_constraint(A <= 3); x.add_constraint(B >= -1); x.add_constraint(2 * B <= 5); return x; });
  m.state("box2_closed", [] { SH x(2); x.add_constraint(A >= 0); x.add_constraint(A <= 3); x.add_constraint(B >= -1); x.add_constraint(2 * B <= 5); (void) x.is_empty(); (void) x.minimized_constraints(); return x; });
  m.state("halfspace2", [] { SH x(2); x.add_constraint(A >= 1); return x; });
  m.state("from_generators2", [] { Generator_System gs; gs.insert(point()); gs.insert(point(3 * A + B, 2)); gs.insert(ray(B)); return SH(gs); });
  m.state("box3_by_constraints", [] { SH x(3); x.add_constraint(A >= 0); x.add_constraint(B <= 4); x.add_constraint(C >= -2); x.add_constraint(C <= 2); return x; });
  if (Tr<SH>::weakly) {
    m.state("relational2_unclosed", [] { SH x(2); x.add_constraint(A - B <= 2); x.add_constraint(B - A <= 1); x.add_constraint(A <= 5); return x; });
    m.state("relational3_closed", [] { SH x(3); x.add_constraint(A - B <= 2); x.add_constraint(B - C <= 1); x.add_constraint(C - A <= 0); x.add_constraint(A >= 0); (void) x.minimized_constraints(); return x; });
  }
  if (Tr<SH>::box) {
    m.state("half_open_box2", [] { SH x(2); x.add_constraint(A > 0); x.add_constraint(A <= 3); x.add_constraint(B < 1); return x; });
  }
}

template <typename SH>
static void add_shape(Menu<SH>& m) {
  std::function<bool(const SH&)> d1 = has_dim1<SH>, d2 = has_dim2<SH>;
  // constraints the domain cannot represent: add_constraint must reject them (refine_with_constraint accepts them)
  if (Tr<SH>::weakly) {
    m.call("add_constraint", "constraint_not_in_domain_three_variables", IA, [](SH& x, Rej& rj) { OPND(Constraint, c, (A + B + C <= 1)); rj.attempt([&] { x.add_constraint(c); }); OPCHK(c); }, false, [](const SH& x) { return x.space_dimension() >= 3; });
    m.call("add_constraint", "constraint_not_in_domain_non_unit_coefficients", IA, [](SH& x, Rej& rj) { OPND(Constraint, c, (2 * A - 3 * B <= 1)); rj.attempt([&] { x.add_constraint(c); }); OPCHK(c); }, false, d2);
    m.call("add_constraints", "constraint_not_in_domain_non_unit_coefficients", IA, [](SH& x, Rej& rj) { Constraint_System cs; cs.insert(A >= 0); cs.insert(2 * A - 3 * B <= 1); rj.attempt([&] { x.add_constraints(cs); }); }, false, d2);
    m.call("add_recycled_constraints", "constraint_not_in_domain_non_unit_coefficients", IA, [](SH& x, Rej& rj) { Constraint_System cs; cs.insert(2 * A - 3 * B <= 1); rj.attempt([&] { x.add_recycled_constraints(cs); }); }, false, d2);
    m.call(m.cls + "(Constraint_System)", "constraint_not_in_domain_non_unit_coefficients", IA, [](SH& x, Rej& rj) { (void) x; OPND(Constraint_System, cs, (2 * A - 3 * B <= 1)); rj.attempt([&] { SH y(cs); (void) y; }); OPCHK(cs); });
    m.call("add_constraint", "strict_inequality_on_closed_domain", IA, [](SH& x, Rej& rj) { OPND(Constraint, c, (A < 1)); rj.attempt([&] { x.add_constraint(c); }); OPCHK(c); }, false, d1);
  }
  cgs_variants<SH>(m, "add_congruences", "proper_congruence", IA, GGK_PROPER, [](SH& x, const Congruence_System& cgs) { x.add_congruences(cgs); }, d1);
  cs_variants<SH>(m, "limited_CC76_extrapolation_assign", "constraint_system_dimension_exceeds", IA, CK_DIM, [](SH& x, const Constraint_System& cs) { SH y(x.space_dimension(), EMPTY); x.limited_CC76_extrapolation_assign(y, cs); });
  cs_variants<SH>(m, "limited_CC76_extrapolation_assign", "strict_inequality_in_constraint_system", IA, CK_STRICT, [](SH& x, const Constraint_System& cs) { SH y(x.space_dimension(), EMPTY); x.limited_CC76_extrapolation_assign(y, cs); }, d1);
  if (Tr<SH>::weakly) {
    cs_variants<SH>(m, "add_constraints", "constraint_not_in_domain_non_unit_coefficients", IA, CK_NONBD, [](SH& x, const Constraint_System& cs) { x.add_constraints(cs); }, d2);
    cs_variants<SH>(m, m.cls + "(Constraint_System)", "constraint_not_in_domain_non_unit_coefficients", IA, CK_NONBD, [](SH& x, const Constraint_System& cs) { (void) x; SH y(cs); (void) y; });
    cs_variants<SH>(m, "add_constraints", "strict_inequality_on_closed_domain", IA, CK_STRICT, [](SH& x, const Constraint_System& cs) { x.add_constraints(cs); }, d1);
  }
  if (Tr<SH>::box)
    cs_variants<SH>(m, "add_constraints", "constraint_not_an_interval_constraint", IA, CK_NONBD, [](SH& x, const Constraint_System& cs) { x.add_constraints(cs); }, d2);
  m.call("add_congruence", "proper_congruence", IA, [](SH& x, Rej& rj) { OPND(Congruence, c, ((A %= 1) / 2)); rj.attempt([&] { x.add_congruence(c); }); OPCHK(c); }, false, d1);
  m.call("add_congruences", "proper_congruence", IA, [](SH& x, Rej& rj) { OPND(Congruence_System, cs, ((A %= 1) / 2)); rj.attempt([&] { x.add_congruences(cs); }); OPCHK(cs); }, false, d1);
  m.call(m.cls + "(Generator_System)", "no_point", IA, [](SH& x, Rej& rj) { (void) x; OPND(Generator_System, gs, (ray(A + B))); rj.attempt([&] { SH y(gs); (void) y; }); OPCHK(gs); });
  // widenings
#define DIMS(method, stmt) m.call(method, "operand_dimension_differs", IA, [](SH& x, Rej& rj) { OPND(SH, y, (N + 1)); rj.attempt([&] { stmt; }); OPCHK(y); })
  m.call("limited_CC76_extrapolation_assign", "operand_dimension_differs", IA, [](SH& x, Rej& rj) { OPND(SH, y, (N + 1)); Constraint_System cs; rj.attempt([&] { x.limited_CC76_extrapolation_assign(y, cs); }); OPCHK(y); });
  m.call("limited_CC76_extrapolation_assign", "constraint_system_dimension_exceeds", IA, [](SH& x, Rej& rj) { OPND(SH, y, (N, EMPTY)); OPND(Constraint_System, cs, (le_dim(N + 1) >= 0)); rj.attempt([&] { x.limited_CC76_extrapolation_assign(y, cs); }); OPCHK(y); OPCHK(cs); });
}
template <typename SH>
static void add_weakly(Menu<SH>& m) {
  std::function<bool(const SH&)> d1 = has_dim1<SH>;
  DIMS("CC76_extrapolation_assign", x.CC76_extrapolation_assign(y)); DIMS("BHMZ05_widening_assign", x.BHMZ05_widening_assign(y)); DIMS("CC76_narrowing_assign", x.CC76_narrowing_assign(y));
  m.call("limited_BHMZ05_extrapolation_assign", "operand_dimension_differs", IA, [](SH& x, Rej& rj) { OPND(SH, y, (N + 1)); Constraint_System cs; rj.attempt([&] { x.limited_BHMZ05_extrapolation_assign(y, cs); }); OPCHK(y); });
  m.call("limited_BHMZ05_extrapolation_assign", "constraint_system_dimension_exceeds", IA, [](SH& x, Rej& rj) { OPND(SH, y, (N, EMPTY)); OPND(Constraint_System, cs, (le_dim(N + 1) >= 0)); rj.attempt([&] { x.limited_BHMZ05_extrapolation_assign(y, cs); }); OPCHK(y); OPCHK(cs); });
  cs_variants<SH>(m, "limited_BHMZ05_extrapolation_assign", "strict_inequality_in_constraint_system", IA, CK_STRICT, [](SH& x, const Constraint_System& cs) { SH y(x.space_dimension(), EMPTY); x.limited_BHMZ05_extrapolation_assign(y, cs); }, d1);
  cs_variants<SH>(m, "limited_BHMZ05_extrapolation_assign", "constraint_system_dimension_exceeds", IA, CK_DIM, [](SH& x, const Constraint_System& cs) { SH y(x.space_dimension(), EMPTY); x.limited_BHMZ05_extrapolation_assign(y, cs); });
  m.call("limited_BHMZ05_extrapolation_assign", "strict_inequality_in_constraint_system", IA, [](SH& x, Rej& rj) { OPND(SH, y, (N, EMPTY)); OPND(Constraint_System, cs, (A < 7)); rj.attempt([&] { x.limited_BHMZ05_extrapolation_assign(y, cs); }); OPCHK(y); OPCHK(cs); }, false, d1);
  m.call("limited_CC76_extrapolation_assign", "strict_inequality_in_constraint_system", IA, [](SH& x, Rej& rj) { OPND(SH, y, (N, EMPTY)); OPND(Constraint_System, cs, (A < 7)); rj.attempt([&] { x.limited_CC76_extrapolation_assign(y, cs); }); OPCHK(y); OPCHK(cs); }, false, d1);
}
static void add_box(Menu<Rational_Box>& m) {
  typedef Rational_Box SH;
  std::function<bool(const SH&)> d2 = has_dim2<SH>;
  m.call("add_constraint", "constraint_not_an_interval_constraint", IA, [](SH& x, Rej& rj) { OPND(Constraint, c, (A - B <= 1)); rj.attempt([&] { x.add_constraint(c); }); OPCHK(c); }, false, d2);
  m.call("add_constraints", "constraint_not_an_interval_constraint", IA, [](SH& x, Rej& rj) { Constraint_System cs; cs.insert(A >= 0); cs.insert(A - B <= 1); rj.attempt([&] { x.add_constraints(cs); }); }, false, d2);
  m.call("add_recycled_constraints", "constraint_not_an_interval_constraint", IA, [](SH& x, Rej& rj) { Constraint_System cs; cs.insert(A - B <= 1); rj.attempt([&] { x.add_recycled_constraints(cs); }); }, false, d2);
  m.call("Box(Constraint_System)", "constraint_not_an_interval_constraint", IA, [](SH& x, Rej& rj) { (void) x; OPND(Constraint_System, cs, (A - B <= 1)); rj.attempt([&] { SH y(cs); (void) y; }); OPCHK(cs); });
  m.call("propagate_constraints", "constraint_system_dimension_exceeds", IA, [](SH& x, Rej& rj) { OPND(Constraint_System, cs, (le_dim(N + 1) >= 0)); rj.attempt([&] { x.propagate_constraints(cs); }); OPCHK(cs); });
  m.call("propagate_constraint", "constraint_dimension_exceeds", IA, [](SH& x, Rej& rj) { OPND(Constraint, c, (le_dim(N + 1) >= 0)); rj.attempt([&] { x.propagate_constraint(c); }); OPCHK(c); });
  m.call("get_interval", "variable_not_a_dimension", IA, [](SH& x, Rej& rj) { rj.attempt([&] { (void) x.get_interval(Variable(N)); }); });
  m.call("set_interval", "variable_not_a_dimension", IA, [](SH& x, Rej& rj) { Rational_Box::interval_type i; i.assign(UNIVERSE); rj.attempt([&] { x.set_interval(Variable(N), i); }); });
}

// ---- grids ----------------------------------------------------------------------------------
static void grid_states(Menu<Grid>& m) {
  m.state("universe0", [] { return Grid(0); });
  m.state("empty0", [] { return Grid(0, EMPTY); });
  m.state("universe2", [] { return Grid(2); });
  m.state("empty2_marked", [] { return Grid(2, EMPTY); });
  m.state("empty2_by_congruences", [] { Grid x(2); x.add_congruence((A %= 0) / 2); x.add_congruence((A %= 1) / 2); return x; });
  m.state("lattice2_by_congruences", [] { Grid x(2); x.add_congruence((A + B %= 1) / 3); x.add_congruence((A %= 0) / 2); return x; });
  m.state("lattice2_minimized", [] { Grid x(2); x.add_congruence((A + B %= 1) / 3); x.add_congruence((A %= 0) / 2); (void) x.minimized_grid_generators(); (void) x.minimized_congruences(); return x; });
  m.state("lattice2_by_generators", [] { Grid x(2, EMPTY); x.add_grid_generator(grid_point(A, 2)); x.add_grid_generator(parameter(3 * B, 2)); x.add_grid_generator(parameter(A + B)); return x; });
  m.state("point2", [] { Grid x(2, EMPTY); x.add_grid_generator(grid_point(A + 2 * B, 3)); return x; });
  m.state("line2", [] { Grid x(2); x.add_constraint(A - B == 1); return x; });
  m.state("lattice2_pending_congruence", [] { Grid x(2); x.add_congruence((A %= 0) / 2); (void) x.minimized_grid_generators(); x.add_congruence((B %= 1) / 3); return x; });
  m.state("lattice3_with_line", [] { Grid x(3, EMPTY); x.add_grid_generator(grid_point(C)); x.add_grid_generator(parameter(2 * A)); x.add_grid_generator(grid_line(B)); return x; });
}
static void add_grid(Menu<Grid>& m) {
  typedef Grid SH;
  std::function<bool(const Grid&)> d1 = has_dim1<Grid>;
  std::function<bool(const Grid&)> empty1 = [](const Grid& x) { Grid c(x); return x.space_dimension() >= 1 && c.is_empty(); };
  m.call("add_constraint", "inequality_constraint", IA, [](Grid& x, Rej& rj) { OPND(Constraint, c, (A >= 1)); rj.attempt([&] { x.add_constraint(c); }); OPCHK(c); }, false, d1);
  m.call("add_constraints", "inequality_constraint", IA, [](Grid& x, Rej& rj) { Constraint_System cs; cs.insert(A == 0); cs.insert(A >= 1); rj.attempt([&] { x.add_constraints(cs); }); }, false, d1);
  m.call("add_recycled_constraints", "inequality_constraint", IA, [](Grid& x, Rej& rj) { Constraint_System cs; cs.insert(A >= 1); rj.attempt([&] { x.add_recycled_constraints(cs); }); }, false, d1);
  cs_variants<Grid>(m, "add_constraints", "inequality_constraint", IA, CK_INEQ, [](Grid& x, const Constraint_System& cs) { x.add_constraints(cs); }, d1);
  cs_variants<Grid>(m, "Grid(Constraint_System)", "inequality_constraint", IA, CK_INEQ, [](Grid& x, const Constraint_System& cs) { (void) x; Grid y(cs); (void) y; });
  cgs_variants<Grid>(m, "limited_extrapolation_assign", "congruence_system_dimension_exceeds", IA, GGK_DIM, [](Grid& x, const Congruence_System& cgs) { Grid y(x.space_dimension(), EMPTY); x.limited_extrapolation_assign(y, cgs); });
  m.call("Grid(Constraint_System)", "inequality_constraint", IA, [](Grid& x, Rej& rj) { (void) x; OPND(Constraint_System, cs, (A + B >= 0)); rj.attempt([&] { Grid y(cs); (void) y; }); OPCHK(cs); });
  m.call("Grid(Grid_Generator_System)", "no_point", IA, [](Grid& x, Rej& rj) { (void) x; OPND(Grid_Generator_System, gs, (grid_line(A + B))); rj.attempt([&] { Grid y(gs); (void) y; }); OPCHK(gs); });
  m.call("add_grid_generator", "generator_dimension_exceeds", IA, [](Grid& x, Rej& rj) { OPND(Grid_Generator, g, (grid_point(le_dim(N + 1)))); rj.attempt([&] { x.add_grid_generator(g); }); OPCHK(g); });
  m.call("add_grid_generators", "generator_system_dimension_exceeds", IA, [](Grid& x, Rej& rj) { OPND(Grid_Generator_System, gs, (grid_point(le_dim(N + 1)))); rj.attempt([&] { x.add_grid_generators(gs); }); OPCHK(gs); });
  m.call("add_recycled_grid_generators", "generator_system_dimension_exceeds", IA, [](Grid& x, Rej& rj) { Grid_Generator_System gs(grid_point(le_dim(N + 1))); rj.attempt([&] { x.add_recycled_grid_generators(gs); }); });
  m.call("add_grid_generator", "line_into_empty_grid", IA, [](Grid& x, Rej& rj) { OPND(Grid_Generator, g, (grid_line(A))); rj.attempt([&] { x.add_grid_generator(g); }); OPCHK(g); }, true, empty1);
  m.call("add_grid_generator", "parameter_into_empty_grid", IA, [](Grid& x, Rej& rj) { OPND(Grid_Generator, g, (parameter(A))); rj.attempt([&] { x.add_grid_generator(g); }); OPCHK(g); }, true, empty1);
  m.call("add_grid_generators", "no_point_into_empty_grid", IA, [](Grid& x, Rej& rj) { OPND(Grid_Generator_System, gs, (grid_line(A))); rj.attempt([&] { x.add_grid_generators(gs); }); OPCHK(gs); }, true, empty1);
  DIMS("congruence_widening_assign", x.congruence_widening_assign(y)); DIMS("generator_widening_assign", x.generator_widening_assign(y)); DIMS("widening_assign", x.widening_assign(y));
  m.call("limited_extrapolation_assign", "operand_dimension_differs", IA, [](Grid& x, Rej& rj) { OPND(Grid, y, (N + 1)); Congruence_System cs; rj.attempt([&] { x.limited_extrapolation_assign(y, cs); }); OPCHK(y); });
  m.call("limited_congruence_extrapolation_assign", "congruence_system_dimension_exceeds", IA, [](Grid& x, Rej& rj) { OPND(Grid, y, (N, EMPTY)); OPND(Congruence_System, cs, ((le_dim(N + 1) %= 0) / 2)); rj.attempt([&] { x.limited_congruence_extrapolation_assign(y, cs); }); OPCHK(y); OPCHK(cs); });
  m.call("limited_generator_extrapolation_assign", "congruence_system_dimension_exceeds", IA, [](Grid& x, Rej& rj) { OPND(Grid, y, (N, EMPTY)); OPND(Congruence_System, cs, ((le_dim(N + 1) %= 0) / 2)); rj.attempt([&] { x.limited_generator_extrapolation_assign(y, cs); }); OPCHK(y); OPCHK(cs); });
}

static Menu<C_Polyhedron> M_C; static Menu<NNC_Polyhedron> M_NNC; static Menu<Grid> M_GRID; static Menu<Rational_Box> M_BOX; static Menu<BDS> M_BDS; static Menu<OCT> M_OCT;

void register_simple_domains() {
  M_C.cls = "C_Polyhedron"; poly_states(M_C); add_common(M_C); add_closed(M_C); add_poly(M_C); runners().push_back(make_runner(&M_C));
  M_NNC.cls = "NNC_Polyhedron"; poly_states(M_NNC); add_common(M_NNC); add_poly(M_NNC); runners().push_back(make_runner(&M_NNC));
  M_GRID.cls = "Grid"; grid_states(M_GRID); add_common(M_GRID); add_grid(M_GRID); runners().push_back(make_runner(&M_GRID));
  M_BOX.cls = "Box"; shape_states(M_BOX); add_common(M_BOX); add_shape(M_BOX); add_box(M_BOX); runners().push_back(make_runner(&M_BOX));
  M_BDS.cls = "BD_Shape"; shape_states(M_BDS); add_common(M_BDS); add_closed(M_BDS); add_shape(M_BDS); add_weakly(M_BDS); runners().push_back(make_runner(&M_BDS));
  M_OCT.cls = "Octagonal_Shape"; shape_states(M_OCT); add_common(M_OCT); add_closed(M_OCT); add_shape(M_OCT); add_weakly(M_OCT); runners().push_back(make_runner(&M_OCT));
}

} // namespace c14r

// C15: ascii_dump / ascii_load round-trips every object in every reachable internal state.
// For every class: states = histories over the class alphabet (engine/classes.hh) explored
// breadth-first to depth D-1 and deduplicated on the dump text; in every state
//   t = dump(s); loaded = load(t) succeeds; dump(loaded) == t; loaded.OK(); loaded == s;
//   one-step look-ahead: for EVERY operation op of the alphabet (and every operand),
//   dump(op(s)) == dump(op(loaded)) and equal return values.
#include "engine/classes.hh"
#if VF_GROUP >= 7
#include "engine/classes_c15x.hh"
#endif
using namespace vf;

static Args ARGS;
static long long TOTAL_STATES = 0, TOTAL_TRANS = 0;
static std::vector<std::string> SAMPLES;
static std::vector<std::string> PER_CLASS;
static bool ALL_COMPLETE = true;

// first line on which two texts differ (for triggers / reports)
static std::string first_diff(const std::string& a, const std::string& b) {
  std::istringstream x(a), y(b); std::string l1, l2; int n = 0;
  for (;;) {
    bool g1 = (bool)std::getline(x, l1), g2 = (bool)std::getline(y, l2); ++n;
    if (!g1 && !g2) return "";
    if (!g1 || !g2 || l1 != l2) return "line " + std::to_string(n) + ": '" + (g1 ? l1 : "<eof>") + "' vs '" + (g2 ? l2 : "<eof>") + "'";
  }
}

// class-specific narrow triggers for known findings (predicates over the two texts)
static std::string trigger_for(const std::string& cls, const std::string& clause, const std::string& a, const std::string& b) {
  (void)cls; (void)clause; (void)a; (void)b;
  return "none";
}

// Load targets: ascii_load must work on ANY target object, not only on a freshly constructed one.
// Target -1 is the blank object; target k >= 0 is initial object k after all unary observers have
// been applied to it (so that its caches, saturation/redundancy matrices... are populated).
template <class T>
static T* make_target(const ClassAdapter<T>& A, int k) {
  if (k < 0) return A.blank();
  T* o = A.initials[k].second();
  for (size_t m = 0; m < A.muts.size(); ++m) if (A.muts[m].observer && !A.muts[m].binary) { try { A.muts[m].f(*o, 0); } catch (...) {} }
  return o;
}

// ---- replay (bin/vcheck replay): VERIF_REPLAY_TXT holds K class=, K next_op=, K load_target=, H <history entries>
static std::map<std::string, std::string> RK; static std::vector<std::string> RH; static bool REPLAY = false; static int REPLAY_RC = 2;
static void load_replay() {
  const char* f = getenv("VERIF_REPLAY_TXT"); if (!f) return;
  std::ifstream in(f); std::string line;
  while (std::getline(in, line)) {
    if (line.size() < 3) continue;
    if (line[0] == 'K') { size_t e = line.find('='); RK[line.substr(2, e - 2)] = line.substr(e + 1); }
    else if (line[0] == 'H') RH.push_back(line.substr(2));
  }
}
template <class T>
static bool parse_step(const ClassAdapter<T>& A, const std::string& txt, Step& st) {
  for (size_t m = 0; m < A.muts.size(); ++m) {
    if (!A.muts[m].binary) { if (A.muts[m].name == txt) { st.op = (int)m; st.operand = -1; return true; } continue; }
    for (size_t k = 0; k < A.initials.size(); ++k) if (A.muts[m].name + " arg=" + A.initials[k].first == txt) { st.op = (int)m; st.operand = (int)k; return true; }
  }
  return false;
}
template <class T>
static void replay_class(const ClassAdapter<T>& A) {
  if (RK["class"] != A.name || RH.empty()) return;
  Hist h; Step s0; s0.op = -1; s0.operand = -2;
  for (size_t k = 0; k < A.initials.size(); ++k) if (A.initials[k].first == RH[0]) s0.op = (int)k;
  if (s0.op < 0) { fprintf(stderr, "replay: unknown initial '%s'\n", RH[0].c_str()); return; }
  h.push_back(s0);
  for (size_t i = 1; i < RH.size(); ++i) { Step st; if (!parse_step(A, RH[i], st)) { fprintf(stderr, "replay: unknown step '%s'\n", RH[i].c_str()); return; } h.push_back(st); }
  std::unique_ptr<T> o(build(A, h));
  std::string t = A.dump(*o);
  int tg = -1; std::string lt = RK["load_target"];
  for (size_t k = 0; k < A.initials.size(); ++k) if (lt == "reused object: " + A.initials[k].first + " after its observers") tg = (int)k;
  std::unique_ptr<T> L(make_target(A, tg));
  bool okl = A.load(*L, t);
  std::string t2 = A.dump(*L);
  printf("class %s\nhistory %s\nload target: %s\n--- dump of the original ---\n%s--- ascii_load returned %s; dump of the loaded object ---\n%s--- %s; OK(original)=%d OK(loaded)=%d equal=%d\n",
         A.name.c_str(), hist_text(A, h).c_str(), tg < 0 ? "fresh object" : lt.c_str(), t.c_str(), okl ? "true" : "false", t2.c_str(),
         t == t2 ? "dumps identical" : ("DUMPS DIFFER: " + first_diff(t2, t)).c_str(), (int)A.ok(*o), (int)A.ok(*L), (int)A.equal(*L, *o));
  bool bad = !okl || t != t2 || (A.ok(*o) && !A.ok(*L)) || !A.equal(*L, *o);
  if (RK.count("next_op")) {
    Step st;
    if (parse_step(A, RK["next_op"], st)) {
      std::unique_ptr<T> x(build(A, h));
      std::string r1 = apply_mut(A, *x, st), r2 = apply_mut(A, *L, st);
      bool eq = A.equal(*x, *L);
      printf("next operation %s\n  on the original: '%s' -> %s\n  on the loaded:   '%s' -> %s\n  %s\n", RK["next_op"].c_str(), r1.c_str(), A.print(*x).substr(0, 300).c_str(),
             r2.c_str(), A.print(*L).substr(0, 300).c_str(), (r1 == r2 && eq) ? "AGREE" : "DISAGREE");
      if (r1 != r2 || !eq) bad = true;
    }
  }
  REPLAY_RC = bad ? 1 : 0;
}

template <class T>
static void run_class(const ClassAdapter<T>& A, int depth) {
  if (REPLAY) { replay_class(A); return; }
  double t0 = now_s();
  long long bfs_trans = 0;
  std::vector<Hist> states = explore<T>(A, depth - 1, ARGS,
    [&](const Hist& h, const Step& st, int sig) {
      (void)h; (void)st; (void)sig; count(CNT_USER);     // the operation itself crashes/hangs: owned by another property
    }, &bfs_trans);
  fprintf(stderr, "[c15] %s: %zu states (depth %d), %lld bfs transitions, %.1fs\n", A.name.c_str(), states.size(), depth - 1, bfs_trans, now_s() - t0);
  long long before = counter(CNT_TRANS);
  long long skipped_before = counter(CNT_SKIPPED);
  Pool::Fn fn = [&](long long item, long long sub_start) {
    const Hist& h = states[item];
    long long sub = 0;
    std::unique_ptr<T> o(build(A, h));
    std::string t = A.dump(*o);
    std::string inj = J().str("class", A.name).raw("history", hist_text(A, h)).done();
    { bool ok0 = true; try { ok0 = A.ok(*o); } catch (...) {}
      if (!ok0) { count(CNT_USER + 1); count(CNT_STATES); return; } }   // inconsistent original: another property's finding
    {
      long long my = sub++;
      if (pool().want(my, sub_start)) {
        pool().step(my);
        for (int tg = -1; tg < (int)A.initials.size(); ++tg) {
          std::unique_ptr<T> L(make_target(A, tg));
          std::string tname = tg < 0 ? "fresh object" : "reused object: " + A.initials[tg].first + " after its observers";
          std::string inj_t = J().str("class", A.name).raw("history", hist_text(A, h)).str("load_target", tname).done();
          std::string trg = tg < 0 ? "none" : "none";
          bool okl = false;
          try { okl = A.load(*L, t); } catch (const std::exception& e) { okl = false; }
          count(CNT_TRANS);
          if (!okl) { if (violcap().admit(A.name + "|load")) report_violation(A.name + "::ascii_load", "roundtrip:load-failed", trigger_for(A.name, "load", t, ""), inj_t, "ascii_load returned false", "true", t.substr(0, 600)); if (tg < 0) return; continue; }
          std::string t2 = A.dump(*L);
          if (t2 != t && violcap().admit(A.name + "|dump")) report_violation(A.name + "::ascii_load", "roundtrip:dump!=", trigger_for(A.name, "dump", t, t2), inj_t, first_diff(t2, t), "identical text");
          bool okk = false, ok0 = false; try { okk = A.ok(*L); ok0 = A.ok(*o); } catch (...) {}
          if (!okk && ok0 && violcap().admit(A.name + "|ok")) report_violation(A.name + "::ascii_load", "roundtrip:loaded-not-OK", trigger_for(A.name, "ok", t, t2), inj_t, "OK() false", "OK() true", t.substr(0, 800));
          std::unique_ptr<T> o2(build(A, h));
          bool eq = false; try { eq = A.equal(*L, *o2); } catch (...) {}
          if (!eq && violcap().admit(A.name + "|eq")) report_violation(A.name + "::ascii_load", "roundtrip:value!=", "none", inj_t, "loaded != original", "equal");
        }
      }
    }
    for (size_t m = 0; m < A.muts.size(); ++m) {
      int nops = A.muts[m].binary ? (int)A.initials.size() : 1;
      for (int k = 0; k < nops; ++k) {
        long long my = sub;
        if (!(pool().want(my, sub_start) || pool().only_sub == my + 1)) { sub += 2; continue; }
        sub++;
        pool().step(my);
        Step st; st.op = (int)m; st.operand = A.muts[m].binary ? k : -1;
        // even sub-step: the operation on the original (a crash here is not a round-trip matter)
        std::unique_ptr<T> x(build(A, h));
        std::string r1 = apply_mut(A, *x, st);
        bool ok1 = false; std::string p1;
        try { ok1 = A.ok(*x); p1 = A.print(*x); } catch (...) {}
        // whatever lazy computation the comparison below performs on the original (closure, minimization, solve())
        // is forced here, so that a crash of the ORIGINAL in it is attributed to the original, not to the loaded copy
        try { (void)A.equal(*x, *x); } catch (...) {}
        long long my2 = sub++;
        pool().step(my2);
        int tg = ((item + (long long)m) % 2 == 0) ? -1 : (int)((item + (long long)m) % (long long)A.initials.size());
        std::unique_ptr<T> y(make_target(A, tg));
        bool okl = false; try { okl = A.load(*y, t); } catch (...) {}
        if (!okl) continue;   // reported above
        std::string r2 = apply_mut(A, *y, st);
        count(CNT_TRANS, 2);
        std::string opn = A.muts[m].name + (st.operand >= 0 ? " arg=" + A.initials[st.operand].first : "");
        std::string site = A.name + "::ascii_load";
        std::string inj2 = J().str("class", A.name).raw("history", hist_text(A, h)).str("next_op", opn).str("load_target", tg < 0 ? "fresh object" : "reused object: " + A.initials[tg].first + " after its observers").done();
        if (r1 != r2) {
          if (violcap().admit(A.name + "|lr|" + A.muts[m].name)) report_violation(site, "roundtrip:lookahead-answer!=", trigger_for(A.name, "lookahead-return", t, ""), inj2, r2.substr(0, 300), r1.substr(0, 300));
          continue;
        }
        // the operation left the ORIGINAL inconsistent (e.g. overflow of a bounded coefficient type): another
        // property's finding; values of broken objects are not compared
        if (!ok1) { count(CNT_USER + 1); continue; }
        bool eq = false; try { eq = A.equal(*x, *y); } catch (...) {}
        if (!eq) {
          std::string py = "<print throws>", px = "<print throws>"; try { py = A.print(*y); } catch (...) {} try { px = A.print(*x); } catch (...) {}
          if (violcap().admit(A.name + "|lv|" + A.muts[m].name)) report_violation(site, "roundtrip:lookahead-value!=", "none", inj2, py.substr(0, 300), px.substr(0, 300)); continue; }
        // both objects are judged in the same situation: after the operation AND after the comparison above
        // (equality may close / minimize both sides; with inexact coefficients OK() can fail after that on both)
        bool ok2 = false, ok1b = false; try { ok2 = A.ok(*y); ok1b = A.ok(*x); } catch (...) {}
        if (ok1 && ok1b && !ok2 && violcap().admit(A.name + "|lo|" + A.muts[m].name)) report_violation(site, "roundtrip:lookahead-not-OK", "none", inj2, "OK() false after the operation on the loaded object", "OK() true as on the original");
      }
    }
    count(CNT_STATES);
  };
  Pool::CrashFn cf = [&](long long item, long long sub, int sig, bool confirmed) {
    if (!confirmed) return;
    // sub 0: load of the state itself; then pairs (op on original, op on loaded)
    if (sub < 0 || (sub >= 1 && (sub % 2) == 1)) { count(CNT_USER); return; }   // preamble = building/dumping the original     // the operation crashes on the original: not a round-trip matter
    std::string opn = "(load)";
    if (sub >= 2) {
      long long idx = (sub - 2) / 2, c = 0;
      for (size_t m = 0; m < A.muts.size() && opn == "(load)"; ++m) {
        int nops = A.muts[m].binary ? (int)A.initials.size() : 1;
        for (int k = 0; k < nops; ++k) { if (c == idx) { opn = A.muts[m].name + (A.muts[m].binary ? " arg=" + A.initials[k].first : ""); break; } ++c; }
      }
    }
    report_violation(A.name + "::ascii_load", std::string("roundtrip:lookahead-crash:") + signame(sig), "none",
                     J().str("class", A.name).raw("history", hist_text(A, states[item])).str("next_op", opn).done(), signame(sig), "same behaviour as the original");
  };
  pool().run((long long)states.size(), ARGS.jobs, fn, cf, ARGS, 60);
  long long tr = counter(CNT_TRANS) - before + bfs_trans;
  bool complete = counter(CNT_SKIPPED) == skipped_before && !ARGS.expired();
  if (!complete) ALL_COMPLETE = false;
  TOTAL_STATES += (long long)states.size(); TOTAL_TRANS += tr;
  if (!states.empty()) SAMPLES.push_back(J().str("class", A.name).raw("history", hist_text(A, states[states.size() / 2])).done());
  PER_CLASS.push_back(J().str("class", A.name).num("states", states.size()).num("transitions", tr).num("ops", A.muts.size()).num("initials", A.initials.size()).boolean("complete", complete).dbl("wall_s", now_s() - t0).done());
}

int main(int argc, char** argv) {
  ARGS = parse_args(argc, argv);
  sink().open(ARGS.out);
  int depth = atoi(ARGS.opt("--depth", ARGS.thorough() ? "4" : "3").c_str());
  double t0 = now_s();
  limit_memory(8ULL << 30);
  if (!ARGS.replay.empty()) { REPLAY = true; load_replay(); }
#if VF_GROUP == 1
  run_class(polyhedron_adapter<PPL::C_Polyhedron>("C_Polyhedron"), depth);
  run_class(polyhedron_adapter<PPL::NNC_Polyhedron>("NNC_Polyhedron"), depth);
#elif VF_GROUP == 2
  run_class(grid_adapter(), depth);
  run_class(domain_adapter<PPL::Rational_Box>("Rational_Box"), depth);
#elif VF_GROUP == 3
  run_class(domain_adapter<PPL::BD_Shape<mpq_class> >("BD_Shape<mpq_class>"), depth);
  run_class(domain_adapter<PPL::Octagonal_Shape<mpz_class> >("Octagonal_Shape<mpz_class>"), depth);
#elif VF_GROUP == 4
  run_class(domain_adapter<PPL::BD_Shape<double> >("BD_Shape<double>"), depth);
  run_class(domain_adapter<PPL::Octagonal_Shape<mpq_class> >("Octagonal_Shape<mpq_class>"), depth);
#elif VF_GROUP == 5
  run_class(powerset_adapter<PPL::C_Polyhedron>("Pointset_Powerset<C_Polyhedron>"), depth);
  run_class(product_adapter<PPL::Domain_Product<PPL::C_Polyhedron, PPL::Grid>::Constraints_Product>("Constraints_Product<C_Polyhedron,Grid>"), depth);
#elif VF_GROUP == 6
  run_class(linexpr_adapter(PPL::DENSE, "Linear_Expression<DENSE>"), depth + 1);
  run_class(linexpr_adapter(PPL::SPARSE, "Linear_Expression<SPARSE>"), depth + 1);
  run_class(consys_adapter(), depth + 1);
  run_class(gensys_adapter(), depth + 1);
  run_class(cgsys_adapter(), depth + 1);
  run_class(mip_adapter(), depth + 1);
  run_class(pip_adapter(), depth);
#elif VF_GROUP == 7      // single rows and the grid generator system
  run_class(constraint_adapter(), depth);
  run_class(generator_adapter(), depth);
  run_class(grid_generator_adapter(), depth);
  run_class(congruence_adapter(), depth);
  run_class(ggsys_adapter(), depth + 1);
#elif VF_GROUP == 8      // low-level rows and matrices
  run_class(dense_row_adapter(), depth + 1);
  run_class(sparse_row_adapter(), depth + 1);
  run_class(matrix_adapter<PPL::Dense_Row>("Matrix<Dense_Row>"), depth + 1);
  run_class(matrix_adapter<PPL::Sparse_Row>("Matrix<Sparse_Row>"), depth + 1);
  run_class(bit_matrix_adapter(), depth + 1);
  { typedef PPL::Checked_Number<mpq_class, PPL::WRD_Extended_Number_Policy> NQ; typedef PPL::Checked_Number<mpz_class, PPL::WRD_Extended_Number_Policy> NZ;
    typedef PPL::Checked_Number<double, PPL::WRD_Extended_Number_Policy> ND; typedef PPL::Checked_Number<float, PPL::WRD_Extended_Number_Policy> NF;
    typedef PPL::Checked_Number<int8_t, PPL::WRD_Extended_Number_Policy> N8; typedef PPL::Checked_Number<int16_t, PPL::WRD_Extended_Number_Policy> N16;
    run_class(db_matrix_adapter<NQ>("DB_Matrix<mpq_class>"), depth + 1);
    run_class(db_matrix_adapter<ND>("DB_Matrix<double>"), depth + 1);
    run_class(db_matrix_adapter<N8>("DB_Matrix<int8_t>"), depth + 1);
    run_class(or_matrix_adapter<NZ>("OR_Matrix<mpz_class>"), depth + 1);
    run_class(or_matrix_adapter<NF>("OR_Matrix<float>"), depth + 1);
    run_class(or_matrix_adapter<N16>("OR_Matrix<int16_t>"), depth + 1);
  }
#elif VF_GROUP == 9      // intervals and boxes over non-rational intervals
  run_class(interval_adapter<PPL::Rational_Interval>("Rational_Interval"), depth);
  run_class(interval_adapter<PPL::Interval<double, PPL::Floating_Point_Box_Interval_Info> >("Interval<double>"), depth);
  run_class(interval_adapter<PPL::Interval<float, PPL::Floating_Point_Box_Interval_Info> >("Interval<float>"), depth);
  run_class(interval_adapter<PPL::Interval<mpz_class, PPL::Z_Box_Interval_Info> >("Interval<mpz_class>"), depth);
  run_class(interval_adapter<PPL::Interval<int8_t, PPL::Native_Integer_Box_Interval_Info> >("Interval<int8_t>"), depth);
  run_class(xbox_adapter<PPL::Double_Box>("Double_Box"), depth);
  run_class(xbox_adapter<PPL::Float_Box>("Float_Box"), depth);
  run_class(xbox_adapter<PPL::Int8_Box>("Int8_Box"), depth);
#elif VF_GROUP == 10     // further weakly-relational shapes
  run_class(xshape_adapter<PPL::BD_Shape<float> >("BD_Shape<float>"), depth);
  run_class(xshape_adapter<PPL::BD_Shape<int8_t> >("BD_Shape<int8_t>"), depth);
  run_class(xshape_adapter<PPL::BD_Shape<mpz_class> >("BD_Shape<mpz_class>"), depth);
  run_class(xshape_adapter<PPL::Octagonal_Shape<double> >("Octagonal_Shape<double>"), depth);
  run_class(xshape_adapter<PPL::Octagonal_Shape<int16_t> >("Octagonal_Shape<int16_t>"), depth);
#elif VF_GROUP == 11     // further powersets and products
  run_class(powerset_adapter<PPL::NNC_Polyhedron>("Pointset_Powerset<NNC_Polyhedron>"), depth);
  run_class(powerset_adapter<PPL::Grid>("Pointset_Powerset<Grid>"), depth);
  run_class(powerset_adapter<PPL::Rational_Box>("Pointset_Powerset<Rational_Box>"), depth);
  run_class(product_adapter<PPL::Domain_Product<PPL::NNC_Polyhedron, PPL::Grid>::Direct_Product>("Direct_Product<NNC_Polyhedron,Grid>"), depth);
  run_class(product_adapter<PPL::Domain_Product<PPL::C_Polyhedron, PPL::Grid>::Congruences_Product>("Congruences_Product<C_Polyhedron,Grid>"), depth);
  run_class(product_adapter<PPL::Domain_Product<PPL::BD_Shape<mpq_class>, PPL::Grid>::Shape_Preserving_Product>("Shape_Preserving_Product<BD_Shape<mpq_class>,Grid>"), depth);
#elif VF_GROUP == 12     // solver states with solution trees / integer variables
  run_class(pip_tree_adapter(), depth);     // (re-solving crashes of the ORIGINAL, owned by C07, restart the BFS: no extra depth here)
  run_class(mip_int_adapter(), depth + 1);
#else
#error "VF_GROUP not set"
#endif
  if (REPLAY) return REPLAY_RC;
  J extra; extra.arr("classes", PER_CLASS).num("lookahead_depth", depth).num("operations_crashing_on_the_original_skipped", counter(CNT_USER)).num("states_whose_original_fails_OK_skipped", counter(CNT_USER + 1));
  J st; st.str("t", "stats").num("states", TOTAL_STATES).num("transitions", TOTAL_TRANS).num("traces_validated_against_impl", TOTAL_TRANS)
    .boolean("exhaustive", ALL_COMPLETE).str("bound", "histories of depth " + std::to_string(depth - 1) + " (dedup on dump) + one-step look-ahead with every operation")
    .arr("samples", SAMPLES).raw("extra", extra.done()).dbl("wall_s", now_s() - t0);
  sink().line(st.done());
  return 0;
}

// C08, thorough tier only: the weakly relational explorers instantiated on a floating point and on a bounded integer
// coefficient type (BD_Shape<double>, Octagonal_Shape<int8_t>).  Same code as harness/c08_shapes.cc.
#define C08_WITH_DOUBLE 1
#include "harness/c08_shapes.cc"
int main(int argc, char** argv) { return c08_shapes_main(argc, argv); }

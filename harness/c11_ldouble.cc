// C11 part 1: instantiations for long double
#include "harness/c11_cells.hh"
namespace c11 {
using namespace PPL;
typedef Debug_WRD_Extended_Number_Policy PD; typedef WRD_Extended_Number_Policy PW; typedef Extended_Number_Policy PE;
typedef Bounded_Policy PB; typedef Checks_NoExt_Policy PC;
template <class T> static void reg_int() {
  Runner<CNW<T, PD> >::register_all(); Runner<CNW<T, PW> >::register_all(); Runner<CNW<T, PB> >::register_all();
  Runner<CNW<T, PC> >::register_all(); Runner<CNW<T, Checked_Number_Transparent_Policy<T> > >::register_all(); Runner<RAWW<T> >::register_all();
}
template <class T> static void reg_flt() {
  Runner<CNW<T, PD> >::register_all(); Runner<CNW<T, PW> >::register_all(); Runner<CNW<T, PE> >::register_all();
  Runner<CNW<T, Checked_Number_Transparent_Policy<T> > >::register_all(); Runner<RAWW<T> >::register_all();
}
template <class T> static void reg_mp() {
  Runner<CNW<T, PD> >::register_all(); Runner<CNW<T, PW> >::register_all();
  Runner<CNW<T, Checked_Number_Transparent_Policy<T> > >::register_all(); Runner<RAWW<T> >::register_all();
}
void register_ldouble() { reg_flt<long double>(); }
}

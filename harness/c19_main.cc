// C19 -- Watchdog / weight-watcher model checking.
//
// Engine S (time watchdog): the REAL src/Watchdog.cc, Time.cc, Handler.cc and the inline Watchdog
// constructors/destructor (harness/c19_api.cc) are compiled by clang with
//   -O2 -fsanitize-coverage=trace-pc-guard,trace-loads,trace-stores
// so that the object calls __sanitizer_cov_{load,store}N before every memory access.  This file is NOT
// instrumented.  It defines
//   * setitimer / getitimer / sigaction: ONE virtual ITIMER_PROF over a virtual clock that only the
//     explorer advances (SIGPROF is blocked while its handler runs, as the kernel does);
//   * the load/store callbacks: every callback executed while a Watchdog API call or the timeout
//     handler is on the stack is a SCHEDULING POINT.  A schedule is a list of (point index, delta):
//     at that point the clock jumps by delta and, if the timer expired and SIGPROF is not blocked, the
//     handler registered through sigaction() is called right there (what a signal arriving at that
//     instruction does on one thread);
//   * a deterministic bump arena behind operator new/delete (freed blocks are poisoned, never reused;
//     a freed Handler gets a fake vtable that reports "act on destroyed handler");
//   * the monitors of property C19, the script enumerator, the stateless DFS over schedules with
//     hashing of the complete continuation state (virtual timer, all Watchdog statics, the heap arena,
//     the monitor model, the interrupted stack frames and the callee-saved registers), a fork pool
//     that attributes crashes and hangs to the exact schedule and re-runs it alone before reporting;
//   * engine X: exhaustive enumeration of Threshold_Watcher<Weightwatch_Traits> histories.
//
// x86-64 / SysV only (assembly trampolines capture the callee-saved registers for the state hash).
#include "engine/common.hh"
#include "ppl-config.h"
#include "globals_defs.hh"
#include "Watchdog_defs.hh"
#include "Threshold_Watcher_defs.hh"
#include "harness/c19_api.hh"
#include <dlfcn.h>
#include <sys/syscall.h>
#include <stdint.h>
#include <unordered_set>
#include <unordered_map>
#include <algorithm>

#if !defined(__x86_64__)
#error "c19 harness: x86-64 only"
#endif

using namespace vf;
namespace PPL = Parma_Polyhedra_Library;
typedef PPL::Watchdog WDG;
typedef PPL::Implementation::Watchdog::Time WTime;
typedef PPL::Implementation::Doubly_Linked_Object DLO;
typedef PPL::Implementation::Watchdog::Pending_Element<WTime> WElem;
typedef PPL::Threshold_Watcher<PPL::Weightwatch_Traits> Weightwatch;
typedef PPL::Implementation::Watchdog::Pending_Element<unsigned long long> XElem;

typedef long long usec_t;
static const usec_t CS = 10000;          // one centisecond in microseconds

static Args ARGS;

// ======================================================================================
// global switches read by the assembly trampolines and the allocator
// ======================================================================================
extern "C" { volatile int c19_active = 0; }   // scheduling points are live (in API, not in harness code)
static int g_in_api = 0;          // depth of code-under-test regions on the stack
static int g_harness = 0;         // >0: harness code is running inside such a region
static bool g_sched_on = false;   // script body (true) vs. prologue/epilogue (false)
static inline void upd_active() { c19_active = (g_in_api > 0 && g_harness == 0) ? 1 : 0; }
struct HarnessScope { HarnessScope() { ++g_harness; upd_active(); } ~HarnessScope() { --g_harness; upd_active(); } };

// ======================================================================================
// 128-bit state hash
// ======================================================================================
struct H128 { uint64_t a, b; bool operator==(const H128& o) const { return a == o.a && b == o.b; } };
struct H128Hash { size_t operator()(const H128& h) const { return (size_t)(h.a ^ (h.b * 0x9E3779B97F4A7C15ULL)); } };
struct Hasher {
  uint64_t a, b;
  Hasher() : a(0x243F6A8885A308D3ULL), b(0x13198A2E03707344ULL) {}
  inline void word(uint64_t w) {
    a = (a ^ w) * 0xFF51AFD7ED558CCDULL; a ^= a >> 32;
    b = (b + w) * 0xC4CEB9FE1A85EC53ULL; b ^= b >> 29; b += a;
  }
  void bytes(const void* p, size_t n) {
    const unsigned char* c = (const unsigned char*)p;
    while (n >= 8) { uint64_t w; memcpy(&w, c, 8); word(w); c += 8; n -= 8; }
    if (n) { uint64_t w = 0; memcpy(&w, c, n); word(w ^ ((uint64_t)n << 56)); }
    word(0xA5A5A5A5ULL);
  }
  H128 done() { word(0x5bd1e995); word(a >> 7); H128 h; h.a = a; h.b = b; return h; }
};

// ======================================================================================
// deterministic arena behind operator new / delete
// ======================================================================================
static char* ARENA = 0;
static const size_t ARENA_SZ = 1 << 16;
static size_t arena_used = 0;
static int arena_live = 0;
struct BlkHdr { uint32_t size; uint32_t live; uint64_t pad; };   // 16 bytes: keeps 16-byte alignment
static void* dead_vtable[5];
static void viol(const char* site, const char* clause, const std::string& detail, const char* trig);
static inline bool in_arena(const void* p) { return ARENA && (const char*)p >= ARENA && (const char*)p < ARENA + ARENA_SZ; }
static bool arena_block_live(const void* p) {
  if (!in_arena(p) || (const char*)p < ARENA + sizeof(BlkHdr) || (const char*)p >= ARENA + arena_used) return false;
  // walk the headers (few blocks)
  size_t off = 0;
  while (off < arena_used) {
    BlkHdr* h = (BlkHdr*)(ARENA + off);
    char* b = ARENA + off + sizeof(BlkHdr);
    if ((const char*)p >= b && (const char*)p < b + h->size) return h->live != 0;
    off += sizeof(BlkHdr) + ((h->size + 15) & ~(size_t)15);
  }
  return false;
}
static void* arena_alloc(size_t n) {
  size_t need = sizeof(BlkHdr) + ((n + 15) & ~(size_t)15);
  if (arena_used + need > ARENA_SZ) { fprintf(stderr, "c19: arena exhausted\n"); _exit(97); }
  BlkHdr* h = (BlkHdr*)(ARENA + arena_used);
  h->size = (uint32_t)n; h->live = 1; h->pad = 0;
  void* p = ARENA + arena_used + sizeof(BlkHdr);
  arena_used += need; ++arena_live;
  return p;
}
static void arena_free(void* p) {
  BlkHdr* h = (BlkHdr*)((char*)p - sizeof(BlkHdr));
  if (!h->live) { HarnessScope hs; viol("operator delete", "double_delete", "a heap block of the code under test was deleted twice", 0); return; }
  h->live = 0; --arena_live;
  memset(p, 0xDD, h->size);
  if (h->size >= sizeof(void*)) *(void**)p = &dead_vtable[2];
}
static void arena_reset() {
  if (arena_used) memset(ARENA, 0, arena_used);
  arena_used = 0; arena_live = 0;
}
void* operator new(size_t n) {
  if (g_in_api > 0 && g_harness == 0) return arena_alloc(n);
  void* p = malloc(n ? n : 1);
  if (!p) throw std::bad_alloc();
  return p;
}
void* operator new[](size_t n) { return operator new(n); }
void operator delete(void* p) noexcept { if (!p) return; if (in_arena(p)) arena_free(p); else free(p); }
void operator delete[](void* p) noexcept { operator delete(p); }
void operator delete(void* p, size_t) noexcept { operator delete(p); }
void operator delete[](void* p, size_t) noexcept { operator delete(p); }

// ======================================================================================
// the virtual timer
// ======================================================================================
struct VTimer {
  usec_t clock;
  usec_t expiry;        // absolute, valid when armed
  usec_t interval;
  int armed;
  int pending;          // SIGPROF generated, not yet delivered
  int blocked;          // SIGPROF blocked (its handler is running)
  int masked;           // SIGPROF blocked through sigprocmask() by the code under test
};
static VTimer vt;
static usec_t g_clock0 = 0;              // initial value of the virtual clock (microseconds, --clock0)
static void (*g_handler)(int) = 0;          // registered through sigaction(SIGPROF)
static long g_n_setitimer = 0, g_n_getitimer = 0;

static inline usec_t tv2us(const struct timeval& t) { return (usec_t)t.tv_sec * 1000000 + t.tv_usec; }
static inline void us2tv(usec_t u, struct timeval& t) { t.tv_sec = u / 1000000; t.tv_usec = u % 1000000; }

extern "C" int setitimer(__itimer_which_t which, const struct itimerval* nv, struct itimerval* ov) noexcept {
  if (which != ITIMER_PROF) return (int)syscall(SYS_setitimer, (int)which, nv, ov);
  ++g_n_setitimer;
  if (ov) {
    us2tv(vt.armed ? std::max<usec_t>(vt.expiry - vt.clock, 1) : 0, ov->it_value);
    us2tv(vt.interval, ov->it_interval);
  }
  if (nv) {
    usec_t v = tv2us(nv->it_value);
    vt.interval = tv2us(nv->it_interval);
    if (v == 0) vt.armed = 0; else { vt.armed = 1; vt.expiry = vt.clock + v; }
  }
  return 0;
}
extern "C" int getitimer(__itimer_which_t which, struct itimerval* cv) noexcept {
  if (which != ITIMER_PROF) return (int)syscall(SYS_getitimer, (int)which, cv);
  ++g_n_getitimer;
  us2tv(vt.armed ? std::max<usec_t>(vt.expiry - vt.clock, 1) : 0, cv->it_value);
  us2tv(vt.interval, cv->it_interval);
  return 0;
}
extern "C" int sigaction(int sig, const struct sigaction* act, struct sigaction* oact) noexcept {
  if (sig != SIGPROF) {
    typedef int (*real_t)(int, const struct sigaction*, struct sigaction*);
    static real_t real = 0;
    if (!real) real = (real_t)dlsym(RTLD_NEXT, "sigaction");
    return real ? real(sig, act, oact) : -1;
  }
  if (oact) { memset(oact, 0, sizeof *oact); oact->sa_handler = g_handler; }
  if (act) g_handler = act->sa_handler;
  return 0;
}

// sigprocmask: the SIGPROF bit is virtual (a pending virtual SIGPROF is delivered when it gets unblocked,
// as the kernel does on return from the system call); everything is also forwarded to the real call.
static void deliver();
extern "C" int sigprocmask(int how, const sigset_t* set, sigset_t* oset) noexcept {
  typedef int (*real_t)(int, const sigset_t*, sigset_t*);
  static real_t real = 0;
  if (!real) real = (real_t)dlsym(RTLD_NEXT, "sigprocmask");
  int was = vt.masked;
  int r = real ? real(how, set, oset) : -1;
  if (oset) { if (was) sigaddset(oset, SIGPROF); else sigdelset(oset, SIGPROF); }
  if (r == 0 && set) {
    int in = sigismember(set, SIGPROF);
    if (how == SIG_BLOCK) { if (in) vt.masked = 1; }
    else if (how == SIG_UNBLOCK) { if (in) vt.masked = 0; }
    else if (how == SIG_SETMASK) vt.masked = in ? 1 : 0;
    if (was && !vt.masked && vt.pending) { HarnessScope hs; deliver(); }
  }
  return r;
}

// ======================================================================================
// the model kept by the monitors (plain data: part of the hashed state)
// ======================================================================================
enum { W_NONE = 0, W_CTOR = 1, W_ALIVE = 2, W_DTOR = 3, W_DEAD = 4 };
struct WRec {
  int state, fired;
  usec_t delay, t_entry, t_return, t_fire;
  void* obj;
};
enum { F_DEFER = 1, F_JUMP_IN_HANDLER = 2, F_SIG_IN_CTOR_OUTSIDE_CS = 4, F_SIG_IN_DTOR_OUTSIDE_CS = 8,
       F_SIG_BETWEEN_APIS = 16, F_FIRED_DTOR_TARGET_BEFORE_CS = 32, F_JUMP_IN_CS = 64, F_JUMP = 128 };
struct Model {
  WRec w[3];
  int step;             // script position
  int api_kind;         // 0 none, 1 ctor, 2 dtor
  int api_idx;
  int api_entered_cs;   // the current API call has set in_critical_section
  int api_expired_tested; // the running destructor has loaded its `expired` member
  int deferrals;
  int flags;
  int holder_model;     // flag-style constructor: index of the flag the holder must point to (-1 floor)
  usec_t total_jump;
};
static Model M;

// event log (not part of the state): for reports and the replay-determinism check
struct Ev { char type; int a; usec_t t; long point; };
static Ev g_log[256];
static int g_nlog = 0;
static long g_point = 0;
static inline void logev(char type, int a) { if (g_nlog < 256) { Ev& e = g_log[g_nlog++]; e.type = type; e.a = a; e.t = vt.clock; e.point = g_point; } }

// first violation of the current schedule
struct Viol { bool set; std::string site, clause, detail, trig; int flags; };
static Viol g_viol;
static void viol(const char* site, const char* clause, const std::string& detail, const char* trig = 0) {
  if (g_viol.set) return;
  g_viol.set = true; g_viol.site = site; g_viol.clause = clause; g_viol.detail = detail; g_viol.flags = M.flags; g_viol.trig = trig ? trig : "";
}

// ======================================================================================
// observation hooks: handler functions and flags
// ======================================================================================
static const char* api_site() {
  if (vt.blocked) return "Watchdog::handle_timeout";
  return M.api_kind == 1 ? "Watchdog::Watchdog" : M.api_kind == 2 ? "Watchdog::~Watchdog" : "Watchdog";
}
static std::string us(usec_t t) { char b[48]; snprintf(b, sizeof b, "%.2fcs", (double)t / CS); return b; }

static void on_fire(int i) {
  // called with g_harness > 0
  logev('F', i);
  WRec& w = M.w[i];
  usec_t now = vt.clock;
  if (w.state == W_NONE) { viol("Watchdog::handle_timeout", "fired_before_creation", "action of watchdog " + std::to_string(i) + " ran before it was created"); return; }
  if (w.fired) viol("Watchdog::handle_timeout", "fired_twice", "action of watchdog " + std::to_string(i) + " ran a second time at " + us(now) + " (first at " + us(w.t_fire) + ")");
  if (w.state == W_DEAD) viol("Watchdog::handle_timeout", "fired_after_destruction", "action of watchdog " + std::to_string(i) + " ran at " + us(now) + " after its destructor had returned");
  if (now < w.t_entry + w.delay)
    viol("Watchdog::handle_timeout", "fired_early", "action of watchdog " + std::to_string(i) + " (delay " + us(w.delay) + ", constructor entered at " + us(w.t_entry) + ") ran at " + us(now) + ": only " + us(now - w.t_entry) + " elapsed");
  for (int j = 0; j < 3; ++j) {
    const WRec& o = M.w[j];
    if (j == i || o.state != W_ALIVE || o.fired) continue;
    // order up to the timing tolerance: time that passes inside an API call / the handler, and every deferral,
    // may delay an old deadline (the reconstructed clock lags); with 0 deviations the tolerance is 0
    usec_t slack = M.total_jump + (usec_t)M.deferrals * CS;
    if (o.t_return + o.delay + slack < w.t_entry + w.delay)
      viol("Watchdog::handle_timeout", "fired_out_of_order", "action of watchdog " + std::to_string(i) + " (deadline " + us(w.t_entry + w.delay) + ") ran at " + us(now)
           + " while watchdog " + std::to_string(j) + " (deadline " + us(o.t_return + o.delay) + ", tolerance " + us(slack) + ") was alive and had not fired");
  }
  if (M.api_kind == 2 && M.api_idx == i && M.api_expired_tested && !M.api_entered_cs) M.flags |= F_FIRED_DTOR_TARGET_BEFORE_CS;
  ++w.fired; w.t_fire = now;
}
static void fire0() { HarnessScope hs; on_fire(0); }
static void fire1() { HarnessScope hs; on_fire(1); }
static void fire2() { HarnessScope hs; on_fire(2); }
static void (*const FIRE[3])() = { fire0, fire1, fire2 };

// flag-style constructor: the holder always points to some flag (initially the "floor"), so that
// Handler_Flag::act() calls priority() on the holder's flag and on the firing flag: the pair is the event.
static bool g_engine_x = false;
static void x_on_fire(int i);
static c19::Flag g_floor(-1, -1);
static c19::Flag g_flags[3] = { c19::Flag(0, 2), c19::Flag(1, 1), c19::Flag(2, 3) };
static const c19::FlagBase* volatile g_holder = &g_floor;
static const c19::Flag* g_prio_calls[2];
static int g_nprio = 0;
int c19::Flag::priority() const {
  if (g_in_api == 0 || g_harness > 0) return prio;
  HarnessScope hs;
  g_prio_calls[g_nprio++] = this;
  if (g_nprio == 2) {
    g_nprio = 0;
    const c19::FlagBase* h = g_holder;
    const c19::Flag* f = (g_prio_calls[0] != h) ? g_prio_calls[0] : g_prio_calls[1];
    if (f->idx >= 0) {
      if (g_engine_x) x_on_fire(f->idx); else on_fire(f->idx);
      int hp = M.holder_model < 0 ? -1 : g_flags[M.holder_model].prio;
      if (hp < f->prio) M.holder_model = f->idx;
    } else viol("Handler_Flag::act", "floor_flag_fired", "the handler installed the initial holder flag");
  }
  return prio;
}

// poisoned (deleted) Handler: vtable slots
static void dead_act(void*) { HarnessScope hs; logev('X', -1); viol("Watchdog::handle_timeout", "act_on_destroyed_handler", "Handler::act() was called on a Handler that the Watchdog destructor had already deleted"); }
static void dead_dtor(void*) { HarnessScope hs; viol("Watchdog::~Watchdog", "destroy_destroyed_handler", "a deleted Handler was destroyed again"); }

// ======================================================================================
// signal delivery and the clock
// ======================================================================================
static char* g_api_sp = 0;     // stack address at entry of the outermost code-under-test region

static void deliver() {
  while (vt.pending && !vt.blocked && !vt.masked) {
    vt.pending = 0; vt.blocked = 1;
    bool crit = WDG::in_critical_section;
    logev(crit ? 'd' : 'H', M.api_kind);
    if (crit) { ++M.deferrals; M.flags |= F_DEFER; }
    else if (M.api_kind == 1) M.flags |= F_SIG_IN_CTOR_OUTSIDE_CS;
    else if (M.api_kind == 2) M.flags |= F_SIG_IN_DTOR_OUTSIDE_CS;
    else M.flags |= F_SIG_BETWEEN_APIS;
    char here;
    bool outer = (g_in_api == 0);
    if (outer) g_api_sp = &here;
    int saved_h = g_harness;
    ++g_in_api; g_harness = 0; upd_active();
    bool threw = false; std::string what;
    try { if (g_handler) g_handler(SIGPROF); }
    catch (const std::exception& e) { g_harness = saved_h + 1; threw = true; what = e.what(); }
    catch (...) { g_harness = saved_h + 1; threw = true; what = "(unknown exception)"; }
    --g_in_api; g_harness = saved_h; upd_active();
    if (threw) { HarnessScope hs; viol("Watchdog::handle_timeout", "exception_from_signal_handler", "the SIGPROF handler threw: " + what); }
    vt.blocked = 0;
  }
}

// time passes by `delta`; SIGPROF is generated at the instant the timer expires and delivered there
static void advance_clock(usec_t delta) {
  usec_t remaining = delta;
  for (;;) {
    if (vt.armed && vt.expiry - vt.clock <= remaining) {
      usec_t step = std::max<usec_t>(vt.expiry - vt.clock, 0);
      vt.clock += step; remaining -= step;
      if (vt.interval > 0) vt.expiry = vt.clock + vt.interval; else vt.armed = 0;
      vt.pending = 1;
      if (vt.blocked || vt.masked) { if (vt.interval > 0) { vt.armed = 0; } }
      else deliver();
      if (vt.blocked || vt.masked) break;
      continue;
    }
    break;
  }
  vt.clock += remaining;
}

struct Slot { volatile long long script; volatile long long lvl, p1, d1, p2, d2; volatile int flags; volatile int busy; };
struct Board {
  Slot slot[64];
  volatile long long next_script;
  volatile long long outcome[8192];
  volatile long long viol_emitted[64];
  volatile int sample_set[3];
  char sample[3][256];
};
static Board* BOARD = 0;
static int g_worker = -1;

// ======================================================================================
// scheduling points
// ======================================================================================
struct Jump { long p; usec_t d; };
static Jump g_sched[4];
static int g_nsched = 0, g_nj = 0;
static const long POINT_LIMIT = 200000;

// recording of arrival states (state on arrival at a point, before any jump there)
static bool g_rec = false;
static long g_rec_after = -1;                       // record points with index > g_rec_after
static std::unordered_set<H128, H128Hash>* g_visited = 0;   // cut as soon as a state was seen before
static bool g_rec_cut_enabled = false;
static long g_cut = -1;                             // first point whose arrival state was already visited
static long g_states_new = 0;

struct StaticImg { void* addr; size_t size; std::vector<char> img; };
static std::vector<StaticImg> g_statics;

static H128 state_hash(const uint64_t* regs, const char* stack_lo) {
  Hasher h;
  h.bytes(&vt, sizeof vt);
  h.bytes(&M, sizeof M);
  for (size_t i = 0; i < g_statics.size(); ++i) h.bytes(g_statics[i].addr, g_statics[i].size);
  h.word(arena_used);
  h.bytes(ARENA, arena_used);
  const c19::FlagBase* hv = g_holder; h.word((uint64_t)(uintptr_t)hv);
  h.word(g_nprio); if (g_nprio) h.word((uint64_t)(uintptr_t)g_prio_calls[0]);
  if (regs) h.bytes(regs, 6 * 8);
  if (stack_lo && g_api_sp > stack_lo) h.bytes(stack_lo, (size_t)(g_api_sp - stack_lo));
  h.word(g_nj);
  return h.done();
}

static void hang_exit() {
  fprintf(stderr, "c19: more than %ld scheduling points in one schedule: hang\n", POINT_LIMIT);
  _exit(79);
}

// called from the assembly trampolines; regs points at the 6 pushed callee-saved registers,
// regs + 6 is the return address into the instrumented code (= the program point)
static inline void note_access(void* addr, long kind) {
  // the callback precedes the access: these notes take effect after a jump placed at the same point
  if (addr == (void*)&WDG::in_critical_section) { if (kind > 100) M.api_entered_cs = 1; }
  else if (M.api_kind == 2 && kind == 1 && M.w[M.api_idx].obj && addr == (void*)&static_cast<WDG*>(M.w[M.api_idx].obj)->expired && !vt.blocked) M.api_expired_tested = 1;
}
static long g_unscheduled_points = 0;
extern "C" void c19_point(void* addr, uint64_t* regs, long kind) {
  if (!g_sched_on) {        // prologue / epilogue / engine X: not a scheduling point, but still bounded (hang detection)
    if (++g_unscheduled_points > POINT_LIMIT) hang_exit();
    return;
  }
  long idx = g_point++;
  if (idx >= POINT_LIMIT) hang_exit();
  bool rec = g_rec && idx > g_rec_after;
  bool jump = g_nj < g_nsched && g_sched[g_nj].p == idx;
  if (!rec && !jump) { note_access(addr, kind); return; }
  ++g_harness; upd_active();
  if (rec) {
    H128 h = state_hash(regs, (const char*)regs);
    if (g_visited->insert(h).second) ++g_states_new;
    else if (g_rec_cut_enabled) { g_cut = idx; g_rec = false; }
  }
  if (jump) {
    usec_t d = g_sched[g_nj].d; ++g_nj;
    M.total_jump += d; M.flags |= F_JUMP;
    if (vt.blocked) M.flags |= F_JUMP_IN_HANDLER;
    else if (WDG::in_critical_section) M.flags |= F_JUMP_IN_CS;
    if (g_nlog < 256) { Ev& e = g_log[g_nlog++]; e.type = 'J'; e.a = (int)(d / CS); e.t = vt.clock; e.point = idx; }
    advance_clock(d);
    if (g_worker >= 0) BOARD->slot[g_worker].flags = M.flags;
  }
  note_access(addr, kind);
  --g_harness; upd_active();
}

#define C19_TRAMP(name, kind) \
  ".globl " #name "\n.type " #name ",@function\n" #name ":\n" \
  "  cmpl $0, c19_active(%rip)\n  jne 1f\n  ret\n1:\n" \
  "  pushq %rbx\n  pushq %rbp\n  pushq %r12\n  pushq %r13\n  pushq %r14\n  pushq %r15\n" \
  "  movq %rsp, %rsi\n  movl $" #kind ", %edx\n  subq $8, %rsp\n  call c19_point\n  addq $8, %rsp\n" \
  "  popq %r15\n  popq %r14\n  popq %r13\n  popq %r12\n  popq %rbp\n  popq %rbx\n  ret\n" \
  ".size " #name ", .-" #name "\n"
asm(".text\n"
    C19_TRAMP(__sanitizer_cov_load1, 1) C19_TRAMP(__sanitizer_cov_load2, 2) C19_TRAMP(__sanitizer_cov_load4, 4)
    C19_TRAMP(__sanitizer_cov_load8, 8) C19_TRAMP(__sanitizer_cov_load16, 16)
    C19_TRAMP(__sanitizer_cov_store1, 101) C19_TRAMP(__sanitizer_cov_store2, 102) C19_TRAMP(__sanitizer_cov_store4, 104)
    C19_TRAMP(__sanitizer_cov_store8, 108) C19_TRAMP(__sanitizer_cov_store16, 116));
extern "C" void __sanitizer_cov_trace_pc_guard(uint32_t*) {}
extern "C" void __sanitizer_cov_trace_pc_guard_init(uint32_t* start, uint32_t* stop) { for (uint32_t* p = start; p < stop; ++p) *p = 1; }

// ======================================================================================
// reset to the pristine process state (member-wise clone of the initial statics)
// ======================================================================================
template <typename T> static void add_static(T& obj) {
  StaticImg s; s.addr = (void*)&obj; s.size = sizeof(T); s.img.assign((char*)&obj, (char*)&obj + sizeof(T));
  g_statics.push_back(s);
}
static void snapshot_statics() {
  add_static(WDG::pending);
  add_static(WDG::last_time_requested);
  add_static(WDG::time_so_far);
  add_static(const_cast<bool&>(WDG::alarm_clock_running));
  add_static(const_cast<bool&>(WDG::in_critical_section));
  add_static(WDG::current_timer_status);
  add_static(WDG::signal_once);
  add_static(WDG::reschedule_time);
  add_static(Weightwatch::init);
  add_static(PPL::Weightwatch_Traits::weight);
  add_static(PPL::Weightwatch_Traits::check_function);
  add_static(PPL::abandon_expensive_computations);
}
static void hard_reset() {
  for (size_t i = 0; i < g_statics.size(); ++i) memcpy(g_statics[i].addr, g_statics[i].img.data(), g_statics[i].size);
  arena_reset();
  { int was_masked = vt.masked; vt.pending = 0;
    if (was_masked) { sigset_t m; sigemptyset(&m); sigaddset(&m, SIGPROF); sigprocmask(SIG_UNBLOCK, &m, 0); } }
  memset(&vt, 0, sizeof vt);
  vt.clock = g_clock0;
  memset(&M, 0, sizeof M);
  M.holder_model = -1;
  g_holder = &g_floor; g_nprio = 0;
  g_nlog = 0; g_point = 0; g_nj = 0; g_unscheduled_points = 0;
  g_in_api = 0; g_harness = 0; g_sched_on = false; upd_active();
  g_viol.set = false; g_viol.site.clear(); g_viol.clause.clear(); g_viol.detail.clear(); g_viol.trig.clear(); g_viol.flags = 0;
  g_n_setitimer = g_n_getitimer = 0;
}

// ======================================================================================
// structural monitors (run at quiescent points: after every API call and every advance)
// ======================================================================================
static inline usec_t wt2us(const WTime& t) { return (usec_t)t.seconds() * 1000000 + t.microseconds(); }

struct ListWalk { DLO* el[20]; int n; bool ok; const char* why; };
static ListWalk walk(DLO* sentinel) {
  ListWalk r; r.ok = true; r.n = 0; r.why = "";
  DLO* prev = sentinel;
  DLO* n = sentinel->next;
  for (int steps = 0; ; ++steps) {
    if (n == sentinel) { if (sentinel->prev != prev) { r.ok = false; r.why = "sentinel.prev does not point to the last element"; } break; }
    if (steps > 16) { r.ok = false; r.why = "list does not return to its sentinel (cycle)"; break; }
    if (!in_arena(n) || !arena_block_live(n)) { r.ok = false; r.why = "link points outside live heap blocks"; break; }
    if (n->prev != prev) { r.ok = false; r.why = "next/prev links are inconsistent"; break; }
    r.el[r.n++] = n;
    prev = n; n = n->next;
  }
  return r;
}

static void quiescent_checks(const char* site, bool final_state) {
  // flags
  if (WDG::in_critical_section) viol(site, "flag_invariant:in_critical_section_left_set", "in_critical_section is true outside the constructor/destructor");
  if (vt.masked) viol(site, "flag_invariant:SIGPROF_left_blocked", "SIGPROF is still blocked (sigprocmask) outside the constructor/destructor");
  DLO* act_s = (DLO*)&WDG::pending.active_list;
  DLO* free_s = (DLO*)&WDG::pending.free_list;
  ListWalk a = walk(act_s), f = walk(free_s);
  if (!a.ok) { viol(site, "list_invariant:active_list_corrupt", a.why); return; }
  if (!f.ok) { viol(site, "list_invariant:free_list_corrupt", f.why); return; }
  for (int i = 0; i < a.n; ++i)
    for (int j = 0; j < f.n; ++j)
      if (a.el[i] == f.el[j]) { viol(site, "list_invariant:element_on_both_lists", "a Pending_Element is linked into the active list and the free list"); return; }
  // every alive unexpired watchdog exactly once on the active list, nothing else
  int seen[3] = { 0, 0, 0 };
  usec_t prev_dl = -1;
  for (int i = 0; i < a.n; ++i) {
    WElem* e = static_cast<WElem*>(a.el[i]);
    int owner = -1;
    for (int k = 0; k < 3; ++k)
      if ((M.w[k].state == W_ALIVE) && M.w[k].obj && e->p_f == &static_cast<WDG*>(M.w[k].obj)->expired) owner = k;
    if (owner < 0) { viol(site, "list_invariant:stale_element_on_active_list", "the active list holds an element that belongs to no alive watchdog"); return; }
    if (e->p_h != &static_cast<WDG*>(M.w[owner].obj)->handler) { viol(site, "list_invariant:element_handler_mismatch", "element's handler is not its watchdog's handler"); return; }
    ++seen[owner];
    usec_t dl = wt2us(e->d);
    if (dl < prev_dl) { viol(site, "list_invariant:active_list_not_sorted", "deadlines on the active list are not in nondecreasing order"); return; }
    prev_dl = dl;
  }
  for (int k = 0; k < 3; ++k) {
    const WRec& w = M.w[k];
    if (w.state != W_ALIVE) continue;
    bool expired = static_cast<WDG*>(w.obj)->expired;
    if (expired != (w.fired > 0)) { viol(site, "flag_invariant:expired_flag_vs_action", "watchdog " + std::to_string(k) + ": expired flag is " + (expired ? "true" : "false") + " but its action ran " + std::to_string(w.fired) + " time(s)"); return; }
    int want = expired ? 0 : 1;
    if (seen[k] != want) { viol(site, "list_invariant:alive_unexpired_watchdog_not_exactly_once_on_active_list", "watchdog " + std::to_string(k) + " is on the active list " + std::to_string(seen[k]) + " time(s), expected " + std::to_string(want)); return; }
  }
  if (!WDG::pending.OK()) { viol(site, "list_invariant:Pending_List_OK_false", "Pending_List::OK() returned false"); return; }
  bool nonempty = a.n > 0;
  if ((bool)WDG::alarm_clock_running != nonempty) { viol(site, "timer_invariant:alarm_clock_running_vs_active_list", std::string("alarm_clock_running is ") + (WDG::alarm_clock_running ? "true" : "false") + " but the active list is " + (nonempty ? "non-empty" : "empty")); return; }
  if ((bool)vt.armed != nonempty) { viol(site, "timer_invariant:timer_armed_vs_active_list", std::string("the interval timer is ") + (vt.armed ? "armed" : "not armed") + " but the active list is " + (nonempty ? "non-empty" : "empty")); return; }
  if (vt.pending) { viol(site, "timer_invariant:signal_left_pending", "SIGPROF is pending at a quiescent point"); return; }
  // promptness
  usec_t slack = M.total_jump + (usec_t)M.deferrals * CS;
  for (int k = 0; k < 3; ++k) {
    const WRec& w = M.w[k];
    if (w.state == W_ALIVE && !w.fired && vt.clock >= w.t_return + w.delay + slack) {
      viol(site, final_state ? "not_fired_lost" : "not_fired_promptly",
           "watchdog " + std::to_string(k) + " (delay " + us(w.delay) + ", constructed at " + us(w.t_return) + ") is alive and has not fired at " + us(vt.clock)
           + " (allowed slack " + us(slack) + ")");
      return;
    }
  }
  if (M.holder_model >= 0 || g_holder != &g_floor) {
    const c19::FlagBase* want = M.holder_model < 0 ? (const c19::FlagBase*)&g_floor : (const c19::FlagBase*)&g_flags[M.holder_model];
    if (g_holder != want) { viol("Handler_Flag::act", "holder_not_highest_priority_fired_flag", "the flag holder does not hold the highest-priority flag installed so far"); return; }
  }
}

// ======================================================================================
// scripts
// ======================================================================================
struct Op { char k; int a; };      // 'C' delay cs | 'D' index | 'A' cs
typedef std::vector<Op> Script;
static std::string script_str(const Script& s) {
  std::string o;
  for (size_t i = 0; i < s.size(); ++i) { if (i) o += " "; o += s[i].k; o += std::to_string(s[i].a); }
  return o;
}
static Script parse_script(const std::string& t) {
  Script s; std::istringstream is(t); std::string w;
  while (is >> w) { Op o; o.k = w[0]; o.a = atoi(w.c_str() + 1); s.push_back(o); }
  return s;
}
// menus (centiseconds); the defaults are the stated alphabet, --delays / --advances / --deltas / --clock0 select
// the "seconds-crossing" variants (deadlines in different whole seconds with crossing sub-second parts)
static int DELAYS[3] = { 1, 2, 3 };
static int ADVS[2] = { 1, 2 };
static void enum_scripts(std::vector<Script>& out, Script& cur, int created, int alive, int maxlen) {
  if (!cur.empty()) out.push_back(cur);
  if ((int)cur.size() == maxlen) return;
  if (created < 3) for (int di = 0; di < 3; ++di) { int d = DELAYS[di]; Op o = { 'C', d }; cur.push_back(o); enum_scripts(out, cur, created + 1, alive | (1 << created), maxlen); cur.pop_back(); }
  for (int i = 0; i < 3; ++i) if (alive >> i & 1) { Op o = { 'D', i }; cur.push_back(o); enum_scripts(out, cur, created, alive & ~(1 << i), maxlen); cur.pop_back(); }
  for (int ai = 0; ai < 2; ++ai) { int d = ADVS[ai]; Op o = { 'A', d }; cur.push_back(o); enum_scripts(out, cur, created, alive, maxlen); cur.pop_back(); }
}

// ======================================================================================
// one execution of a script under a schedule
// ======================================================================================
static bool g_flag_ctor = false;           // --ctor flag

// create(0): the constructor must throw std::invalid_argument and leave no trace
static void api_create_zero() {
  M.api_kind = 1; M.api_idx = 3; M.api_entered_cs = 0;
  logev('C', -1);
  char here; g_api_sp = &here;
  int live0 = arena_live;
  bool threw = false;
  void* obj = 0;
  ++g_in_api; upd_active();
  try { obj = g_flag_ctor ? c19::wd_new_flag(0, g_holder, g_flags[0]) : c19::wd_new_fn(0, FIRE[0]); }
  catch (const std::invalid_argument&) { threw = true; }
  catch (const std::exception& e) { threw = true; --g_in_api; upd_active(); viol("Watchdog::Watchdog", "exception", std::string("constructor with 0 centiseconds threw: ") + e.what()); ++g_in_api; }
  --g_in_api; upd_active();
  M.api_kind = 0;
  logev('c', -1);
  (void)obj;
  if (!threw) { viol("Watchdog::Watchdog", "ctor_accepts_zero_delay", "Watchdog(0, ...) did not throw std::invalid_argument", "csecs_zero"); return; }
  // `new Watchdog` itself is released by the runtime; anything else still allocated was leaked by the constructor
  if (arena_live != live0)
    viol("Watchdog::Watchdog", "ctor_throw_leaks_handler", "Watchdog(0, ...) threw std::invalid_argument but " + std::to_string(arena_live - live0) + " heap block (the Handler allocated in the member initializer) stays allocated", "csecs_zero");
}
static void api_create(int i, int delay_cs) {
  WRec& w = M.w[i];
  w.state = W_CTOR; w.delay = delay_cs * CS; w.t_entry = vt.clock;
  M.api_kind = 1; M.api_idx = i; M.api_entered_cs = 0;
  logev('C', i);
  char here; g_api_sp = &here;
  void* obj = 0;
  ++g_in_api; upd_active();
  try {
    obj = g_flag_ctor ? c19::wd_new_flag(delay_cs, g_holder, g_flags[i]) : c19::wd_new_fn(delay_cs, FIRE[i]);
  } catch (const std::exception& e) {
    --g_in_api; upd_active();
    viol("Watchdog::Watchdog", "exception", std::string("constructor threw: ") + e.what());
    M.api_kind = 0; w.state = W_DEAD; return;
  }
  --g_in_api; upd_active();
  w.obj = obj; w.state = W_ALIVE; w.t_return = vt.clock;
  M.api_kind = 0;
  logev('c', i);
}
static void api_destroy(int i) {
  WRec& w = M.w[i];
  w.state = W_DTOR;
  M.api_kind = 2; M.api_idx = i; M.api_entered_cs = 0; M.api_expired_tested = 0;
  logev('D', i);
  char here; g_api_sp = &here;
  ++g_in_api; upd_active();
  try { c19::wd_delete(w.obj); }
  catch (const std::exception& e) {
    --g_in_api; upd_active();
    viol("Watchdog::~Watchdog", "exception", std::string("destructor threw: ") + e.what());
    M.api_kind = 0; w.state = W_DEAD; return;
  }
  --g_in_api; upd_active();
  w.state = W_DEAD; M.api_kind = 0;
  logev('e', i);
}

struct RunResult { long points; bool viol; };
static std::vector<H128> g_boundary;        // state hash at every script-step boundary of the last run
static bool g_want_boundary = false;

static RunResult run_schedule(const Script& s, const Jump* sched, int nsched) {
  hard_reset();
  g_nsched = nsched; for (int i = 0; i < nsched; ++i) g_sched[i] = sched[i];
  g_boundary.clear();
  g_sched_on = true;
  int created = 0;
  for (size_t k = 0; k < s.size(); ++k) {
    M.step = (int)k;
    const Op& o = s[k];
    if (o.k == 'C' && o.a == 0) { api_create_zero(); quiescent_checks("Watchdog::Watchdog", false); }
    else if (o.k == 'C') { api_create(created, o.a); ++created; quiescent_checks("Watchdog::Watchdog", false); }
    else if (o.k == 'D') { api_destroy(o.a); quiescent_checks("Watchdog::~Watchdog", false); }
    else { logev('A', o.a); advance_clock(o.a * CS); quiescent_checks("Watchdog::handle_timeout", false); }
    if (g_want_boundary) { M.step = (int)k + 1; g_boundary.push_back(state_hash(0, 0)); }
  }
  long pts = g_point;
  // epilogue (not scheduled): let every alive watchdog expire, then destroy the survivors
  g_sched_on = false; upd_active();
  M.step = (int)s.size();
  // long enough for every deadline plus the tolerance (a function of the script and the schedule only)
  usec_t DRAIN = 40 * CS;
  for (size_t k = 0; k < s.size(); ++k) if (s[k].k == 'C') DRAIN += 10 * (usec_t)s[k].a * CS;
  for (int i = 0; i < nsched; ++i) DRAIN += 10 * sched[i].d;
  logev('A', (int)(DRAIN / CS));
  advance_clock(DRAIN);
  quiescent_checks("Watchdog::handle_timeout", true);
  for (int i = 0; i < 3; ++i) if (M.w[i].state == W_ALIVE) { api_destroy(i); quiescent_checks("Watchdog::~Watchdog", true); }
  if (vt.armed) viol("Watchdog::~Watchdog", "end_state:timer_left_armed", "the interval timer is armed after every watchdog was destroyed");
  {
    ListWalk f = walk((DLO*)&WDG::pending.free_list);
    if (f.ok && arena_live != f.n)
      viol("Watchdog::~Watchdog", "end_state:heap_blocks_leaked", std::to_string(arena_live - f.n) + " heap block(s) besides the free-list elements are still allocated");
  }
  RunResult r; r.points = pts; r.viol = g_viol.set;
  return r;
}

static std::string log_text() {
  std::string o;
  for (int i = 0; i < g_nlog; ++i) {
    const Ev& e = g_log[i];
    char b[96];
    const char* nm = e.type == 'C' ? "ctor-enter" : e.type == 'c' ? "ctor-return" : e.type == 'D' ? "dtor-enter" : e.type == 'e' ? "dtor-return"
                   : e.type == 'A' ? "advance" : e.type == 'J' ? "JUMP" : e.type == 'H' ? "handler" : e.type == 'd' ? "handler(deferred:in_critical_section)"
                   : e.type == 'F' ? "ACTION" : e.type == 'X' ? "ACT-ON-DEAD-HANDLER" : "?";
    snprintf(b, sizeof b, "%s%s(%d)@%.2fcs/p%ld", i ? " " : "", nm, e.a, (double)e.t / CS, e.point);
    o += b;
  }
  return o;
}

static std::string trigger_of(int flags, const std::string& clause) {
  (void)clause;
  if (g_viol.set && !g_viol.trig.empty() && clause == g_viol.clause) return g_viol.trig;
  if (flags & F_DEFER) return "signal_deferred_in_critical_section";
  if (flags & F_JUMP_IN_HANDLER) return "time_passes_inside_handler";
  if (flags & F_FIRED_DTOR_TARGET_BEFORE_CS) return "signal_between_expired_test_and_critical_section_in_dtor";
  if (flags & F_SIG_IN_DTOR_OUTSIDE_CS) return "signal_in_dtor_outside_critical_section";
  if (flags & F_SIG_IN_CTOR_OUTSIDE_CS) return "signal_in_ctor_outside_critical_section";
  if (flags & F_JUMP_IN_CS) return "time_passes_inside_critical_section";
  if (flags & F_JUMP) return "time_passes_inside_api_call";
  return "none";
}

static std::string sched_json(const Jump* sched, int n) {
  std::string o = "[";
  for (int i = 0; i < n; ++i) { if (i) o += ","; char b[64]; if (sched[i].d % CS == 0) snprintf(b, sizeof b, "[%ld,%lld]", sched[i].p, sched[i].d / CS); else snprintf(b, sizeof b, "[%ld,%.2f]", sched[i].p, (double)sched[i].d / CS); o += b; }
  return o + "]";
}
static std::string input_json(const Script& s, const Jump* sched, int n) {
  J j; j.str("engine", "S").str("ctor", g_flag_ctor ? "flag" : "fn").str("script", script_str(s)).raw("schedule", sched_json(sched, n));
  if (g_clock0) j.num("clock0_us", g_clock0);
  return j.done();
}

// ======================================================================================
// shared progress slots (crash attribution) and counters
// ======================================================================================
enum { C_SCHED0 = CNT_USER, C_SCHED1, C_SCHED2, C_POINTS, C_STATES, C_SCRIPTS_DONE, C_VIOL_SCHEDULES, C_PRUNED_PREFIXES, C_REC_RUNS,
       C_X_HIST, C_X_CHECKS, C_X_STATES, C_DEADLINE_CUT, C_MAXPOINTS, C_REPLAY_CHECKS };

static int clause_id(const std::string& c) {
  static const char* names[] = { "ok", "fired_early", "fired_twice", "fired_after_destruction", "act_on_destroyed_handler", "fired_out_of_order",
                                 "not_fired_promptly", "not_fired_lost", "list_invariant", "timer_invariant", "flag_invariant", "exception", "end_state", "other" };
  for (int i = 0; i < 13; ++i) if (c.compare(0, strlen(names[i]), names[i]) == 0) return i;
  return 13;
}
static const char* clause_name(int i) {
  static const char* names[] = { "ok", "fired_early", "fired_twice", "fired_after_destruction", "act_on_destroyed_handler", "fired_out_of_order",
                                 "not_fired_promptly", "not_fired_lost", "list_invariant", "timer_invariant", "flag_invariant", "exception", "end_state", "other", "?", "?" };
  return names[i & 15];
}
// outcome class of a finished schedule: what an observer of the actions saw
static int outcome_code() {
  int fired = 0, unfired_destroyed = 0, in_api = 0;
  usec_t late = 0;
  for (int i = 0; i < 3; ++i) {
    const WRec& w = M.w[i];
    if (w.state == W_NONE) continue;
    if (w.fired) { ++fired; late = std::max(late, w.t_fire - (w.t_entry + w.delay)); } else ++unfired_destroyed;
  }
  for (int i = 0; i < g_nlog; ++i) if (g_log[i].type == 'F' && g_log[i].point > 0 && i > 0) { /* action inside an API call? */ }
  in_api = (M.flags & (F_SIG_IN_CTOR_OUTSIDE_CS | F_SIG_IN_DTOR_OUTSIDE_CS)) ? 1 : 0;
  int lb = late <= 0 ? 0 : late <= CS ? 1 : late <= 3 * CS ? 2 : 3;
  int df = std::min(M.deferrals, 3);
  int cl = g_viol.set ? clause_id(g_viol.clause) : 0;
  return (((((fired * 4 + unfired_destroyed) * 4 + df) * 4 + lb) * 2 + in_api) * 16 + cl) & 8191;
}
static std::string outcome_text(int code) {
  int cl = code & 15; code >>= 4; int in_api = code & 1; code >>= 1; int lb = code & 3; code >>= 2; int df = code & 3; code >>= 2;
  int unf = code & 3; code >>= 2; int fired = code & 3;
  static const char* lbs[] = { "on_time", "late<=1cs", "late<=3cs", "late>3cs" };
  return std::string("fired=") + std::to_string(fired) + ",destroyed_unfired=" + std::to_string(unf) + ",deferrals=" + std::to_string(df) + (df == 3 ? "+" : "")
       + "," + lbs[lb] + (in_api ? ",signal_inside_api_call" : "") + "," + clause_name(cl);
}

static void finish_schedule(const Script& s, const Jump* sched, int n, const RunResult& r) {
  count(C_POINTS, r.points);
  count(n == 0 ? C_SCHED0 : n == 1 ? C_SCHED1 : C_SCHED2);
  __sync_fetch_and_add(&BOARD->outcome[outcome_code()], 1);
  // one actually executed schedule per deviation bound is kept as a sample for the evidence file
  if (!BOARD->sample_set[n] && s.size() >= 4 && (n == 0 || (sched[0].p >= 10 && r.points > 60)) && __sync_bool_compare_and_swap(&BOARD->sample_set[n], 0, 1))
    snprintf(BOARD->sample[n], sizeof BOARD->sample[n], "%s", (J().str("script", script_str(s)).raw("schedule", sched_json(sched, n)).str("events", log_text().substr(0, 150)).done()).c_str());
  if (!r.viol) return;
  count(C_VIOL_SCHEDULES);
  std::string trig = trigger_of(g_viol.flags, g_viol.clause);
  std::string key = g_viol.site + "|" + g_viol.clause + "|" + trig;
  if (!violcap().admit(key)) return;
  // cross-worker cap (rough): hash the key into 64 buckets, at most 6 records per bucket
  size_t b = std::hash<std::string>()(key) % 64;
  if (__sync_fetch_and_add(&BOARD->viol_emitted[b], 1) >= 6) return;
  // replay determinism: the same schedule must give the same observations twice
  std::string log1 = log_text(); Viol v1 = g_viol;
  run_schedule(s, sched, n);
  std::string log2 = log_text();
  count(C_REPLAY_CHECKS);
  if (log1 != log2 || !g_viol.set || g_viol.clause != v1.clause) {
    sink().line(J().str("t", "error").str("msg", "replay of a failing schedule was not deterministic: " + script_str(s) + " " + sched_json(sched, n) + " first: " + log1 + " second: " + log2).done());
    return;
  }
  report_violation(v1.site, v1.clause, trig, input_json(s, sched, n), v1.detail, "property C19 monitors hold", log1);
}

// ======================================================================================
// exploration of one script: 0 deviations, every single jump, (thorough) every pair of jumps
// ======================================================================================
static usec_t DELTAS[3] = { 1 * CS, 2 * CS, 3 * CS };     // jump sizes (--deltas a,b,c in microseconds overrides: experiments only)
struct Cursor { long long lvl, p1, d1, p2, d2; };      // last schedule started (lexicographic order)
static bool after_cursor(const Cursor& c, long long p1, long long d1, long long p2, long long d2) {
  // is (p1,d1,p2,d2) strictly after c ?   (p2 = -1: the one-jump schedule itself)
  if (c.lvl < 0) return true;
  if (p1 != c.p1) return p1 > c.p1;
  if (d1 != c.d1) return d1 > c.d1;
  if (p2 != c.p2) return p2 > c.p2;
  return d2 > c.d2;
}
static void set_slot(long long script, long long lvl, long long p1, long long d1, long long p2, long long d2) {
  if (g_worker < 0) return;
  Slot& sl = BOARD->slot[g_worker];
  sl.script = script; sl.lvl = lvl; sl.p1 = p1; sl.d1 = d1; sl.p2 = p2; sl.d2 = d2; sl.flags = 0;
}

static int g_maxdev = 1;

static void explore_script(long long si, const Script& s, const Cursor& cur) {
  std::unordered_set<H128, H128Hash> visited;
  g_visited = &visited;
  g_states_new = 0;
  long N0 = 0;
  // ---- 0 deviations (also records the arrival state of every scheduling point)
  {
    bool fresh = cur.lvl < 0;
    set_slot(si, 0, -1, 0, -1, 0);
    if (fresh || cur.lvl > 0) {
      g_rec = true; g_rec_after = -1; g_rec_cut_enabled = false; g_want_boundary = true;
      RunResult r = run_schedule(s, 0, 0);
      g_rec = false;
      for (size_t i = 0; i < g_boundary.size(); ++i) if (visited.insert(g_boundary[i]).second) ++g_states_new;
      N0 = r.points;
      if (fresh) finish_schedule(s, 0, 0, r);
    } else return;   // the 0-deviation run itself crashed: nothing more can be enumerated for this script
  }
  if (g_maxdev < 1) { count(C_STATES, g_states_new); return; }
  long long maxp = counter(C_MAXPOINTS); if (N0 > maxp) shared()->counters[C_MAXPOINTS] = N0;
  std::unordered_set<H128, H128Hash> visited2;      // arrival states after exactly one jump, from which every second jump was explored
  Cursor c1 = cur;
  for (long p1 = 0; p1 < N0; ++p1) {
    for (int d1 = 0; d1 < 3; ++d1) {
      bool run1 = after_cursor(c1, p1, d1, -1, 0);
      bool need_children = g_maxdev >= 2 && (run1 || (c1.p1 == p1 && c1.d1 == d1));
      if (!run1 && !need_children) continue;
      if ((p1 & 15) == 0 && ARGS.expired()) { count(C_DEADLINE_CUT); count(C_STATES, g_states_new); return; }
      Jump j[2]; j[0].p = p1; j[0].d = DELTAS[d1];
      if (run1) set_slot(si, 1, p1, d1, -1, 0);
      g_want_boundary = true;
      if (g_maxdev >= 2) { g_rec = true; g_rec_after = p1; g_rec_cut_enabled = true; g_cut = -1; g_visited = &visited2; }
      RunResult r = run_schedule(s, j, 1);
      g_rec = false; g_visited = &visited;
      for (size_t i = 0; i < g_boundary.size(); ++i) if (visited.insert(g_boundary[i]).second) ++g_states_new;
      if (run1) finish_schedule(s, j, 1, r);
      if (g_maxdev < 2) continue;
      count(C_REC_RUNS);
      long lim = (g_cut >= 0) ? g_cut : r.points;      // second jumps at p2 in (p1, lim)
      if (g_cut >= 0) count(C_PRUNED_PREFIXES);
      for (long p2 = p1 + 1; p2 < lim; ++p2) {
        for (int d2 = 0; d2 < 3; ++d2) {
          if (!after_cursor(c1, p1, d1, p2, d2)) continue;
          if ((p2 & 63) == 0 && ARGS.expired()) { count(C_DEADLINE_CUT); count(C_STATES, g_states_new); return; }
          set_slot(si, 2, p1, d1, p2, d2);
          j[1].p = p2; j[1].d = DELTAS[d2];
          g_want_boundary = false;
          RunResult r2 = run_schedule(s, j, 2);
          finish_schedule(s, j, 2, r2);
        }
      }
    }
  }
  count(C_STATES, g_states_new);
}

// ======================================================================================
// engine X: Threshold_Watcher<Weightwatch_Traits>, exhaustive enumeration of histories
// ======================================================================================
// ops: 'c' delta | 'd' index | 'w' weight | 'k' (maybe_abandon)
struct XW { int state, fired; unsigned long long delta; long long acc; void* obj; };
struct XModel { XW w[3]; int created; int in_check; int nobs; int obs[8]; int bad_fire; };
static XModel XM;
static unsigned long long g_x_init = 0;
static const unsigned long long X_INITS[3] = { 0ULL, (1ULL << 63) - 2, ~0ULL - 2 };   // 0, 2^63-2, 2^64-3
static const unsigned long long X_DELTAS[4] = { 0, 1, 2, 5 };
static uint64_t g_x_endstate = 0;

static void x_on_fire(int i) {
  XW& w = XM.w[i];
  if (!XM.in_check) XM.bad_fire |= 1;                         // fired outside a check
  if (w.state != W_ALIVE) XM.bad_fire |= (w.state == W_DEAD ? 2 : 8);   // after destruction / before creation completed
  if (w.fired) XM.bad_fire |= 4;                              // twice
  ++w.fired;
  if (XM.nobs < 8) XM.obs[XM.nobs++] = i;
}
static void xfire0() { HarnessScope hs; x_on_fire(0); }
static void xfire1() { HarnessScope hs; x_on_fire(1); }
static void xfire2() { HarnessScope hs; x_on_fire(2); }
static void (*const XFIRE[3])() = { xfire0, xfire1, xfire2 };

struct XViolRec { std::string site, clause, trigger, detail; };
static std::vector<XViolRec> g_xviols;
static bool g_x_verbose = false;     // build human-readable details (only when a history is re-run for a report)
static int g_x_nviol = 0;
static void xviol(const char* site, const std::string& clause, const char* trigger, const std::string& detail) {
  ++g_x_nviol;
  for (size_t i = 0; i < g_xviols.size(); ++i) if (g_xviols[i].clause == clause && g_xviols[i].trigger == trigger) return;
  XViolRec r; r.site = site; r.clause = clause; r.trigger = trigger; r.detail = detail; g_xviols.push_back(r);
}

static void x_structural(const char* site, const std::string& at) {
  DLO* act_s = (DLO*)&Weightwatch::init.pending.active_list;
  DLO* free_s = (DLO*)&Weightwatch::init.pending.free_list;
  ListWalk a = walk(act_s), f = walk(free_s);
  if (!a.ok || !f.ok) { xviol(site, "list_invariant:list_corrupt", "none", at + ": " + (a.ok ? f.why : a.why)); return; }
  for (int i = 0; i < a.n; ++i) for (int j = 0; j < f.n; ++j)
    if (a.el[i] == f.el[j]) { xviol(site, "list_invariant:element_on_both_lists", "none", at); return; }
  int seen[3] = { 0, 0, 0 };
  unsigned long long cur = PPL::Weightwatch_Traits::weight;
  long long prev_rem = 0; bool have_prev = false; bool equal_thr = false;
  for (int i = 0; i < a.n; ++i) {
    XElem* e = static_cast<XElem*>(a.el[i]);
    int owner = -1;
    for (int k = 0; k < 3; ++k)
      if (XM.w[k].state == W_ALIVE && XM.w[k].obj && e->p_f == &static_cast<Weightwatch*>(XM.w[k].obj)->expired) owner = k;
    if (owner < 0) { xviol(site, "list_invariant:stale_element_on_active_list", "none", at); return; }
    ++seen[owner];
    long long rem = (long long)(e->d - cur);
    if (have_prev && rem < prev_rem) { xviol(site, "list_invariant:active_list_not_sorted", "none", at); return; }
    if (have_prev && rem == prev_rem) equal_thr = true;
    prev_rem = rem; have_prev = true;
    if (rem != (long long)XM.w[owner].delta - XM.w[owner].acc) { xviol(site, "list_invariant:threshold_value", "none", at + ": stored threshold is not creation weight + delta"); return; }
  }
  for (int k = 0; k < 3; ++k) {
    if (XM.w[k].state != W_ALIVE) continue;
    bool expired = static_cast<Weightwatch*>(XM.w[k].obj)->expired;
    if (expired != (XM.w[k].fired > 0)) { xviol(site, "flag_invariant:expired_flag_vs_action", "none", at); return; }
    if (seen[k] != (expired ? 0 : 1)) { xviol(site, "list_invariant:alive_unexpired_watcher_not_exactly_once_on_list", "none", at); return; }
  }
  bool nonempty = a.n > 0;
  if ((PPL::Weightwatch_Traits::check_function != 0) != nonempty)
    xviol(site, "check_function_nonnull_iff_watcher_pending", "none", !g_x_verbose ? at : at + std::string(": check_function is ") + (PPL::Weightwatch_Traits::check_function ? "set" : "null") + " with " + std::to_string(a.n) + " pending watcher(s)");
  if (!Weightwatch::init.pending.OK())
    xviol(equal_thr ? "Pending_List::OK" : site, "list_invariant:Pending_List_OK_false", equal_thr ? "equal_thresholds_on_list" : "none", !g_x_verbose ? at : at + ": Pending_List::OK() returned false on a sorted, well-linked list");
}

static std::string xhist_str(const Script& h) { return script_str(h); }

static void x_run(const Script& h) {
  hard_reset();
  memset(&XM, 0, sizeof XM);
  g_xviols.clear(); g_x_nviol = 0;
  PPL::Weightwatch_Traits::weight = g_x_init;
  for (size_t k = 0; k < h.size(); ++k) {
    const Op& o = h[k];
    std::string at; if (g_x_verbose) at = "after op " + std::to_string(k) + " (" + o.k + std::to_string(o.a) + ")";
    XM.nobs = 0; XM.bad_fire = 0;
    const char* site = "Threshold_Watcher";
    if (o.k == 'c') {
      site = "Threshold_Watcher::Threshold_Watcher";
      int i = XM.created;
      unsigned long long delta = X_DELTAS[o.a];
      bool threw = false; void* obj = 0;
      XM.w[i].state = W_CTOR;
      ++g_in_api;
      try { obj = g_flag_ctor ? c19::tw_new_flag(delta, g_holder, g_flags[i]) : c19::tw_new_fn(delta, XFIRE[i]); }
      catch (const std::invalid_argument&) { threw = true; }
      --g_in_api;
      bool want_throw = (delta == 0);     // "threshold already reached"
      if (threw != want_throw) {
        if (!threw) xviol(site, "ctor_accepts_threshold_already_reached", "delta_zero", !g_x_verbose ? at : at + ": constructor with delta 0 (threshold == current weight) did not throw std::invalid_argument");
        else xviol(site, "ctor_rejects_unreached_threshold", "none", at + ": constructor threw although the threshold is ahead of the current weight");
      }
      if (threw) XM.w[i].state = W_NONE;
      else if (want_throw) {      // tolerated: remove it again at once so that the rest of the history stays within the specification
        XM.w[i].state = W_ALIVE; XM.w[i].obj = obj; XM.w[i].delta = 0; XM.w[i].acc = 0; XM.w[i].fired = 0;
        ++g_in_api; c19::tw_delete(obj); --g_in_api;
        XM.w[i].state = W_NONE; XM.w[i].obj = 0;
      } else { XM.w[i].state = W_ALIVE; XM.w[i].obj = obj; XM.w[i].delta = delta; XM.w[i].acc = 0; XM.w[i].fired = 0; ++XM.created; }
    } else if (o.k == 'd') {
      site = "Threshold_Watcher::~Threshold_Watcher";
      XM.w[o.a].state = W_DTOR;
      ++g_in_api; c19::tw_delete(XM.w[o.a].obj); --g_in_api;
      XM.w[o.a].state = W_DEAD;
    } else if (o.k == 'w') {
      PPL::Weightwatch_Traits::weight += (unsigned long long)o.a;
      for (int i = 0; i < 3; ++i) if (XM.w[i].state == W_ALIVE) XM.w[i].acc += o.a;
    } else {
      site = "Threshold_Watcher::check";
      // expected firings under the specification (>=) and under the off-by-one reading (>)
      int expS = 0, expA = 0, unfired_before[3];
      for (int i = 0; i < 3; ++i) {
        unfired_before[i] = (XM.w[i].state == W_ALIVE && !XM.w[i].fired);
        if (unfired_before[i] && XM.w[i].acc >= (long long)XM.w[i].delta) expS |= 1 << i;
        if (unfired_before[i] && XM.w[i].acc > (long long)XM.w[i].delta) expA |= 1 << i;
      }
      XM.in_check = 1;
      ++g_in_api; c19::tw_maybe_abandon(); --g_in_api;
      XM.in_check = 0;
      int got = 0; bool ordered = true; long long prev = 0;
      for (int j = 0; j < XM.nobs; ++j) {
        int i = XM.obs[j]; got |= 1 << i;
        long long rem = (long long)XM.w[i].delta - XM.w[i].acc;
        if (j && rem < prev) ordered = false;
        prev = rem;
      }
      count(C_X_CHECKS);
      if (got != expS) {
        std::string d; if (g_x_verbose) { d = at + ": watchers fired {";
        for (int i = 0; i < 3; ++i) if (got >> i & 1) d += std::to_string(i) + " ";
        d += "} expected {";
        for (int i = 0; i < 3; ++i) if (expS >> i & 1) d += std::to_string(i) + " ";
        d += "} (accumulated/delta:";
        for (int i = 0; i < 3; ++i) if (unfired_before[i]) d += " w" + std::to_string(i) + "=" + std::to_string(XM.w[i].acc) + "/" + std::to_string(XM.w[i].delta);
        d += ")"; }
        bool missing_only = (got & ~expS) == 0;
        xviol(site, missing_only ? "not_fired_at_first_check_with_weight_ge_threshold" : "fired_below_threshold",
              got == expA ? "weight_equals_threshold_at_check" : "none", d);
      }
      if (!ordered) xviol(site, "fired_out_of_threshold_order", "none", at);
    }
    if (XM.bad_fire & 1) xviol(site, "fired_outside_check", "none", at);
    if (XM.bad_fire & 2) xviol(site, "fired_after_destruction", "none", at);
    if (XM.bad_fire & 4) xviol(site, "fired_twice", "none", at);
    if (XM.bad_fire & 8) xviol(site, "fired_before_creation", "none", at);
    if (g_viol.set) xviol(g_viol.site.c_str(), g_viol.clause, "none", at + ": " + g_viol.detail);
    x_structural(site, at);
  }
  { Hasher hs; hs.word(g_flag_ctor); hs.word(g_x_init); hs.bytes(&XM, sizeof XM); hs.word(PPL::Weightwatch_Traits::weight);
    hs.word(arena_used); hs.bytes(ARENA, arena_used); hs.bytes(&Weightwatch::init, sizeof Weightwatch::init); g_x_endstate = hs.done().a; }
  // epilogue
  for (int i = 0; i < 3; ++i) if (XM.w[i].state == W_ALIVE) {
    XM.nobs = 0; XM.bad_fire = 0;
    ++g_in_api; c19::tw_delete(XM.w[i].obj); --g_in_api;
    XM.w[i].state = W_DEAD;
    if (XM.bad_fire) xviol("Threshold_Watcher::~Threshold_Watcher", "fired_outside_check", "none", "epilogue");
    x_structural("Threshold_Watcher::~Threshold_Watcher", "epilogue destroy " + std::to_string(i));
  }
  if (PPL::Weightwatch_Traits::check_function != 0) xviol("Threshold_Watcher::~Threshold_Watcher", "end_state:check_function_left_set", "none", "check_function is non-null after every watcher was destroyed");
  {
    ListWalk f = walk((DLO*)&Weightwatch::init.pending.free_list);
    if (f.ok && arena_live != f.n) xviol("Threshold_Watcher::~Threshold_Watcher", "end_state:heap_blocks_leaked", "none", std::to_string(arena_live - f.n) + " block(s) leaked");
  }
  if (g_viol.set) xviol(g_viol.site.c_str(), g_viol.clause, "none", g_viol.detail);
}

// shared lock-free set of 64-bit state hashes (distinct-state count across workers)
static volatile uint64_t* XSET = 0;
static const size_t XSET_SZ = 1u << 24;
static bool xset_insert(uint64_t h) {
  if (h == 0) h = 1;
  size_t i = (size_t)(h * 0x9E3779B97F4A7C15ULL >> 40) & (XSET_SZ - 1);
  for (size_t n = 0; n < XSET_SZ; ++n, i = (i + 1) & (XSET_SZ - 1)) {
    uint64_t c = XSET[i];
    if (c == h) return false;
    if (c == 0) { uint64_t o = __sync_val_compare_and_swap(&XSET[i], 0ULL, h); if (o == 0) return true; if (o == h) return false; }
  }
  return false;
}

static std::string x_input_json(const Script& h) {
  return J().str("engine", "X").str("ctor", g_flag_ctor ? "flag" : "fn").str("initial_weight", std::to_string(g_x_init)).str("history", xhist_str(h)).done();
}

static void x_finish(const Script& h) {
  count(C_X_HIST);
  // abstract state reached: weight-relative model + list shape
  if (xset_insert(g_x_endstate)) count(C_X_STATES);
  if (g_xviols.empty()) return;
  count(C_VIOL_SCHEDULES);
  std::vector<int> admitted;
  for (size_t i = 0; i < g_xviols.size(); ++i) {
    const XViolRec& v = g_xviols[i];
    std::string key = v.site + "|" + v.clause + "|" + v.trigger;
    if (!violcap().admit(key)) continue;
    size_t b = std::hash<std::string>()(key) % 64;
    if (__sync_fetch_and_add(&BOARD->viol_emitted[b], 1) >= 6) continue;
    admitted.push_back((int)i);
  }
  if (admitted.empty()) return;
  std::vector<XViolRec> first = g_xviols;
  g_x_verbose = true; x_run(h); g_x_verbose = false;      // replay: must reproduce the same findings
  count(C_REPLAY_CHECKS);
  bool same = first.size() == g_xviols.size();
  for (size_t i = 0; same && i < first.size(); ++i) same = first[i].clause == g_xviols[i].clause && first[i].trigger == g_xviols[i].trigger;
  if (!same) { sink().line(J().str("t", "error").str("msg", "engine X: replay of a failing history was not deterministic: " + xhist_str(h)).done()); return; }
  for (size_t a = 0; a < admitted.size(); ++a) {
    const XViolRec& v = g_xviols[admitted[a]];
    report_violation(v.site, v.clause, v.trigger, x_input_json(h), v.detail, "oracle: sorted list of (threshold, alive, accumulated weight)", "");
  }
}

static void x_dfs(Script& h, int created, int alive, int maxlen, bool used0 = false) {
  // histories of length exactly maxlen are executed (the caller iterates maxlen = 1..depth: shortest first)
  if ((int)h.size() == maxlen) { x_run(h); x_finish(h); return; }
  if ((h.size() & 1) && ARGS.expired()) { count(C_DEADLINE_CUT); return; }
  if (created < 3) for (int d = used0 ? 1 : 0; d < 4; ++d) {
    Op o = { 'c', d }; h.push_back(o);
    // delta 0 never yields a watcher (it must throw); at most one such attempt per history
    if (d == 0) x_dfs(h, created, alive, maxlen, true); else x_dfs(h, created + 1, alive | (1 << created), maxlen, used0);
    h.pop_back();
  }
  for (int i = 0; i < 3; ++i) if (alive >> i & 1) { Op o = { 'd', i }; h.push_back(o); x_dfs(h, created, alive & ~(1 << i), maxlen, used0); h.pop_back(); }
  for (int w = 0; w < 4; ++w) { Op o = { 'w', w }; h.push_back(o); x_dfs(h, created, alive, maxlen, used0); h.pop_back(); }
  { Op o = { 'k', 0 }; h.push_back(o); x_dfs(h, created, alive, maxlen, used0); h.pop_back(); }
}

// work items of engine X: (ctor kind, initial weight, first two operations)
struct XItem { int flag_ctor; int init; Script prefix; int created, alive; bool used0; int minlen; };
static std::vector<XItem> XITEMS;
static int g_x_depth = 7;
static void x_build_items() {
  // one item per (constructor kind, initial weight, first two operations); the item whose second operation
  // is the first alternative also executes the one-operation history
  for (int fc = 0; fc < 2; ++fc) for (int in = 0; in < 3; ++in) {
    struct Alt { Op o; };
    for (int a = 0; a < 9; ++a) {
      Op o1; if (a < 4) { o1.k = 'c'; o1.a = a; } else if (a < 8) { o1.k = 'w'; o1.a = a - 4; } else { o1.k = 'k'; o1.a = 0; }
      int created = (o1.k == 'c' && o1.a) ? 1 : 0; int alive = created; bool used0 = (o1.k == 'c' && o1.a == 0);
      bool first = true;
      for (int b = 0; b < 10; ++b) {
        Op o2; int c2 = created, a2 = alive; bool u2 = used0;
        if (b < 4) { if (b == 0 && used0) continue; o2.k = 'c'; o2.a = b; if (b) { c2 = created + 1; a2 = alive | (1 << created); } else u2 = true; }
        else if (b < 8) { o2.k = 'w'; o2.a = b - 4; }
        else if (b == 8) { o2.k = 'k'; o2.a = 0; }
        else { if (!alive) continue; o2.k = 'd'; o2.a = 0; a2 = 0; }
        XItem it; it.flag_ctor = fc; it.init = in; it.prefix.push_back(o1); it.prefix.push_back(o2);
        it.created = c2; it.alive = a2; it.used0 = u2; it.minlen = first ? 1 : 2; first = false;
        XITEMS.push_back(it);
      }
    }
  }
}
static void x_item(const XItem& it) {
  g_flag_ctor = it.flag_ctor; g_x_init = X_INITS[it.init];
  if (it.minlen == 1) { Script h1(it.prefix.begin(), it.prefix.begin() + 1); x_run(h1); x_finish(h1); }
  for (int len = 2; len <= g_x_depth; ++len) { Script h = it.prefix; x_dfs(h, it.created, it.alive, len, it.used0); }
}

// ======================================================================================
// fork pool with exact crash / hang attribution
// ======================================================================================
static std::vector<Script> SCRIPTS;
static long long n_items() { return g_engine_x ? (long long)XITEMS.size() : (long long)SCRIPTS.size(); }

static void worker_main(int w, long long start_item, Cursor cur) {
  g_worker = w;
  signal(SIGALRM, SIG_DFL);
  long long it = start_item;
  for (;;) {
    if (it < 0) { it = __sync_fetch_and_add(&BOARD->next_script, 1); cur.lvl = -1; }
    if (it >= n_items()) break;
    if (ARGS.expired()) { count(C_DEADLINE_CUT); it = -1; continue; }
    alarm(g_maxdev >= 2 ? 1800 : 300);        // backstop against a hang without scheduling points
    if (g_engine_x) { set_slot(it, 0, -1, 0, -1, 0); x_item(XITEMS[it]); }
    else explore_script(it, SCRIPTS[it], cur);
    count(C_SCRIPTS_DONE);
    it = -1;
  }
  alarm(0);
  fflush(stdout); fflush(stderr);
  _exit(0);
}

static std::string status_name(int st) {
  if (WIFSIGNALED(st)) return std::string("crash:") + signame(WTERMSIG(st));
  if (WIFEXITED(st) && WEXITSTATUS(st) == 79) return "hang:scheduling_point_limit";
  if (WIFEXITED(st) && WEXITSTATUS(st) == 97) return "crash:arena_exhausted";
  return "crash:exit_" + std::to_string(WIFEXITED(st) ? WEXITSTATUS(st) : -1);
}

static void run_pool() {
  int W = std::min(ARGS.jobs, 60);
  struct WS { pid_t pid; };
  std::vector<WS> ws(W);
  fflush(stdout); fflush(stderr);
  auto spawn = [&](int w, long long item, Cursor c) {
    pid_t p = fork();
    if (p < 0) { perror("fork"); exit(3); }
    if (p == 0) worker_main(w, item, c);
    ws[w].pid = p;
  };
  Cursor none; none.lvl = -1; none.p1 = none.d1 = none.p2 = none.d2 = 0;
  int live = 0;
  for (int w = 0; w < W; ++w) { BOARD->slot[w].script = -1; spawn(w, -1, none); ++live; }
  while (live > 0) {
    int st; pid_t p = wait(&st);
    if (p < 0) break;
    int w = -1;
    for (int i = 0; i < W; ++i) if (ws[i].pid == p) w = i;
    if (w < 0) continue;
    --live;
    if (WIFEXITED(st) && WEXITSTATUS(st) == 0) continue;
    // a worker died: attribute to the schedule it had started, re-run that schedule alone
    Slot sl; memcpy(&sl, (const void*)&BOARD->slot[w], sizeof sl);
    std::string how = status_name(st);
    if (sl.script < 0 || sl.script >= n_items()) { sink().line(J().str("t", "error").str("msg", "worker died outside any schedule: " + how).done()); continue; }
    if (g_engine_x) {
      sink().line(J().str("t", "error").str("msg", "engine X worker died (" + how + ") in item " + std::to_string(sl.script)).done());
      report_violation("Threshold_Watcher", how, "none", J().str("engine", "X").num("item", sl.script).done(), how, "normal return", "");
      continue;
    }
    const Script& s = SCRIPTS[sl.script];
    Jump j[2]; int n = (int)sl.lvl;
    if (n >= 1) { j[0].p = sl.p1; j[0].d = DELTAS[sl.d1]; }
    if (n >= 2) { j[1].p = sl.p2; j[1].d = DELTAS[sl.d2]; }
    fflush(stdout); fflush(stderr);
    pid_t c = fork();
    if (c == 0) { signal(SIGALRM, SIG_DFL); alarm(30); g_worker = w; g_want_boundary = false; g_rec = false; run_schedule(s, j, n); _exit(g_viol.set ? 0 : 0); }
    int st2 = 0; waitpid(c, &st2, 0);
    std::string how2 = status_name(st2);
    bool confirmed = !(WIFEXITED(st2) && WEXITSTATUS(st2) == 0) && how2 == how;
    if (confirmed) {
      count(n == 0 ? C_SCHED0 : n == 1 ? C_SCHED1 : C_SCHED2); count(C_VIOL_SCHEDULES);
      int fl = BOARD->slot[w].flags;
      report_violation("Watchdog", how, trigger_of(fl, how), input_json(s, j, n), how, "normal return",
                       "the schedule was re-run alone in a fresh process and ended the same way");
    } else {
      sink().line(J().str("t", "error").str("msg", "worker died (" + how + ") but the schedule re-run alone ended with " + how2 + ": " + script_str(s) + " " + sched_json(j, n)).done());
    }
    Cursor cur; cur.lvl = sl.lvl; cur.p1 = sl.p1; cur.d1 = sl.d1; cur.p2 = sl.p2; cur.d2 = sl.d2;
    if (cur.lvl == 0) { cur.lvl = 0; }
    spawn(w, sl.script, cur); ++live;
  }
}

// ======================================================================================
// engine T: the Time class algebra against integer microsecond arithmetic (exhaustive over a grid)
// ======================================================================================
static const long T_SECS[] = { 0, 1, 2, 3, 59 };
static const long T_USECS[] = { 0, 1, 10000, 250000, 499999, 500000, 600000, 999998, 999999 };
static long long t_us(const WTime& t) { return (long long)t.seconds() * 1000000 + t.microseconds(); }
static long long g_t_evals = 0, g_t_bad = 0;
static void t_fail(const char* op, long xs, long xu, long ys, long yu, const std::string& got, const std::string& want) {
  ++g_t_bad;
  std::string site = (strncmp(op, "Watchdog_Traits", 15) == 0 ? std::string("") : std::string("Time::")) + op;
  if (!violcap().admit(site)) return;
  report_violation(site, std::string("time_algebra:") + op, "none",
                   J().str("engine", "T").str("op", op).raw("x", "[" + std::to_string(xs) + "," + std::to_string(xu) + "]").raw("y", "[" + std::to_string(ys) + "," + std::to_string(yu) + "]").done(),
                   got, want, "x and y are (seconds, microseconds); oracle: integer microsecond arithmetic");
}
static std::string tstr(const WTime& t) { return "(" + std::to_string(t.seconds()) + "s," + std::to_string(t.microseconds()) + "us)" + (t.microseconds() >= 0 && t.microseconds() < 1000000 ? "" : " NOT NORMALISED"); }
static std::string bstr(bool b) { return b ? "true" : "false"; }
static void t_pair(long xs, long xu, long ys, long yu) {
  const WTime x(xs, xu), y(ys, yu);
  long long a = xs * 1000000LL + xu, b = ys * 1000000LL + yu;
#define TCMP(name, expr, want) do { ++g_t_evals; bool g_ = (expr); bool w_ = (want); if (g_ != w_) t_fail(name, xs, xu, ys, yu, bstr(g_), bstr(w_)); } while (0)
  TCMP("operator==", x == y, a == b); TCMP("operator!=", x != y, a != b);
  TCMP("operator<", x < y, a < b);    TCMP("operator<=", x <= y, a <= b);
  TCMP("operator>", x > y, a > b);    TCMP("operator>=", x >= y, a >= b);
  TCMP("Watchdog_Traits::less_than", PPL::Watchdog_Traits::less_than(x, y), a < b);
#undef TCMP
#define TVAL(name, val, want) do { ++g_t_evals; WTime v_ = (val); long long w_ = (want); if (t_us(v_) != w_ || v_.microseconds() < 0 || v_.microseconds() >= 1000000 || v_.seconds() < 0) t_fail(name, xs, xu, ys, yu, tstr(v_), std::to_string(w_) + "us"); } while (0)
  TVAL("operator+", x + y, a + b);
  TVAL("operator-", x - y, a >= b ? a - b : 0);
  { WTime z(x); z += y; TVAL("operator+=", z, a + b); }
  { WTime z(x); z -= y; TVAL("operator-=", z, a >= b ? a - b : 0); }
#undef TVAL
}
static int time_algebra_check(double t0) {
  int ns = sizeof T_SECS / sizeof *T_SECS, nu = sizeof T_USECS / sizeof *T_USECS;
  for (int i = 0; i < ns; ++i) for (int j = 0; j < nu; ++j) for (int k = 0; k < ns; ++k) for (int l = 0; l < nu; ++l)
    t_pair(T_SECS[i], T_USECS[j], T_SECS[k], T_USECS[l]);
  // constructors / normalisation
  for (long cs = 0; cs <= 1000; ++cs) {
    ++g_t_evals; WTime t(cs);
    if (t_us(t) != cs * 10000 || t.microseconds() >= 1000000 || !t.OK()) t_fail("Time(centisecs)", cs, 0, 0, 0, tstr(t), std::to_string(cs * 10000) + "us");
  }
  static const long MS[] = { 0, 1, 999999, 1000000, 1000001, 1999999, 2500000, 59999999 };
  for (long sec = 0; sec <= 3; ++sec) for (size_t m = 0; m < sizeof MS / sizeof *MS; ++m) {
    ++g_t_evals; WTime t(sec, MS[m]);
    if (t_us(t) != sec * 1000000 + MS[m] || t.microseconds() >= 1000000 || !t.OK()) t_fail("Time(s,us)", sec, MS[m], 0, 0, tstr(t), std::to_string(sec * 1000000 + MS[m]) + "us");
  }
  { ++g_t_evals; WTime z; if (t_us(z) != 0) t_fail("Time()", 0, 0, 0, 0, tstr(z), "0us"); }
  std::vector<std::string> samples;
  samples.push_back(jstr("x=(1s,200000us) y=(0s,600000us): ==,!=,<,<=,>,>=,less_than,+,-,+=,-= against 1200000 and 600000"));
  samples.push_back(jstr("Time(120) == (1s,200000us); Time(0, 2500000) == (2s,500000us)"));
  J extra; extra.num("time_values", ns * nu).num("ordered_pairs", (long long)ns * nu * ns * nu).num("evaluations", g_t_evals).num("mismatches", g_t_bad)
    .str("grid", "seconds in {0,1,2,3,59} x microseconds in {0,1,10000,250000,499999,500000,600000,999998,999999}; Time(cs) for cs in 0..1000; Time(s,us) with us up to 59999999");
  J st; st.str("t", "stats").num("states", ns * nu).num("transitions", g_t_evals).num("traces_validated_against_impl", g_t_evals).boolean("exhaustive", true)
    .str("bound", "engine T: Time comparison / addition / saturating subtraction / constructors over every ordered pair of a 45-value (seconds, microseconds) grid vs integer microsecond arithmetic")
    .arr("samples", samples).raw("extra", extra.done()).dbl("wall_s", now_s() - t0);
  sink().line(st.done());
  return 0;
}

// ======================================================================================
// replay of one recorded case
// ======================================================================================
static std::string json_field(const std::string& txt, const std::string& key) {
  size_t p = txt.find("\"" + key + "\"");
  if (p == std::string::npos) return "";
  p = txt.find(':', p); if (p == std::string::npos) return "";
  ++p; while (p < txt.size() && (txt[p] == ' ' || txt[p] == '\n')) ++p;
  if (txt[p] == '"') { size_t e = txt.find('"', p + 1); return txt.substr(p + 1, e - p - 1); }
  if (txt[p] == '[') { int depth = 0; size_t e = p; for (; e < txt.size(); ++e) { if (txt[e] == '[') ++depth; if (txt[e] == ']' && --depth == 0) break; } return txt.substr(p, e - p + 1); }
  size_t e = txt.find_first_of(",}\n", p); return txt.substr(p, e - p);
}
static int do_replay(const std::string& path) {
  std::ifstream in(path.c_str()); std::stringstream ss; ss << in.rdbuf(); std::string txt = ss.str();
  size_t ip = txt.find("\"input\""); if (ip != std::string::npos) txt = txt.substr(ip);
  std::string engine = json_field(txt, "engine");
  g_flag_ctor = json_field(txt, "ctor") == "flag";
  if (engine == "T") {
    long xs = 0, xu = 0, ys = 0, yu = 0;
    sscanf(json_field(txt, "x").c_str(), "[%ld,%ld]", &xs, &xu); sscanf(json_field(txt, "y").c_str(), "[%ld,%ld]", &ys, &yu);
    const WTime x(xs, xu), y(ys, yu);
    long long a = xs * 1000000LL + xu, b = ys * 1000000LL + yu;
    printf("x=(%lds,%ldus) y=(%lds,%ldus)\n  observed: == %d  < %d  <= %d  > %d  >= %d  x+y %lldus  x-y %lldus\n  expected: == %d  < %d  <= %d  > %d  >= %d  x+y %lldus  x-y %lldus\n",
           xs, xu, ys, yu, x == y, x < y, x <= y, x > y, x >= y, t_us(x + y), t_us(x - y), a == b, a < b, a <= b, a > b, a >= b, a + b, a >= b ? a - b : 0LL);
    return 0;
  }
  if (engine == "X") {
    g_engine_x = true;
    g_x_init = strtoull(json_field(txt, "initial_weight").c_str(), 0, 10);
    Script h = parse_script(json_field(txt, "history"));
    g_x_verbose = true;
    for (int rep = 0; rep < 2; ++rep) {
      x_run(h);
      printf("run %d: history [%s] initial weight %llu ctor=%s -> %zu violation(s)\n", rep + 1, xhist_str(h).c_str(), g_x_init, g_flag_ctor ? "flag" : "fn", g_xviols.size());
      for (size_t i = 0; i < g_xviols.size(); ++i) printf("  observed: %s %s [%s] %s\n  expected: oracle (sorted list of (threshold, alive))\n", g_xviols[i].site.c_str(), g_xviols[i].clause.c_str(), g_xviols[i].trigger.c_str(), g_xviols[i].detail.c_str());
    }
    return 0;
  }
  Script s = parse_script(json_field(txt, "script"));
  g_clock0 = atoll(json_field(txt, "clock0_us").c_str());
  std::string sch = json_field(txt, "schedule");
  Jump j[4]; int n = 0;
  for (size_t p = 1; p < sch.size() && n < 4; ) {
    size_t b = sch.find('[', p); if (b == std::string::npos) break;
    long pt = 0; double d = 0; if (sscanf(sch.c_str() + b, "[%ld,%lf]", &pt, &d) == 2) { j[n].p = pt; j[n].d = (usec_t)(d * CS + 0.5); ++n; }
    p = sch.find(']', b); if (p == std::string::npos) break; ++p;
  }
  std::string logs[2];
  for (int rep = 0; rep < 2; ++rep) {
    RunResult r = run_schedule(s, j, n);
    logs[rep] = log_text();
    printf("run %d: script [%s] schedule %s ctor=%s: %ld scheduling points\n  events: %s\n", rep + 1, script_str(s).c_str(), sched_json(j, n).c_str(), g_flag_ctor ? "flag" : "fn", r.points, logs[rep].c_str());
    if (g_viol.set) printf("  observed: %s %s [%s]: %s\n  expected: property C19 monitors hold\n", g_viol.site.c_str(), g_viol.clause.c_str(), trigger_of(g_viol.flags, g_viol.clause).c_str(), g_viol.detail.c_str());
    else printf("  no violation\n");
  }
  printf("replay deterministic: %s\n", logs[0] == logs[1] ? "yes" : "NO");
  return logs[0] == logs[1] ? 0 : 3;
}

// ======================================================================================
int main(int argc, char** argv) {
  ARGS = parse_args(argc, argv);
  sink().open(ARGS.out);
  ARENA = (char*)mmap(0, ARENA_SZ, PROT_READ | PROT_WRITE, MAP_PRIVATE | MAP_ANONYMOUS, -1, 0);
  dead_vtable[0] = 0; dead_vtable[1] = 0; dead_vtable[2] = (void*)&dead_act; dead_vtable[3] = (void*)&dead_dtor; dead_vtable[4] = (void*)&dead_dtor;
  BOARD = (Board*)mmap(0, sizeof(Board), PROT_READ | PROT_WRITE, MAP_SHARED | MAP_ANONYMOUS, -1, 0);
  memset((void*)BOARD, 0, sizeof(Board));
  shared();
  PPL::Watchdog::initialize();                 // registers PPL_handle_timeout through our sigaction()
  if (!g_handler) { sink().line(J().str("t", "error").str("msg", "Watchdog::initialize() did not register a SIGPROF handler").done()); return 0; }
  snapshot_statics();
  if (!ARGS.replay.empty()) return do_replay(ARGS.replay);

  std::string engine = ARGS.opt("--engine", "S");
  g_engine_x = engine == "X";
  g_flag_ctor = ARGS.opt("--ctor", "fn") == "flag";
  double t0 = now_s();
  if (g_engine_x) {
    g_x_depth = atoi(ARGS.opt("--depth", "7").c_str());
    XSET = (volatile uint64_t*)mmap(0, XSET_SZ * 8, PROT_READ | PROT_WRITE, MAP_SHARED | MAP_ANONYMOUS, -1, 0);
    x_build_items();
    run_pool();
    bool complete = counter(C_DEADLINE_CUT) == 0;
    std::vector<std::string> samples;
    samples.push_back(jstr("initial weight 2^63-2: c2 w1 c1 w1 k d0 k  (create delta 2; add 1; create delta 1; add 1; check; destroy 0; check)"));
    samples.push_back(jstr("initial weight 2^64-3: c5 w3 w3 k c1 k d1"));
    J extra; extra.num("histories", counter(C_X_HIST)).num("checks_compared_with_oracle", counter(C_X_CHECKS)).num("distinct_end_states", counter(C_X_STATES))
      .num("histories_with_a_violation", counter(C_VIOL_SCHEDULES)).num("work_items", (long long)XITEMS.size()).num("items_cut_by_deadline", counter(C_DEADLINE_CUT))
      .str("alphabet", "create delta in {1,2,5} (<=3 watchers) plus at most one attempt with delta 0 per history (must throw), destroy i, add weight in {0,1,2,3}, maybe_abandon(); initial weight in {0, 2^63-2, 2^64-3}; both constructor kinds");
    J st; st.str("t", "stats").num("states", std::max<long long>(1, counter(C_X_STATES))).num("transitions", std::max<long long>(1, counter(C_X_HIST)))
      .num("traces_validated_against_impl", counter(C_X_HIST)).boolean("exhaustive", complete)
      .str("bound", "engine X: every Threshold_Watcher<Weightwatch_Traits> history of depth <= " + std::to_string(g_x_depth) + " over <= 3 watchers")
      .arr("samples", samples).raw("extra", extra.done()).dbl("wall_s", now_s() - t0);
    sink().line(st.done());
    return 0;
  }
  if (engine == "T") return time_algebra_check(t0);
  int maxlen = atoi(ARGS.opt("--len", "6").c_str());
  g_maxdev = atoi(ARGS.opt("--dev", ARGS.thorough() ? "2" : "1").c_str());
  if (ARGS.has("--deltas")) { long a, b, c; if (sscanf(ARGS.opt("--deltas").c_str(), "%ld,%ld,%ld", &a, &b, &c) == 3) { DELTAS[0] = a; DELTAS[1] = b; DELTAS[2] = c; } }
  bool custom_menu = false;
  if (ARGS.has("--delays")) { int a, b, c; if (sscanf(ARGS.opt("--delays").c_str(), "%d,%d,%d", &a, &b, &c) == 3) { DELAYS[0] = a; DELAYS[1] = b; DELAYS[2] = c; custom_menu = true; } }
  if (ARGS.has("--advances")) { int a, b; if (sscanf(ARGS.opt("--advances").c_str(), "%d,%d", &a, &b) == 2) { ADVS[0] = a; ADVS[1] = b; custom_menu = true; } }
  if (ARGS.has("--clock0")) g_clock0 = atoll(ARGS.opt("--clock0").c_str());
  { Script cur; enum_scripts(SCRIPTS, cur, 0, 0, maxlen); }
  // shortest scripts first: the first witnesses reported are the smallest
  std::stable_sort(SCRIPTS.begin(), SCRIPTS.end(), [](const Script& a, const Script& b) { return a.size() < b.size(); });
  // the throwing constructor path (not part of the script grammar): must throw, change nothing, leak nothing
  if (!custom_menu) { const char* extra[] = { "C0", "C2 C0 A1", "C1 C2 C0 D0", "C3 A1 C0 A2 C0" };
    for (int i = 0; i < 4; ++i) SCRIPTS.insert(SCRIPTS.begin() + i, parse_script(extra[i])); }
  if (ARGS.has("--script")) { SCRIPTS.clear(); SCRIPTS.push_back(parse_script(ARGS.opt("--script"))); }
  run_pool();
  bool complete = counter(C_DEADLINE_CUT) == 0 && counter(C_SCRIPTS_DONE) == (long long)SCRIPTS.size();
  std::vector<std::string> samples;
  for (int n = 0; n < 3; ++n) if (BOARD->sample_set[n]) samples.push_back(std::string(BOARD->sample[n]));
  if (samples.empty()) samples.push_back(J().str("script", script_str(SCRIPTS[0])).str("schedule", "[]").done());
  std::vector<std::string> outs; long long distinct_out = 0;
  {
    std::vector<std::pair<long long, int> > oc;
    for (int i = 0; i < 8192; ++i) if (BOARD->outcome[i]) { ++distinct_out; oc.push_back(std::make_pair((long long)BOARD->outcome[i], i)); }
    std::sort(oc.rbegin(), oc.rend());
    for (size_t i = 0; i < oc.size() && i < 40; ++i) outs.push_back(jstr(outcome_text(oc[i].second) + " x" + std::to_string(oc[i].first)));
  }
  J extra; extra.num("scripts", (long long)SCRIPTS.size()).num("scripts_completed", counter(C_SCRIPTS_DONE))
    .num("schedules_0_deviations", counter(C_SCHED0)).num("schedules_1_deviation", counter(C_SCHED1)).num("schedules_2_deviations", counter(C_SCHED2))
    .num("scheduling_points_executed", counter(C_POINTS)).num("max_scheduling_points_in_a_script", counter(C_MAXPOINTS))
    .num("one_jump_prefixes_recorded", counter(C_REC_RUNS)).num("one_jump_prefixes_cut_by_state_hash", counter(C_PRUNED_PREFIXES))
    .num("schedules_with_a_violation", counter(C_VIOL_SCHEDULES)).num("replay_determinism_checks", counter(C_REPLAY_CHECKS))
    .num("cut_by_deadline", counter(C_DEADLINE_CUT)).num("distinct_observed_outcomes", distinct_out).arr("observed_outcomes", outs)
    .str("extra_scripts", "C0 | C2 C0 A1 | C1 C2 C0 D0 | C3 A1 C0 A2 C0 (create with 0 centiseconds must throw and leave no trace)")
    .str("constructor", g_flag_ctor ? "Watchdog(csecs, holder, flag)" : "Watchdog(csecs, void(*)())")
    .str("object_explored", "clang -O2 objects of src/Watchdog.cc, Time.cc, Handler.cc, Threshold_Watcher.cc and harness/c19_api.cc; scheduling point = before every load/store they execute inside ctor/dtor/handler");
  char menus[256], jumps[96];
  snprintf(menus, sizeof menus, "create d in {%d,%d,%d}cs, destroy, advance {%d,%d}cs; virtual clock starts at %lld us", DELAYS[0], DELAYS[1], DELAYS[2], ADVS[0], ADVS[1], (long long)g_clock0);
  snprintf(jumps, sizeof jumps, "%g,%g,%gcs", (double)DELTAS[0] / CS, (double)DELTAS[1] / CS, (double)DELTAS[2] / CS);
  std::string bound = "engine S: every well-formed script of length <= " + std::to_string(maxlen) + " over <= 3 watchdogs (" + menus + "); schedules: 0 jumps"
    + (g_maxdev >= 1 ? std::string(", every single jump (") + jumps + ") at every scheduling point" : std::string("")) + (g_maxdev >= 2 ? ", every pair of jumps (second jump pruned only where the complete continuation state was already explored)" : "");
  J st; st.str("t", "stats").num("states", std::max<long long>(1, counter(C_STATES))).num("transitions", std::max<long long>(1, counter(C_POINTS)))
    .num("traces_validated_against_impl", counter(C_SCHED0) + counter(C_SCHED1) + counter(C_SCHED2)).boolean("exhaustive", complete)
    .str("bound", bound).arr("samples", samples).raw("extra", extra.done()).dbl("wall_s", now_s() - t0);
  sink().line(st.done());
  return 0;
}

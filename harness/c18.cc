// C18 -- termination analysis: bounded exhaustive enumeration of loop relations built FROM GENERATORS,
// every termination entry point of src/termination*.{cc,hh} judged by a generator-level oracle.
//
// Relation R over (x', x) in Q^{2n}  (x' = dims 0..n-1, x = dims n..2n-1),  R = conv(V) + cone(D) + lin(L).
// f(x) = mu0 + mu.x is a ranking function of R  iff  min_{v in V} mu.(v_x - v_x') > 0,
//   mu.(d_x - d_x') >= 0 and mu.d_x >= 0 for d in D, both = 0 for l in L   (finitely many evaluations).
// Normalised (Mesnard-Serebrenik) space:  mu.(v_x - v_x') >= 1, mu0 + mu.v_x >= 0, + the homogeneous rows.
// The oracle never converts a polyhedron with PPL: all reference cells are written down from the generators
// (ref/linsys.hh decides emptiness / inclusion of cells in <= 3 unknowns; ref/dd.hh is used only to obtain the
// generators of "after /\ cylinder(before)" for before/after pairs whose `before' really cuts, and of shapes).
#include "engine/common.hh"
#include "engine/ppl_ref.hh"
#include "ref/dd.hh"
#include <unordered_map>
#include <memory>

using namespace vf;
using ref::Cell; using ref::Row; using ref::Vec; using ref::Q; using ref::Gen; using ref::Gens;
using PPL::Variable; using PPL::C_Polyhedron; using PPL::NNC_Polyhedron; using PPL::Linear_Expression;
using PPL::Generator; using PPL::Generator_System; using PPL::Coefficient;
typedef PPL::BD_Shape<mpq_class> BDS;
typedef PPL::Octagonal_Shape<mpq_class> OCT;
typedef PPL::Rational_Box BOX;

static Args ARGS;
static bool VERBOSE = false;
static bool PROFILE = false;
static bool STRICT_PR2 = false;   // --strict-pr2: demand completeness of the PR_2 entry points also when pset_before is looser than the projection
static std::map<std::string, std::pair<double, long> > PROF;
static double cpu_s() { struct timespec ts; clock_gettime(CLOCK_PROCESS_CPUTIME_ID, &ts); return ts.tv_sec + ts.tv_nsec * 1e-9; }
struct ProfT { const char* k; double t0; ProfT(const char* k_) : k(k_), t0(PROFILE ? cpu_s() : 0) {} ~ProfT() { if (PROFILE) { std::pair<double, long>& p = PROF[k]; p.first += cpu_s() - t0; p.second++; } } };
static std::string SPACE = "quick";

enum { C_REL = CNT_USER, C_TERM, C_NONTERM, C_EMPTYREL, C_SHAPE_EXACT, C_SHAPE_SOUND_ONLY, C_PAIR_CUT, C_PAIR_CUT_EMPTY,
       C_TRUE_ANSWERS, C_FALSE_ANSWERS, C_MU_CHECKED, C_SPACE_EQ, C_SPACE_SUBSET, C_GEN_EVAL, C_INPUTS, C_TERM_N1, C_TERM_N2,
       C_REL_N1, C_REL_N2, C_NONEMPTY_SPACES, C_UNDETECTED_EMPTY, C_PR2_LOOSE_INCOMPLETE, C_PAIR_TIGHT, C_PAIR_LOOSE,
       C_CP, C_CP_RGT, C_CP_REQ, C_CP_RLT, C_CP_TERM, C_CP_NONTERM, C_CP_EMPTY, C_CP_BOUNDED_FAIL_ONLY };

// ------------------------------------------------------------------ menus
struct GM { char t; std::vector<long> v; };
static std::vector<GM> PMENU[3], RMENU[3], LMENU[3];      // generators over (x', x), indexed by n
static std::vector<std::vector<GM> > BMENU[3];            // `before' pointsets over x (generator systems), indexed by n

static void build_menus() {
  // n = 1: all 16 points with coordinates in {-1,0,1,2}; 8 ray directions; 3 lines
  for (long a = -1; a <= 2; ++a) for (long b = -1; b <= 2; ++b) PMENU[1].push_back({'p', {a, b}});
  long r1[][2] = {{-1, 0}, {0, 1}, {1, 1}, {1, 0}, {0, -1}, {-1, -1}, {-1, 1}, {1, 2}};
  for (auto& d : r1) RMENU[1].push_back({'r', {d[0], d[1]}});
  long l1[][2] = {{1, 1}, {1, 0}, {0, 1}};
  for (auto& d : l1) LMENU[1].push_back({'l', {d[0], d[1]}});
  BMENU[1] = { { {'p', {1}}, {'r', {1}} },          // x >= 1
               { {'p', {0}}, {'r', {-1}} },         // x <= 0
               { {'p', {0}}, {'p', {1}} },          // 0 <= x <= 1
               { } };                               // empty
  // n = 2: (x1', x2', x1, x2)
  long p2[][4] = {
    {0, 0, 1, 0},    // x1 counts down
    {1, 0, 2, 0},
    {0, 1, 1, 1},
    {0, 0, 0, 1},    // x2 counts down
    {1, 1, 2, 2},    // both count down
    {-1, 0, 0, 0},   // leaves the non-negative region
    {0, 2, 1, 0},    // x1 down, x2 up
    {1, 0, 0, 1},    // swap
    {2, 0, 1, 0},    // x1 counts up
    {0, 0, 0, 0},    // stutter
    {1, -1, 1, 0},   // x1 unchanged, x2 down
    {0, 1, 2, -1},   // x1 down by 2, x2 up by 2
  };
  for (auto& p : p2) PMENU[2].push_back({'p', {p[0], p[1], p[2], p[3]}});
  long r2[][4] = {
    {1, 0, 1, 0},    // x1 and x1' grow together
    {0, 0, 1, 0},    // x1 unbounded above
    {-1, 0, 0, 0},   // x1' unbounded below
    {0, 1, 0, 0},    // x2' unbounded above
    {0, 1, 0, 1},
    {0, 0, 0, -1},   // x2 unbounded below
    {1, 0, 2, 0},    // the decrease grows with x1
  };
  for (auto& d : r2) RMENU[2].push_back({'r', {d[0], d[1], d[2], d[3]}});
  long l2[][4] = {{0, 1, 0, 1}, {1, 0, 1, 0}, {0, 1, 0, 0}, {1, 1, 1, 1}};
  for (auto& d : l2) LMENU[2].push_back({'l', {d[0], d[1], d[2], d[3]}});
  BMENU[2] = { { {'p', {1, 0}}, {'r', {1, 0}}, {'l', {0, 1}} },          // x1 >= 1
               { {'p', {0, 0}}, {'r', {1, 0}}, {'r', {0, 1}} },          // x1 >= 0, x2 >= 0
               { {'p', {0, 0}}, {'p', {2, 2}} },                         // segment on the diagonal
               { } };
}

struct Item { unsigned char n, np, nr; signed char l; unsigned char p[4], r[2]; unsigned char kind; unsigned short bm, am; };   // kind 1: constraint-built pair (masks into BROWS / AROWS)
static std::vector<Item> ITEMS;

static void build_items(int n, int maxp, int maxr, int maxl, int plimit, const std::function<bool(int, int, bool)>& keep = std::function<bool(int, int, bool)>()) {
  int P = std::min<int>((int)PMENU[n].size(), plimit), R = (int)RMENU[n].size(), L = (int)LMENU[n].size();
  Item e; memset(&e, 0, sizeof e); e.n = n; e.l = -1;
  ITEMS.push_back(e);                                   // the empty relation
  std::vector<std::vector<int> > psets, rsets;
  std::function<void(int, int, std::vector<int>&, int, std::vector<std::vector<int> >&)> comb =
    [&](int start, int total, std::vector<int>& cur, int maxk, std::vector<std::vector<int> >& out) {
      out.push_back(cur);
      if ((int)cur.size() == maxk) return;
      for (int i = start; i < total; ++i) { cur.push_back(i); comb(i + 1, total, cur, maxk, out); cur.pop_back(); }
    };
  std::vector<int> cur;
  comb(0, P, cur, maxp, psets);
  comb(0, R, cur, maxr, rsets);
  for (size_t pi = 0; pi < psets.size(); ++pi) {
    if (psets[pi].empty()) continue;
    for (size_t ri = 0; ri < rsets.size(); ++ri)
      for (int l = -1; l < (maxl ? L : 0); ++l) {
        if (keep && !keep((int)psets[pi].size(), (int)rsets[ri].size(), l >= 0)) continue;
        Item it; memset(&it, 0, sizeof it); it.n = n; it.np = psets[pi].size(); it.nr = rsets[ri].size(); it.l = l;
        for (size_t k = 0; k < psets[pi].size(); ++k) it.p[k] = psets[pi][k];
        for (size_t k = 0; k < rsets[ri].size(); ++k) it.r[k] = rsets[ri][k];
        ITEMS.push_back(it);
      }
  }
}

// ---- second family: before/after pairs built FROM CONSTRAINTS (guard rows over x, update rows over (x', x)), so that the numbers
// r, s of inequality rows contributed by pset_before / pset_after vary independently (r > s, r == s, r < s) and every row of the
// guard can be the one a (non-)existence argument hinges on.  The denoted relation is after /\ cylinder(before); its generators are
// obtained with the brute-force reference double description (ref/dd.hh), never with PPL.
static std::vector<CN> BROWS[3], AROWS[3];
static void build_row_menus() {
  using ref::GE; using ref::EQ;
  BROWS[1] = { CN(LE({1}, 0), GE), CN(LE({-1}, 5), GE), CN(LE({-1}, 10), GE), CN(LE({1}, -2), GE) };            // x>=0, x<=5, x<=10, x>=2
  AROWS[1] = { CN(LE({-1, 1}, -1), GE), CN(LE({1, -1}, -1), GE), CN(LE({1, -1}, 1), EQ), CN(LE({-1, 1}, 0), GE), CN(LE({-2, 1}, 0), GE) };
                                                                                                               // x'<=x-1, x'>=x+1, x'=x-1, x'<=x, 2x'<=x
  BROWS[2] = { CN(LE({1, 0}, 0), GE), CN(LE({-1, 0}, 5), GE), CN(LE({0, 1}, 0), GE), CN(LE({0, -1}, 10), GE),   // x>=0, x<=5, y>=0, y<=10
               CN(LE({0, -1}, 5), GE), CN(LE({-1, 0}, 10), GE), CN(LE({-1, -1}, 8), GE), CN(LE({1, -1}, 0), GE) }; // y<=5, x<=10, x+y<=8, x>=y
  AROWS[2] = { CN(LE({0, -1, 0, 1}, -1), GE),     // y' <= y-1
               CN(LE({-1, 0, 1, 0}, -1), GE),     // x' <= x-1
               CN(LE({1, 0, -1, 0}, -1), GE),     // x' >= x+1
               CN(LE({0, 1, 0, -1}, -1), GE),     // y' >= y+1
               CN(LE({-1, -1, 1, 1}, -1), GE),    // x'+y' <= x+y-1
               CN(LE({1, 0, -1, 0}, 0), EQ),      // x' = x
               CN(LE({0, 1, 0, -1}, 1), EQ),      // y' = y-1
               CN(LE({1, 0, -1, 0}, 1), EQ),      // x' = x-1
               CN(LE({0, -1, 0, 1}, 0), GE) };    // y' <= y
}
static void build_pair_items(int n, int maxb, int maxa) {
  int B = (int)BROWS[n].size(), A = (int)AROWS[n].size();
  for (unsigned bm = 0; bm < (1u << B); ++bm) {
    if (__builtin_popcount(bm) > maxb) continue;
    for (unsigned am = 1; am < (1u << A); ++am) {
      if (__builtin_popcount(am) > maxa) continue;
      Item it; memset(&it, 0, sizeof it); it.n = n; it.l = -1; it.kind = 1; it.bm = bm; it.am = am;
      ITEMS.push_back(it);
    }
  }
}
static std::string rows_text(const std::vector<CN>& menu, unsigned mask, bool after, int n) {
  std::string s;
  for (size_t i = 0; i < menu.size(); ++i) if (mask & (1u << i)) {
    std::string t = menu[i].str();
    // LE::str names dimensions A, B, ...: rename to x', y', x, y
    std::string o;
    for (size_t k = 0; k < t.size(); ++k) {
      char ch = t[k];
      if (ch >= 'A' && ch <= 'D') { int d = ch - 'A'; const char* nm1[] = {"x"}; const char* nm2[] = {"x", "y"};
        int v = after ? (d % n) : d; o += (n == 1 ? nm1[v] : nm2[v]); if (after && d < n) o += "'"; }
      else o += ch;
    }
    if (!s.empty()) s += ", ";
    s += o;
  }
  return s.empty() ? "(universe)" : s;
}
static std::string item_text(const Item& it);

static std::vector<GM> item_gens(const Item& it) {
  std::vector<GM> g;
  for (int k = 0; k < it.np; ++k) g.push_back(PMENU[it.n][it.p[k]]);
  for (int k = 0; k < it.nr; ++k) g.push_back(RMENU[it.n][it.r[k]]);
  if (it.l >= 0) g.push_back(LMENU[it.n][it.l]);
  return g;
}

static std::string gm_text(const std::vector<GM>& g) {
  std::ostringstream s;
  if (g.empty()) return "(empty)";
  for (size_t i = 0; i < g.size(); ++i) {
    if (i) s << " ";
    s << g[i].t << "(";
    for (size_t j = 0; j < g[i].v.size(); ++j) { if (j) s << ","; s << g[i].v[j]; }
    s << ")";
  }
  return s.str();
}
static std::string gens_text(const Gens& g) {
  std::ostringstream s;
  if (g.empty()) return "(empty)";
  for (size_t i = 0; i < g.size(); ++i) { if (i) s << " "; s << g[i].t << ref::vec_str(g[i].v); }
  return s.str();
}

static Generator ppl_gen(const GM& g, int dim) {
  Linear_Expression e;
  for (size_t i = 0; i < g.v.size(); ++i) if (g.v[i] != 0) e += Coefficient(g.v[i]) * Variable(i);
  if (dim > 0) e += 0 * Variable(dim - 1);
  switch (g.t) {
    case 'p': return Generator::point(e);
    case 'c': return Generator::closure_point(e);
    case 'r': return Generator::ray(e);
    default: return Generator::line(e);
  }
}
static Generator_System ppl_gs(const std::vector<GM>& g, int dim) {
  Generator_System gs;
  for (size_t i = 0; i < g.size(); ++i) gs.insert(ppl_gen(g[i], dim));
  return gs;
}
static Gens ref_gens(const std::vector<GM>& g) {
  Gens o;
  for (size_t i = 0; i < g.size(); ++i) { Gen x; x.t = g[i].t; for (size_t j = 0; j < g[i].v.size(); ++j) x.v.push_back(Q(g[i].v[j])); o.push_back(x); }
  return o;
}
static std::string item_text(const Item& it) {
  if (it.kind == 1) return "before {" + rows_text(BROWS[it.n], it.bm, false, it.n) + "} after {" + rows_text(AROWS[it.n], it.am, true, it.n) + "}";
  return gm_text(item_gens(it));
}
static bool gm_zero(const GM& g) { for (size_t i = 0; i < g.v.size(); ++i) if (g.v[i]) return false; return true; }

// projection of a relation's generators on the x part (dims n..2n-1): the exact set of `before' states
static std::vector<GM> project_x(const std::vector<GM>& g, int n) {
  std::vector<GM> o;
  for (size_t i = 0; i < g.size(); ++i) {
    GM x; x.t = g[i].t == 'c' ? 'p' : g[i].t; x.v.assign(g[i].v.begin() + n, g[i].v.end());
    if (x.t != 'p' && gm_zero(x)) continue;
    o.push_back(x);
  }
  return o;
}

// ------------------------------------------------------------------ oracle (generators only)
struct Oracle {
  int n; bool empty; bool exists;
  std::vector<Vec> V, D, L;
  Cell ms, dec, bnd, pr;      // cells over (mu_1..mu_n, mu_0)
  std::string text;
};

static Oracle make_oracle(int n, const Gens& g) {
  ProfT pt("oracle:make");
  Oracle o; o.n = n;
  for (size_t i = 0; i < g.size(); ++i) {
    if (g[i].t == 'p' || g[i].t == 'c') o.V.push_back(g[i].v);
    else if (g[i].t == 'r') o.D.push_back(g[i].v);
    else o.L.push_back(g[i].v);
  }
  o.empty = o.V.empty();
  int k = n + 1;
  o.ms = Cell(k); o.dec = Cell(k); o.bnd = Cell(k); o.pr = Cell(k);
  o.text = gens_text(g);
  if (o.empty) { o.exists = true; return o; }
  for (int pass = 0; pass < 3; ++pass) {
    const std::vector<Vec>& S = pass == 0 ? o.V : pass == 1 ? o.D : o.L;
    for (size_t i = 0; i < S.size(); ++i) {
      Vec a(k, Q(0)), b(k, Q(0));
      for (int j = 0; j < n; ++j) { a[j] = S[i][n + j] - S[i][j]; b[j] = S[i][n + j]; }
      if (pass == 0) {
        b[n] = 1;
        o.dec.add(Row(a, Q(-1), ref::GE)); o.ms.add(Row(a, Q(-1), ref::GE)); o.pr.add(Row(a, Q(0), ref::GT));
        o.bnd.add(Row(b, Q(0), ref::GE)); o.ms.add(Row(b, Q(0), ref::GE));
      } else {
        int kind = pass == 1 ? ref::GE : ref::EQ;
        o.dec.add(Row(a, Q(0), kind)); o.ms.add(Row(a, Q(0), kind)); o.pr.add(Row(a, Q(0), kind));
        o.bnd.add(Row(b, Q(0), kind)); o.ms.add(Row(b, Q(0), kind)); o.pr.add(Row(b, Q(0), kind));
      }
    }
  }
  o.exists = !ref::is_empty(o.ms);
  return o;
}

// "" if mu (n coefficients) is a ranking function of the relation by direct evaluation, else the failing generator
static std::string generic_rf(const Oracle& o, const Vec& mu) {
  int n = o.n;
  if (o.empty) return "";
  for (size_t i = 0; i < o.V.size(); ++i) {
    Q dec = 0; for (int j = 0; j < n; ++j) dec += mu[j] * (o.V[i][n + j] - o.V[i][j]);
    if (!(dec > 0)) { std::ostringstream s; s << "no strict decrease (f(x)-f(x') = " << dec << ") on point " << ref::vec_str(o.V[i]); return s.str(); }
  }
  for (int pass = 1; pass < 3; ++pass) {
    const std::vector<Vec>& S = pass == 1 ? o.D : o.L;
    for (size_t i = 0; i < S.size(); ++i) {
      Q dec = 0, bd = 0;
      for (int j = 0; j < n; ++j) { dec += mu[j] * (S[i][n + j] - S[i][j]); bd += mu[j] * S[i][n + j]; }
      bool bad = pass == 1 ? (dec < 0 || bd < 0) : (dec != 0 || bd != 0);
      if (bad) { std::ostringstream s; s << (pass == 1 ? "ray " : "line ") << ref::vec_str(S[i]) << ": decrease slope " << dec << ", f slope " << bd; return s.str(); }
    }
  }
  return "";
}

// generator g of a returned polyhedron lies in cell W (points / closure points) or in its recession cone / lineality space
static bool gen_in_cell(const Gen& g, const Cell& W) {
  if (W.bot) return false;
  for (size_t i = 0; i < W.rows.size(); ++i) {
    const Row& r = W.rows[i];
    if (g.t == 'p') { if (!ref::sat(r, g.v)) return false; }
    else if (g.t == 'c') { Q v = ref::eval(r, g.v); if (r.k == ref::EQ ? v != 0 : v < 0) return false; }
    else { Q v = 0; for (size_t j = 0; j < g.v.size(); ++j) v += r.a[j] * g.v[j];
      if (g.t == 'l' || r.k == ref::EQ) { if (v != 0) return false; } else if (v < 0) return false; }
  }
  return true;
}

static std::unordered_map<std::string, bool> CMPMEMO;
static bool cells_equal(const Cell& a, const Cell& b) {
  std::string k = "E" + ref::cell_str(a) + "#" + ref::cell_str(b);
  auto it = CMPMEMO.find(k);
  if (it != CMPMEMO.end()) return it->second;
  bool r = ref::equal(a, b);
  CMPMEMO[k] = r; return r;
}
static bool cell_subset(const Cell& a, const Cell& b) {
  std::string k = "S" + ref::cell_str(a) + "#" + ref::cell_str(b);
  auto it = CMPMEMO.find(k);
  if (it != CMPMEMO.end()) return it->second;
  bool r = ref::subset(a, b);
  CMPMEMO[k] = r; return r;
}

// ------------------------------------------------------------------ calling the library
static const char* FN1[] = {"termination_test_MS", "termination_test_PR", "one_affine_ranking_function_MS", "one_affine_ranking_function_PR",
                            "all_affine_ranking_functions_MS", "all_affine_ranking_functions_PR", "all_affine_quasi_ranking_functions_MS"};
static const char* FN2[] = {"termination_test_MS_2", "termination_test_PR_2", "one_affine_ranking_function_MS_2", "one_affine_ranking_function_PR_2",
                            "all_affine_ranking_functions_MS_2", "all_affine_ranking_functions_PR_2", "all_affine_quasi_ranking_functions_MS_2"};
enum { NFN = 7 };

struct Res {
  bool threw; std::string exc;
  bool b;
  int mudim; Vec mu; bool mu_is_point;
  int d1, d2; Cell c1, c2; Gens g1, g2; bool ok1, ok2; std::string txt1, txt2;
  Res() : threw(false), b(false), mudim(-1), mu_is_point(true), d1(-1), d2(-1), ok1(true), ok2(true) {}
};

static void capture_mu(const Generator& mu, Res& r) {
  r.mudim = (int)mu.space_dimension();
  r.mu_is_point = mu.is_point();
  Gen g = gen_of(mu, r.mudim);
  r.mu = g.v;
}
template <typename PH>
static void capture_ph(const PH& ph, int& d, Cell& c, Gens& g, bool& ok, std::string& txt) {
  d = (int)ph.space_dimension();
  ok = ph.OK();
  c = cell_of(ph.constraints(), d);
  g = gens_of(ph.generators(), d);
  if (VERBOSE) txt = print_of(ph.minimized_constraints());
}

template <typename PS>
static void call_single(const PS& ps, int fn, Res& r) {
  ProfT pt(FN1[fn]);
  try {
    switch (fn) {
      case 0: r.b = PPL::termination_test_MS(ps); break;
      case 1: r.b = PPL::termination_test_PR(ps); break;
      case 2: { Generator mu = PPL::point(); r.b = PPL::one_affine_ranking_function_MS(ps, mu); if (r.b) capture_mu(mu, r); break; }
      case 3: { Generator mu = PPL::point(); r.b = PPL::one_affine_ranking_function_PR(ps, mu); if (r.b) capture_mu(mu, r); break; }
      case 4: { C_Polyhedron m; PPL::all_affine_ranking_functions_MS(ps, m); capture_ph(m, r.d1, r.c1, r.g1, r.ok1, r.txt1); break; }
      case 5: { NNC_Polyhedron m; PPL::all_affine_ranking_functions_PR(ps, m); capture_ph(m, r.d1, r.c1, r.g1, r.ok1, r.txt1); break; }
      case 6: { C_Polyhedron m1, m2; PPL::all_affine_quasi_ranking_functions_MS(ps, m1, m2);
                capture_ph(m1, r.d1, r.c1, r.g1, r.ok1, r.txt1); capture_ph(m2, r.d2, r.c2, r.g2, r.ok2, r.txt2); break; }
    }
  } catch (const std::exception& e) { r.threw = true; r.exc = e.what(); }
}
template <typename PS>
static void call_pair(const PS& pb, const PS& pa, int fn, Res& r) {
  ProfT pt(FN2[fn]);
  try {
    switch (fn) {
      case 0: r.b = PPL::termination_test_MS_2(pb, pa); break;
      case 1: r.b = PPL::termination_test_PR_2(pb, pa); break;
      case 2: { Generator mu = PPL::point(); r.b = PPL::one_affine_ranking_function_MS_2(pb, pa, mu); if (r.b) capture_mu(mu, r); break; }
      case 3: { Generator mu = PPL::point(); r.b = PPL::one_affine_ranking_function_PR_2(pb, pa, mu); if (r.b) capture_mu(mu, r); break; }
      case 4: { C_Polyhedron m; PPL::all_affine_ranking_functions_MS_2(pb, pa, m); capture_ph(m, r.d1, r.c1, r.g1, r.ok1, r.txt1); break; }
      case 5: { NNC_Polyhedron m; PPL::all_affine_ranking_functions_PR_2(pb, pa, m); capture_ph(m, r.d1, r.c1, r.g1, r.ok1, r.txt1); break; }
      case 6: { C_Polyhedron m1, m2; PPL::all_affine_quasi_ranking_functions_MS_2(pb, pa, m1, m2);
                capture_ph(m1, r.d1, r.c1, r.g1, r.ok1, r.txt1); capture_ph(m2, r.d2, r.c2, r.g2, r.ok2, r.txt2); break; }
    }
  } catch (const std::exception& e) { r.threw = true; r.exc = e.what(); }
}

// ------------------------------------------------------------------ judging one answer
struct Ctx {
  long long item; int n; std::string gens; std::string variant; std::string before; std::string fn;
  // how the pointset relates to the relation the oracle describes
  bool precise;            // pointset (pair) denotes exactly the oracle's relation (up to topological closure)
  bool precise_pr;         // ... and, for the PR_2 entry points, pset_before is exactly the set of `before' states (see run_item)
  bool universe_expected;  // the library documents / implements "all functions" for a pointset it sees as empty
  std::string trigger;
};

static std::string input_json(const Ctx& c) {
  J j; j.str("space", SPACE).num("item", c.item).num("n", c.n).str("gens_xprime_x", c.gens).str("pointset", c.variant);
  if (!c.before.empty()) j.str("before", c.before);
  j.str("fn", c.fn);
  return j.done();
}
static void viol(const Ctx& c, const std::string& clause, const std::string& observed, const std::string& expected, const std::string& detail = "") {
  std::string site = "termination::" + c.fn;
  count(CNT_VIOL);
  if (VERBOSE) fprintf(stderr, "  !! VIOLATION %s %s: observed %s expected %s %s\n", site.c_str(), clause.c_str(), observed.c_str(), expected.c_str(), detail.c_str());
  if (!violcap().admit(site + "|" + clause + "|" + c.trigger + "|" + c.variant)) return;
  report_violation(site, clause, c.trigger, input_json(c), observed, expected, detail);
}

static std::string mu_str(const Vec& mu) { return "mu=" + ref::vec_str(mu); }

// o: oracle for the exact relation the pointset denotes (if c.precise) or for a relation the pointset encloses (soundness)
static void judge(const Ctx& c0, int fn, const Res& r, const Oracle& o) {
  RefGuard guard;
  ProfT pt("oracle:judge");
  Ctx c = c0;
  int n = c.n;
  count(CNT_TRANS);
  const bool is_pr = (fn == 1 || fn == 3 || fn == 5);
  if (STRICT_PR2 && is_pr && c.precise && !c.precise_pr) { c.precise_pr = true; if (c.trigger == "none") c.trigger = "pset_before_looser_than_projection"; }
  const bool precise = is_pr ? c.precise_pr : c.precise;
  if (fn == 1 && c0.precise && !c0.precise_pr && !r.threw && !r.b && o.exists) count(C_PR2_LOOSE_INCOMPLETE);
  if (r.threw) { viol(c, "unexpected-exception", r.exc, "normal return"); return; }
  if (fn <= 3) {
    count(r.b ? C_TRUE_ANSWERS : C_FALSE_ANSWERS);
    if (r.b && !o.exists) viol(c, "soundness:true-but-no-affine-ranking-function-exists", "true", "false", "relation " + o.text);
    if (!r.b && o.exists && precise) viol(c, "completeness:false-but-affine-ranking-function-exists", "false", "true", "relation " + o.text);
  }
  if ((fn == 2 || fn == 3) && r.b) {
    count(C_MU_CHECKED);
    if (r.mudim != n + 1 || !r.mu_is_point) { viol(c, "shape:mu-not-a-point-of-dimension-n+1", "dimension " + std::to_string(r.mudim), "point of dimension " + std::to_string(n + 1)); return; }
    Vec m(r.mu.begin(), r.mu.begin() + n);
    std::string why = generic_rf(o, m);
    if (!why.empty()) viol(c, "soundness:returned-mu-is-not-a-ranking-function", mu_str(r.mu), "strict decrease on every point, bounded below along every ray/line", why + "; relation " + o.text);
    else if (fn == 2 && !ref::member(o.ms, r.mu))
      viol(c, "consistency:MS-witness-outside-MS-space(f>=0,decrease>=1)", mu_str(r.mu), "member of " + ref::cell_str(o.ms), "relation " + o.text);
  }
  if (fn >= 4) {
    for (int which = 0; which < (fn == 6 ? 2 : 1); ++which) {
      int d = which ? r.d2 : r.d1; const Cell& cell = which ? r.c2 : r.c1; const Gens& gs = which ? r.g2 : r.g1; bool ok = which ? r.ok2 : r.ok1;
      const Cell& want = fn == 4 ? o.ms : fn == 5 ? o.pr : which == 0 ? o.dec : o.bnd;
      std::string tag = fn == 6 ? (which == 0 ? "decreasing:" : "bounded:") : "";
      if (!ok) { viol(c, tag + "invariant:OK()", "OK() false", "OK() true"); continue; }
      if (d != n + 1) { viol(c, tag + "shape:mu_space-dimension", std::to_string(d), std::to_string(n + 1)); continue; }
      // (2) every generator of the returned space, by evaluation on the relation's generators
      bool gen_bad = false;
      for (size_t i = 0; i < gs.size(); ++i) {
        count(C_GEN_EVAL);
        if (!gen_in_cell(gs[i], want)) {
          gen_bad = true;
          std::string why;
          if (fn != 6 && (gs[i].t == 'p')) why = generic_rf(o, Vec(gs[i].v.begin(), gs[i].v.begin() + n));
          viol(c, tag + "soundness:mu_space-generator-outside-reference-space", std::string(1, gs[i].t) + ref::vec_str(gs[i].v), "inside " + ref::cell_str(want), why + "; relation " + o.text);
          break;
        }
      }
      bool nonempty = !gs.empty();
      if (nonempty) count(C_NONEMPTY_SPACES);
      if (fn == 4 || fn == 5) {
        if (nonempty && !o.exists) viol(c, "soundness:mu_space-non-empty-but-no-ranking-function-exists", "non-empty", "empty", "relation " + o.text);
        if (!nonempty && o.exists && precise) viol(c, "completeness:mu_space-empty-but-ranking-function-exists", "empty", "non-empty", "relation " + o.text);
      }
      if (gen_bad) continue;
      if (precise && (!o.empty || c.universe_expected)) {
        count(C_SPACE_EQ);
        if (!cells_equal(cell, want)) {
          Vec x; std::string w;
          if (ref::find_point_outside(cell, want, x)) w = "function " + ref::vec_str(x) + " returned, not in reference";
          else if (ref::find_point_outside(want, cell, x)) w = "function " + ref::vec_str(x) + " in reference, not returned";
          viol(c, tag + "exactness:mu_space!=reference-space", ref::cell_str(cell), ref::cell_str(want), w + "; relation " + o.text);
        }
      } else {
        count(C_SPACE_SUBSET);
        if (!cell_subset(cell, want)) {
          Vec x; std::string w;
          if (ref::find_point_outside(cell, want, x)) w = "function " + ref::vec_str(x) + " returned, not in reference";
          viol(c, tag + "soundness:mu_space-not-included-in-reference-space", ref::cell_str(cell), "subset of " + ref::cell_str(want), w + "; relation " + o.text);
        }
      }
    }
  }
  if (VERBOSE) {
    fprintf(stderr, "  [%s | %s%s%s] %s -> ", c.variant.c_str(), precise ? "precise" : c.precise ? "encloses (before not tight)" : "encloses", c.before.empty() ? "" : " | before=", c.before.c_str(), c.fn.c_str());
    if (fn <= 3) fprintf(stderr, "%s %s", r.b ? "true" : "false", (fn >= 2 && r.b) ? mu_str(r.mu).c_str() : "");
    else { fprintf(stderr, "{%s}", r.txt1.c_str()); if (fn == 6) fprintf(stderr, " / {%s}", r.txt2.c_str()); }
    fprintf(stderr, "   (oracle: exists=%d)\n", (int)o.exists);
  }
}

// ------------------------------------------------------------------ one relation, all pointset variants
static std::set<std::string>* MUSPACES = 0;

// the exact relation denoted by (before, after): after /\ (Q^n x before), generators through the reference DD
static Gens cut_gens(int n, const Gens& after, const Gens& before) {
  ProfT pt("oracle:cut_gens");
  Gens out;
  Cell a = ref::from_gens_dd(after, 2 * n, false);
  Cell b = ref::from_gens_dd(before, n, false);
  if (a.bot || b.bot) return out;
  Cell m = a;
  ref::Rows pb = ref::place(b.rows, 2 * n, n);
  m.rows.insert(m.rows.end(), pb.begin(), pb.end());
  if (!ref::gens_of_closed_cell(m, out)) out.clear();
  return out;
}

static bool gens_inside_rows(const Gens& g, const Cell& c) {
  for (size_t i = 0; i < g.size(); ++i) if (!gen_in_cell(g[i], c)) return false;
  return true;
}

// Is pset_before exactly the set of `before' states of the relation, i.e. before == projection of the relation on x?
// (before always includes the projection of  after /\ cylinder(before).)  The PR_2 formalisation derives the lower bound
// of the ranking function from the constraints of pset_before alone, so the documentation's "precisely characterize"
// is read as: pset_before is precise.  The projection's generators are the projected generators.
static bool before_tight(int n, const Gens& before, const Gens& rel) {
  ProfT pt("oracle:before_tight");
  Gens pg;
  for (size_t i = 0; i < rel.size(); ++i) {
    Gen x; x.t = rel[i].t == 'c' ? 'p' : rel[i].t; x.v.assign(rel[i].v.begin() + n, rel[i].v.end());
    if (x.t != 'p' && ref::is_zero_vec(x.v)) continue;
    pg.push_back(x);
  }
  Cell pc = ref::from_gens_dd(pg, n, false);
  return gens_inside_rows(before, pc);
}
static Gens universe_gens(int n) {
  Gens g; g.push_back(Gen('p', ref::zeros(n)));
  for (int i = 0; i < n; ++i) g.push_back(Gen('l', ref::unit(n, i)));
  return g;
}

template <typename SH>
static void shape_variant(const char* name, const C_Polyhedron& ph, const std::vector<GM>& gm, const Oracle& oR, long long item, int n,
                          long long& sub, long long sub_start, int max_rows_for_exact) {
  // the shape encloses R: soundness against R's oracle; exactness against the oracle of the shape's own constraints
  ProfT pt0("shape_variant:total");
  SH sh(ph);
  int dim = 2 * n;
  Cell sc = cell_of(sh.minimized_constraints(), dim);
  Ctx c; c.item = item; c.n = n; c.gens = gm_text(gm); c.variant = name; c.precise = false; c.precise_pr = false; c.universe_expected = false; c.trigger = "none";
  bool exact = false; Oracle oS;
  {
    RefGuard guard;
    if (!oR.empty && !gens_inside_rows(ref_gens(gm), sc)) {
      c.fn = std::string(name) + "(C_Polyhedron)";
      viol(c, "enclosure:shape-does-not-contain-the-polyhedron", ref::cell_str(sc), "superset of " + oR.text);
      return;
    }
    if ((int)sc.rows.size() <= max_rows_for_exact) {
      ProfT pt1("oracle:shape_gens");
      Gens sg;
      if (oR.empty) { exact = true; oS = make_oracle(n, sg); }
      else if (ref::gens_of_closed_cell(sc, sg)) { exact = true; oS = make_oracle(n, sg); }
    }
    count(exact ? C_SHAPE_EXACT : C_SHAPE_SOUND_ONLY);
    count(C_INPUTS);
  }
  for (int fn = 0; fn < NFN; ++fn) {
    long long my = sub++;
    if (!pool().want(my, sub_start)) continue;
    pool().step(my);
    Res r; call_single(sh, fn, r);
    c.fn = FN1[fn];
    // soundness w.r.t. the enclosed relation
    c.precise = false; c.precise_pr = false; c.universe_expected = false; c.trigger = oR.empty ? "relation_empty" : "none";
    judge(c, fn, r, oR);
    if (exact) {
      Ctx c2 = c; c2.precise = true; c2.precise_pr = true; c2.universe_expected = oS.empty; c2.variant = std::string(name) + "[own constraints " + ref::cell_str(sc) + "]";
      c2.trigger = oS.empty ? "relation_empty" : "none";
      judge(c2, fn, r, oS);
    }
  }
}

template <typename PH>
static void cpair_calls(const char* vname, const PH& pb, const PH& pa, const Ctx& base, const Oracle& oC, long long& sub, long long sub_start) {
  count(C_INPUTS);
  for (int fn = 0; fn < NFN; ++fn) {
    long long my = sub++;
    if (!pool().want(my, sub_start)) continue;
    pool().step(my);
    Res r; call_pair(pb, pa, fn, r);
    Ctx c = base; c.variant = vname; c.fn = FN2[fn];
    judge(c, fn, r, oC);
  }
}

static void run_pair_item(long long item, long long sub_start) {
  const Item& it = ITEMS[item];
  int n = it.n, dim = 2 * n;
  CMPMEMO.clear();
  C_Polyhedron pb(n, PPL::UNIVERSE), pa(dim, PPL::UNIVERSE);
  NNC_Polyhedron nb(n, PPL::UNIVERSE), na(dim, PPL::UNIVERSE);
  Cell cb(n), ca(dim);
  for (size_t i = 0; i < BROWS[n].size(); ++i) if (it.bm & (1u << i)) { pb.add_constraint(BROWS[n][i].ppl()); nb.add_constraint(BROWS[n][i].ppl()); cb.rows.push_back(BROWS[n][i].row(n)); }
  for (size_t i = 0; i < AROWS[n].size(); ++i) if (it.am & (1u << i)) { pa.add_constraint(AROWS[n][i].ppl()); na.add_constraint(AROWS[n][i].ppl()); ca.rows.push_back(AROWS[n][i].row(dim)); }
  Oracle oC; bool tight = true, before_empty = false;
  {
    RefGuard guard;
    Gens bg, cg;
    before_empty = !ref::gens_of_closed_cell(cb, bg);
    if (!before_empty) {
      Cell m = ca;
      ref::Rows pbr = ref::place(cb.rows, dim, n);
      m.rows.insert(m.rows.end(), pbr.begin(), pbr.end());
      if (!ref::gens_of_closed_cell(m, cg)) cg.clear();
    }
    oC = make_oracle(n, cg);
    tight = oC.empty || before_tight(n, bg, cg);
  }
  if (sub_start == 0 && pool().only_sub < 0) {
    count(C_CP); count(tight ? C_PAIR_TIGHT : C_PAIR_LOOSE);
    // r, s as the library will see them: inequality rows of the minimized systems, an equality counting twice
    int r = 0, sct = 0;
    { const PPL::Constraint_System& c1 = pb.minimized_constraints(); for (PPL::Constraint_System::const_iterator i = c1.begin(); i != c1.end(); ++i) r += i->is_equality() ? 2 : 1; }
    { const PPL::Constraint_System& c2 = pa.minimized_constraints(); for (PPL::Constraint_System::const_iterator i = c2.begin(); i != c2.end(); ++i) sct += i->is_equality() ? 2 : 1; }
    count(r > sct ? C_CP_RGT : r == sct ? C_CP_REQ : C_CP_RLT);
    if (oC.empty) count(C_CP_EMPTY); else if (oC.exists) count(C_CP_TERM); else {
      count(C_CP_NONTERM);
      // non-termination that hinges on the lower bound: some function decreases on every transition but none of them is bounded below
      RefGuard guard; if (!ref::is_empty(oC.dec)) count(C_CP_BOUNDED_FAIL_ONLY);
    }
  }
  if (VERBOSE) fprintf(stderr, "constraint pair n=%d %s\n  relation (reference DD): %s\n  oracle: empty=%d exists=%d tight=%d\n  MS space %s\n  PR space %s\n", n, item_text(it).c_str(),
                       oC.text.c_str(), (int)oC.empty, (int)oC.exists, (int)tight, ref::cell_str(oC.ms).c_str(), ref::cell_str(oC.pr).c_str());
  Ctx base; base.item = item; base.n = n; base.gens = "after {" + rows_text(AROWS[n], it.am, true, n) + "}"; base.before = "{" + rows_text(BROWS[n], it.bm, false, n) + "}";
  base.precise = true; base.precise_pr = tight; base.universe_expected = before_empty;
  base.trigger = oC.empty ? (before_empty ? "before_empty" : "before_after_disjoint") : "none";
  long long sub = 0;
  cpair_calls("C_Polyhedron pair (from constraints)", pb, pa, base, oC, sub, sub_start);
  cpair_calls("NNC_Polyhedron pair (from constraints)", nb, na, base, oC, sub, sub_start);
  count(CNT_STATES);
}

static void run_item(long long item, long long sub_start) {
  if (ITEMS[item].kind == 1) { run_pair_item(item, sub_start); return; }
  ProfT pt0("run_item:total");
  const Item& it = ITEMS[item];
  int n = it.n, dim = 2 * n;
  std::vector<GM> gm = item_gens(it);
  CMPMEMO.clear();
  Oracle oR;
  { RefGuard guard; oR = make_oracle(n, ref_gens(gm)); }
  long long sub = 0;
  // counted once per relation (sub_start == 0 unless restarted after a crash)
  if (sub_start == 0 && pool().only_sub < 0) {
    count(C_REL); count(n == 1 ? C_REL_N1 : C_REL_N2);
    if (oR.empty) count(C_EMPTYREL);
    else if (oR.exists) { count(C_TERM); count(n == 1 ? C_TERM_N1 : C_TERM_N2); }
    else count(C_NONTERM);
    if (MUSPACES && !oR.empty && oR.exists) { RefGuard guard; ProfT pt2("oracle:canon"); MUSPACES->insert(ref::canon_closed(oR.ms)); }
  }
  if (VERBOSE) {
    fprintf(stderr, "relation n=%d gens(x',x) = %s\n  oracle: empty=%d exists=%d\n  MS space %s\n  PR space %s\n", n, gm_text(gm).c_str(), (int)oR.empty, (int)oR.exists,
            ref::cell_str(oR.ms).c_str(), ref::cell_str(oR.pr).c_str());
  }
  Ctx base; base.item = item; base.n = n; base.gens = gm_text(gm); base.precise = true; base.precise_pr = true; base.universe_expected = oR.empty; base.trigger = oR.empty ? "relation_empty" : "none";

  // ---- V0: C_Polyhedron(gs)
  std::unique_ptr<C_Polyhedron> ph;
  if (oR.empty) ph.reset(new C_Polyhedron(dim, PPL::EMPTY)); else ph.reset(new C_Polyhedron(ppl_gs(gm, dim)));
  count(C_INPUTS);
  for (int fn = 0; fn < NFN; ++fn) {
    long long my = sub++;
    if (!pool().want(my, sub_start)) continue;
    pool().step(my);
    Res r; call_single(*ph, fn, r);
    Ctx c = base; c.variant = "C_Polyhedron"; c.fn = FN1[fn];
    judge(c, fn, r, oR);
  }
  // ---- V1: NNC_Polyhedron with closure points (judged on the closure's generators)
  {
    std::vector<std::vector<GM> > nn;
    if (oR.empty) nn.push_back(std::vector<GM>());
    else {
      nn.push_back(gm);                                       // NNC topology, closed set
      if (it.np >= 2) { std::vector<GM> g = gm; g[it.np - 1].t = 'c'; nn.push_back(g); }
      if (it.np >= 3) { std::vector<GM> g = gm; for (int k = 1; k < it.np; ++k) g[k].t = 'c'; nn.push_back(g); }
    }
    for (size_t v = 0; v < nn.size(); ++v) {
      std::unique_ptr<NNC_Polyhedron> np;
      if (oR.empty) np.reset(new NNC_Polyhedron(dim, PPL::EMPTY)); else np.reset(new NNC_Polyhedron(ppl_gs(nn[v], dim)));
      count(C_INPUTS);
      for (int fn = 0; fn < NFN; ++fn) {
        long long my = sub++;
        if (!pool().want(my, sub_start)) continue;
        pool().step(my);
        Res r; call_single(*np, fn, r);
        Ctx c = base; c.variant = "NNC_Polyhedron"; c.gens = gm_text(nn[v]); c.fn = FN1[fn];
        judge(c, fn, r, oR);
      }
    }
  }
  // ---- V2-V4: enclosing shapes
  int maxrows = n == 1 ? 64 : (ARGS.thorough() ? 12 : 10);
  shape_variant<BDS>("BD_Shape<mpq_class>", *ph, gm, oR, item, n, sub, sub_start, maxrows);
  shape_variant<OCT>("Octagonal_Shape<mpq_class>", *ph, gm, oR, item, n, sub, sub_start, maxrows);
  shape_variant<BOX>("Rational_Box", *ph, gm, oR, item, n, sub, sub_start, maxrows);

  // ---- V5: pair (projection of R on x, R); V6: pair (universe, R)
  for (int pv = 0; pv < 2; ++pv) {
    std::unique_ptr<C_Polyhedron> pb;
    std::string btxt;
    if (pv == 0) {
      std::vector<GM> bg = project_x(gm, n);
      btxt = "projection: " + gm_text(bg);
      if (oR.empty) pb.reset(new C_Polyhedron(n, PPL::EMPTY)); else pb.reset(new C_Polyhedron(ppl_gs(bg, n)));
    } else { btxt = "universe"; pb.reset(new C_Polyhedron(n, PPL::UNIVERSE)); }
    bool tight = true;
    if (pv == 1) { RefGuard guard; tight = oR.empty || before_tight(n, universe_gens(n), ref_gens(gm)); count(tight ? C_PAIR_TIGHT : C_PAIR_LOOSE); }
    count(C_INPUTS);
    for (int fn = 0; fn < NFN; ++fn) {
      long long my = sub++;
      if (!pool().want(my, sub_start)) continue;
      pool().step(my);
      Res r; call_pair(*pb, *ph, fn, r);
      Ctx c = base; c.variant = "C_Polyhedron pair"; c.before = btxt; c.fn = FN2[fn];
      // the _2 entry points test only pset_before for emptiness
      c.universe_expected = oR.empty && pv == 0;
      c.precise_pr = tight;
      if (oR.empty && pv == 1) c.trigger = "after_empty_before_nonempty";
      judge(c, fn, r, oR);
    }
  }
  // ---- V7: pair (B, R) with B from the menu: the relation is R /\ (Q^n x B)
  for (size_t bi = 0; bi < BMENU[n].size(); ++bi) {
    const std::vector<GM>& bg = BMENU[n][bi];
    std::unique_ptr<C_Polyhedron> pb;
    if (bg.empty()) pb.reset(new C_Polyhedron(n, PPL::EMPTY)); else pb.reset(new C_Polyhedron(ppl_gs(bg, n)));
    Oracle oC; bool tight = true;
    {
      RefGuard guard;
      Gens cg;
      if (!oR.empty && !bg.empty()) cg = cut_gens(n, ref_gens(gm), ref_gens(bg));
      oC = make_oracle(n, cg);
      tight = oC.empty || before_tight(n, ref_gens(bg), cg);
      count(tight ? C_PAIR_TIGHT : C_PAIR_LOOSE);
      count(C_PAIR_CUT); if (oC.empty) count(C_PAIR_CUT_EMPTY);
      if (oC.empty && !oR.empty && !bg.empty()) count(C_UNDETECTED_EMPTY);
      count(C_INPUTS);
    }
    for (int fn = 0; fn < NFN; ++fn) {
      long long my = sub++;
      if (!pool().want(my, sub_start)) continue;
      pool().step(my);
      Res r; call_pair(*pb, *ph, fn, r);
      Ctx c = base; c.variant = "C_Polyhedron pair"; c.before = gm_text(bg); c.fn = FN2[fn];
      c.universe_expected = bg.empty();
      c.precise_pr = tight;
      c.trigger = oC.empty ? (bg.empty() ? "before_empty" : oR.empty ? "after_empty_before_nonempty" : "before_after_disjoint") : "none";
      judge(c, fn, r, oC);
    }
  }
  // ---- V8: NNC pair (NNC universe, NNC with closure points)
  if (!oR.empty && it.np >= 2) {
    std::vector<GM> g = gm; g[it.np - 1].t = 'c';
    std::vector<GM> bgn;     // projection on x keeping point / closure point types: exactly the projection of the NNC relation
    for (size_t i = 0; i < g.size(); ++i) { GM x; x.t = g[i].t; x.v.assign(g[i].v.begin() + n, g[i].v.end()); if ((x.t == 'r' || x.t == 'l') && gm_zero(x)) continue; bgn.push_back(x); }
    NNC_Polyhedron na(ppl_gs(g, dim)), nb(ppl_gs(bgn, n));
    count(C_INPUTS);
    for (int fn = 0; fn < NFN; ++fn) {
      long long my = sub++;
      if (!pool().want(my, sub_start)) continue;
      pool().step(my);
      Res r; call_pair(nb, na, fn, r);
      Ctx c = base; c.variant = "NNC_Polyhedron pair"; c.gens = gm_text(g); c.before = "projection: " + gm_text(bgn); c.fn = FN2[fn];
      judge(c, fn, r, oR);
    }
  }
  // ---- V9: shape pairs (projection, R): only soundness w.r.t. R
  if (!oR.empty) {
    std::vector<GM> bgm = project_x(gm, n);
    C_Polyhedron pbc(ppl_gs(bgm, n));
    for (int sk = 0; sk < 3; ++sk) {
      count(C_INPUTS);
      for (int fn = 0; fn < NFN; ++fn) {
        long long my = sub++;
        if (!pool().want(my, sub_start)) continue;
        pool().step(my);
        Res r;
        const char* nm;
        if (sk == 0) { BDS b(pbc), a(*ph); call_pair(b, a, fn, r); nm = "BD_Shape<mpq_class> pair"; }
        else if (sk == 1) { OCT b(pbc), a(*ph); call_pair(b, a, fn, r); nm = "Octagonal_Shape<mpq_class> pair"; }
        else { BOX b(pbc), a(*ph); call_pair(b, a, fn, r); nm = "Rational_Box pair"; }
        Ctx c = base; c.variant = nm; c.before = "projection: " + gm_text(bgm); c.fn = FN2[fn]; c.precise = false; c.precise_pr = false; c.universe_expected = false;
        judge(c, fn, r, oR);
      }
    }
  }
  count(CNT_STATES);
}

// ------------------------------------------------------------------ main
static long long json_num(const std::string& txt, const std::string& key, long long def) {
  size_t p = txt.find("\"" + key + "\"");
  if (p == std::string::npos) return def;
  p = txt.find(':', p); if (p == std::string::npos) return def;
  return atoll(txt.c_str() + p + 1);
}
static std::string json_str(const std::string& txt, const std::string& key, const std::string& def) {
  size_t p = txt.find("\"" + key + "\"");
  if (p == std::string::npos) return def;
  p = txt.find(':', p); if (p == std::string::npos) return def;
  p = txt.find('"', p); if (p == std::string::npos) return def;
  size_t e = txt.find('"', p + 1);
  return txt.substr(p + 1, e - p - 1);
}

int main(int argc, char** argv) {
  ARGS = parse_args(argc, argv);
  sink().open(ARGS.out);
  build_menus();
  build_row_menus();
  long long only_item = atoll(ARGS.opt("--item", "-1").c_str());
  SPACE = ARGS.opt("--space", ARGS.tier);
  STRICT_PR2 = ARGS.has("--strict-pr2");
  if (!ARGS.replay.empty()) {
    std::ifstream f(ARGS.replay.c_str()); std::stringstream ss; ss << f.rdbuf();
    std::string txt = ss.str();
    only_item = json_num(txt, "item", -1);
    SPACE = json_str(txt, "space", "quick");
    if (only_item < 0) { fprintf(stderr, "replay file has no item index\n"); return 2; }
  }
  // the enumerated space:  (max points, max rays, lines?, point menu prefix) per n
  std::string bound, pairbound;
  if (SPACE == "thorough") {
    // sized to about 2 600 CPU seconds (the library calls dominate: ~130 calls of ~100 us per relation)
    build_items(1, 4, 2, 1, 16, [](int np, int, bool line) { return !line || np <= 2; });
    build_items(2, 4, 2, 1, 12, [](int np, int nr, bool line) { return np <= 3 || (nr <= 1 && !line); });
    build_pair_items(1, 4, 3); build_pair_items(2, 4, 3);
    pairbound = "<=4 guard rows x <=3 update rows";
    bound = "n=1: every generator system of 1..4 points from {-1,0,1,2}^2 (16) + <=2 rays of 8 + <=1 line of 3 (a line only with <=2 points); "
            "n=2: 1..4 points of a 12-point menu in {-1,0,1,2}^4 + <=2 rays of 7 + <=1 line of 4 (with 4 points: <=1 ray, no line); plus the empty relation";
  } else if (SPACE == "tiny") {
    build_items(1, 2, 1, 1, 16);
    build_items(2, 2, 1, 1, 8);
    build_pair_items(1, 2, 1); build_pair_items(2, 3, 1);
    pairbound = "tiny";
    bound = "tiny (development)";
  } else {
    // sized to about 350 CPU seconds
    build_items(1, 3, 1, 1, 16, [](int np, int, bool line) { return !line || np <= 2; });
    build_items(2, 3, 1, 1, 10);
    build_pair_items(1, 3, 2); build_pair_items(2, 3, 2);
    pairbound = "<=3 guard rows x <=2 update rows";
    bound = "n=1: every generator system of 1..3 points from {-1,0,1,2}^2 (16) + <=1 ray of 8 + <=1 line of 3 (a line only with <=2 points); "
            "n=2: 1..3 points of the first 10 menu points in {-1,0,1,2}^4 + <=1 ray of 7 + <=1 line of 4; plus the empty relation";
  }
  // a fixed permutation of the enumerated space (every item is still visited exactly once): balances the shards and
  // mixes n = 1 and n = 2 so that a run cut by its deadline has covered both
  {
    std::vector<std::pair<unsigned, size_t> > key(ITEMS.size());
    for (size_t i = 0; i < ITEMS.size(); ++i) key[i] = std::make_pair((unsigned)((i + 1) * 2654435761u), i);
    std::sort(key.begin(), key.end());
    std::vector<Item> perm(ITEMS.size());
    for (size_t i = 0; i < key.size(); ++i) perm[i] = ITEMS[key[i].second];
    ITEMS.swap(perm);
  }
  bound += "; PLUS before/after pairs built from constraints (" + pairbound + "): every subset of the guard menu {x>=0,x<=5,y>=0,y<=10,y<=5,x<=10,x+y<=8,x>=y} "
           "(n=1: {x>=0,x<=5,x<=10,x>=2}) with every non-empty subset of the update menu {y'<=y-1,x'<=x-1,x'>=x+1,y'>=y+1,x'+y'<=x+y-1,x'=x,y'=y-1,x'=x-1,y'<=y} "
           "(n=1: {x'<=x-1,x'>=x+1,x'=x-1,x'<=x,2x'<=x}), as C_Polyhedron and NNC_Polyhedron pairs, so that pset_before contributes more, as many and fewer inequality rows than pset_after";
  bound += "; generator-built relations each as C_Polyhedron, NNC_Polyhedron (<=3 closure-point patterns), BD_Shape/Octagonal_Shape<mpq_class>/Rational_Box, "
           "before/after pairs (projection, universe, 4 cutting `before' sets, NNC pair, 3 shape pairs); 7 entry points each; "
           "exact answers/spaces demanded for closed and NNC polyhedra, shapes (on their own constraints) and pairs (relation = after /\\ cylinder(before); "
           "the PR_2 entry points are judged for completeness only when pset_before equals the projection of that relation on x), soundness everywhere";
  double t0 = now_s();
  if (only_item >= 0) {
    VERBOSE = true;
    if (only_item >= (long long)ITEMS.size()) { fprintf(stderr, "item out of range (%zu items)\n", ITEMS.size()); return 2; }
    Sink keep = sink(); sink().path = "";     // print violation records on stdout
    run_item(only_item, 0);
    (void)keep;
    fprintf(stderr, "violations in this item: %lld\n", counter(CNT_VIOL));
    return 0;
  }
  fprintf(stderr, "[c18] space=%s items=%zu jobs=%d\n", SPACE.c_str(), ITEMS.size(), ARGS.jobs);
  std::string mubase = (ARGS.out.empty() ? std::string("/tmp/c18-") + std::to_string(getpid()) : ARGS.out) + ".mus.";
  std::set<std::string> mus; MUSPACES = &mus;
  PROFILE = getenv("VERIF_PROFILE") != 0;
  pool().at_worker_exit = [&]() {
    if (PROFILE) for (auto& kv : PROF) fprintf(stderr, "PROF %-50s %9.3f s %9ld\n", kv.first.c_str(), kv.second.first, kv.second.second);
    FILE* f = fopen((mubase + std::to_string(pool().worker_id)).c_str(), "a");
    if (!f) return;
    for (auto& s : mus) fprintf(f, "%s\n", s.c_str());
    fclose(f);
  };
  Pool::Fn fn = [&](long long item, long long sub_start) { run_item(item, sub_start); };
  Pool::CrashFn cf = [&](long long item, long long sub, int sig, bool confirmed) {
    if (!confirmed) return;
    const Item& it = ITEMS[item];
    Ctx c; c.item = item; c.n = it.n; c.gens = item_text(it); c.variant = "sub-step " + std::to_string(sub); c.fn = "(see --item " + std::to_string(item) + ")";
    c.trigger = "none";
    report_violation("termination::(sub-step)", std::string("crash:") + signame(sig), "none", input_json(c), signame(sig), "normal return");
  };
  limit_memory(4ULL << 30);
  pool().run((long long)ITEMS.size(), ARGS.jobs, fn, cf, ARGS, 60);
  // merge the per-worker sets of distinct reference MS spaces
  std::set<std::string> all;
  for (int w = 0; w < ARGS.jobs; ++w) {
    std::string p = mubase + std::to_string(w);
    std::ifstream f(p.c_str()); std::string line;
    while (std::getline(f, line)) if (!line.empty()) all.insert(line);
    unlink(p.c_str());
  }
  bool complete = counter(CNT_SKIPPED) == 0 && counter(CNT_REFCRASH) == 0;
  std::vector<std::string> samples;
  for (size_t i = 0; i < ITEMS.size(); i += std::max<size_t>(1, ITEMS.size() / 5))
    samples.push_back(J().num("n", ITEMS[i].n).str(ITEMS[i].kind == 1 ? "constraint_pair" : "gens_xprime_x", item_text(ITEMS[i])).done());
  for (size_t i = 0, k = 0; i < ITEMS.size() && k < 2; ++i) if (ITEMS[i].kind == 1 && __builtin_popcount(ITEMS[i].bm) >= 2) { samples.insert(samples.begin() + k, J().num("n", ITEMS[i].n).str("constraint_pair", item_text(ITEMS[i])).done()); ++k; }
  J extra;
  extra.num("relations", counter(C_REL)).num("relations_n1", counter(C_REL_N1)).num("relations_n2", counter(C_REL_N2))
    .num("terminating_relations(affine ranking function exists)", counter(C_TERM)).num("terminating_n1", counter(C_TERM_N1)).num("terminating_n2", counter(C_TERM_N2))
    .num("non_terminating_relations(no affine ranking function)", counter(C_NONTERM)).num("empty_relations", counter(C_EMPTYREL))
    .num("distinct_reference_mu_spaces_MS", (long long)all.size())
    .num("pointset_inputs", counter(C_INPUTS)).num("library_calls_judged", counter(CNT_TRANS))
    .num("answers_true", counter(C_TRUE_ANSWERS)).num("answers_false", counter(C_FALSE_ANSWERS))
    .num("witness_mu_evaluated_on_generators", counter(C_MU_CHECKED)).num("mu_space_generators_evaluated", counter(C_GEN_EVAL))
    .num("non_empty_spaces_returned", counter(C_NONEMPTY_SPACES))
    .num("mu_space_exact_comparisons", counter(C_SPACE_EQ)).num("mu_space_inclusion_only_comparisons", counter(C_SPACE_SUBSET))
    .num("shapes_judged_exactly_on_own_constraints", counter(C_SHAPE_EXACT)).num("shapes_soundness_only", counter(C_SHAPE_SOUND_ONLY))
    .num("constraint_built_pairs", counter(C_CP)).num("constraint_pairs_r_gt_s", counter(C_CP_RGT)).num("constraint_pairs_r_eq_s", counter(C_CP_REQ)).num("constraint_pairs_r_lt_s", counter(C_CP_RLT))
    .num("constraint_pairs_terminating", counter(C_CP_TERM)).num("constraint_pairs_non_terminating", counter(C_CP_NONTERM)).num("constraint_pairs_empty_relation", counter(C_CP_EMPTY))
    .num("constraint_pairs_non_terminating_only_because_unbounded_below", counter(C_CP_BOUNDED_FAIL_ONLY))
    .num("cutting_pairs", counter(C_PAIR_CUT)).num("cutting_pairs_with_empty_relation", counter(C_PAIR_CUT_EMPTY))
    .num("pairs_empty_only_by_disjointness", counter(C_UNDETECTED_EMPTY))
    .num("pairs_before_tight(PR_2 judged for completeness)", counter(C_PAIR_TIGHT)).num("pairs_before_loose(PR_2 judged for soundness only)", counter(C_PAIR_LOOSE))
    .num("observation:PR_2_false_but_MS_2_true_with_loose_before", counter(C_PR2_LOOSE_INCOMPLETE))
    .num("violation_records", counter(CNT_VIOL))
    .num("items_skipped_by_deadline", counter(CNT_SKIPPED)).num("cases_skipped_oracle_resource_limit", counter(CNT_REFCRASH));
  J st; st.str("t", "stats").num("states", counter(C_INPUTS)).num("transitions", counter(CNT_TRANS))
    .num("traces_validated_against_impl", counter(CNT_TRANS)).boolean("exhaustive", complete)
    .str("bound", bound).arr("samples", samples).raw("extra", extra.done()).dbl("wall_s", now_s() - t0);
  sink().line(st.done());
  return 0;
}

// Stand-alone reproducer for the C11 finding "rational_source_below_smallest_normal_float" (assign_float_mpq, fixed by 83563e1):
// every rational n/(d*2^k) in the denormal range / around min_normal, all rounding modes, exact GMP reference, optimality via nextafter.
// bin/vcheck harness c11_repro_denorm ; before the fix: float 1309/4440, double 2904/8040, long double 3520/9240 wrong or non-optimal; after: 0.
#include "ppl-config.h"
#include "version.hh"
#include "ppl_include_files.hh"
#include <cstdio>
#include <cmath>
#include <limits>
using namespace Parma_Polyhedra_Library;
static mpq_class q_of(long double v) { if (v == 0) return 0; int e; long double m = frexpl(v, &e); bool neg = m < 0; if (neg) m = -m;
  unsigned long long mant = (unsigned long long)ldexpl(m, 64); mpz_class z; mpz_import(z.get_mpz_t(), 1, 1, 8, 0, 0, &mant); mpq_class q(z); long ex = e - 64;
  mpz_class p(1); if (ex >= 0) { p <<= ex; q *= p; } else { p <<= -ex; q /= p; } return neg ? mpq_class(-q) : q; }
template <class T> static void run(const char* name, int k0, int k1, long& bad, long& tot) {
  const int dens[] = {7, 3, 1, 5}; const int nums[] = {1, 3, 5, 7, -1, -5};
  const unsigned dirs[] = {0, 1, 8, 9, 6};
  for (int k = k0; k <= k1; ++k) for (int di = 0; di < 4; ++di) for (int ni = 0; ni < 6; ++ni) for (int r = 0; r < 5; ++r) {
    mpz_class den(dens[di]); den <<= k; mpq_class q(mpz_class(nums[ni]), den); q.canonicalize();
    T to; Result res = assign_r(to, q, (Rounding_Dir)dirs[r]); ++tot;
    mpq_class s = q_of(to); int ord = cmp(q, s); unsigned rel = res & 7u, rd = dirs[r] & 7u;
    bool ok = (ord < 0 && (rel & 2)) || (ord == 0 && (rel & 1)) || (ord > 0 && (rel & 4));
    if (rd == 1 && ord > 0) ok = false; if (rd == 0 && ord < 0) ok = false;
    // optimality: neighbour on the exact side must be on the other side of q
    bool opt = true;
    if (rd == 1 && ord < 0) { T n = std::nextafter(to, -std::numeric_limits<T>::infinity()); if (q_of(n) >= q) opt = false; }
    if (rd == 0 && ord > 0) { T n = std::nextafter(to, std::numeric_limits<T>::infinity()); if (q_of(n) <= q) opt = false; }
    if (!ok || !opt) { if (bad < 12) printf("%s %d/(%d*2^%d) dir=%u -> %Lg (exact %g) result=%d %s\n", name, nums[ni], dens[di], k, dirs[r], (long double)to, q.get_d(), (int)res, ok ? "NOT-OPTIMAL" : "WRONG"); ++bad; }
  }
}
int main() {
  long bad = 0, tot = 0;
  run<float>("float", 120, 156, bad, tot); printf("float: %ld bad of %ld\n", bad, tot); bad = tot = 0;
  run<double>("double", 1016, 1082, bad, tot); printf("double: %ld bad of %ld\n", bad, tot); bad = tot = 0;
  run<long double>("long double", 16376, 16452, bad, tot); printf("long double: %ld bad of %ld\n", bad, tot);
  return 0;
}

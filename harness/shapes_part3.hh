// shapes.cc part 3: queries (exact expectation for C04, "definite answers are true" for C03).
namespace {

static std::string rel_con_str(const PPL::Poly_Con_Relation& r) {
  std::string s;
  if (r.implies(PPL::Poly_Con_Relation::is_disjoint())) s += "D";
  if (r.implies(PPL::Poly_Con_Relation::strictly_intersects())) s += "X";
  if (r.implies(PPL::Poly_Con_Relation::is_included())) s += "I";
  if (r.implies(PPL::Poly_Con_Relation::saturates())) s += "S";
  return s.empty() ? "-" : s;
}
static std::string ref_rel_con(const Cell& v, const Row& c) {
  if (ref::is_empty(v)) return "DIS";
  Cell m = v; m.rows.push_back(c);
  bool disj = ref::is_empty(m);
  bool incl = ref::implies(v, c);
  Row h = c; h.k = ref::EQ;
  bool sat = ref::implies(v, h);
  std::string s;
  if (disj) s += "D";
  if (!disj && !incl) s += "X";
  if (incl) s += "I";
  if (sat) s += "S";
  return s.empty() ? "-" : s;
}
// relation with a proper congruence e = 0 (mod m): "D", "X" or "IS_or_I"
static std::string ref_rel_cong(const Cell& v, const ZE& e, long m) {
  if (ref::is_empty(v)) return "DIS";
  ref::Sup hi = ref::sup(v, e.vec(v.n), e.q0()), lo = ref::inf(v, e.vec(v.n), e.q0());
  if (hi.status == 1 && lo.status == 1 && hi.value == lo.value) { Q t = hi.value / m; return t.get_den() == 1 ? "IS_or_I" : "D"; }
  if (lo.status == 2 || hi.status == 2) return "X";
  Q t = lo.value / m;
  mpz_class k; mpz_fdiv_q(k.get_mpz_t(), t.get_num().get_mpz_t(), t.get_den().get_mpz_t());
  if (Q(k) < t) k += 1;
  if (Q(k) == t && !lo.attained) k += 1;
  Q cand = Q(k) * m;
  bool inside = cand < hi.value || (cand == hi.value && hi.attained);
  return inside ? "X" : "D";
}

struct QArgs { std::string fam; ZE e; long m; ZC c; bool wp, maxi; QArgs() : m(0), wp(false), maxi(false) {} };
struct Query {
  std::string name; bool binary; bool terminal; QArgs args;
  std::function<bool(const Ctx&)> ok;
  std::function<std::string(D&, const D*)> run;
  std::function<std::string(const Cell&, const Cell*)> expect;                           // exact answer (C04)
  std::function<bool(const std::string&, const Cell&, const Cell*)> sound;              // C03: definite content of the answer is true
  std::function<std::string(const std::string&, const Cell&)> witness;                  // optional extra check (C04), "" if fine
  Query() : binary(false), terminal(false) {}
};
static std::vector<Query> QS;
static Vec LAST_WITNESS; static char LAST_WITNESS_T = 0;

static bool has(const std::string& s, char c) { return s.find(c) != std::string::npos; }
static std::vector<std::string> split(const std::string& s, char c) { std::vector<std::string> o; std::string cur; for (char ch : s) { if (ch == c) { o.push_back(cur); cur.clear(); } else cur += ch; } o.push_back(cur); return o; }

static std::string maxmin_run(D& p, const ZE& e, bool maxi, bool with_point) {
  Coefficient n, d; bool incl;
  PPL::Generator g = PPL::point();
  bool b;
  Linear_Expression le = e.ppl();
  if (with_point) b = maxi ? p.maximize(le, n, d, incl, g) : p.minimize(le, n, d, incl, g);
  else b = maxi ? p.maximize(le, n, d, incl) : p.minimize(le, n, d, incl);
  if (!b) return "false";
  Q v(to_q(n).get_num(), to_q(d).get_num()); v.canonicalize();
  std::string s = "true," + qstr(v) + "," + (incl ? "incl" : "notincl");
  if (with_point) {
    int dim = p.space_dimension();
    ref::Gen w = gen_of(g, dim);
    Q val = e.q0(); for (int i = 0; i < dim; ++i) val += (i < (int)e.a.size() ? Q(e.a[i]) : Q(0)) * w.v[i];
    s += std::string(",wit:") + (val == v ? "attains" : "WRONGVALUE") + "," + ((w.t == 'p' || w.t == 'c') ? "point" : "NOTAPOINT");
    LAST_WITNESS = w.v; LAST_WITNESS_T = w.t;
  }
  return s;
}

static void build_queries() {
  // T: a "true" answer is definite; F: a "false" answer is definite
  auto simple = [](const char* n, bool terminal, char definite, std::function<bool(D&)> f, std::function<bool(const Cell&)> r) {
    Query q; q.name = n; q.terminal = terminal; q.ok = [](const Ctx&) { return true; };
    q.run = [f](D& p, const D*) { return std::string(f(p) ? "true" : "false"); };
    q.expect = [r](const Cell& v, const Cell*) { return std::string(r(v) ? "true" : "false"); };
    q.sound = [r, definite](const std::string& got, const Cell& v, const Cell*) {
      if (definite == 'T' && got == "true") return r(v);
      if (definite == 'F' && got == "false") return !r(v);
      return true; };
    QS.push_back(q);
  };
  simple("is_empty", true, 'T', [](D& p) { return p.is_empty(); }, [](const Cell& v) { return ref::is_empty(v); });
  simple("is_universe", true, 'T', [](D& p) { return p.is_universe(); }, [](const Cell& v) { return !ref::is_empty(v) && ref::normalized(v).rows.empty(); });
  simple("is_bounded", true, 'T', [](D& p) { return p.is_bounded(); }, [](const Cell& v) {
    if (ref::is_empty(v)) return true;
    for (int i = 0; i < v.n; ++i) { if (ref::sup(v, ref::unit(v.n, i), Q(0)).status != 1) return false; if (ref::inf(v, ref::unit(v.n, i), Q(0)).status != 1) return false; }
    return true; });
  simple("is_topologically_closed", false, 'T', [](D& p) { return p.is_topologically_closed(); }, [](const Cell& v) { return ref::is_empty(v) || ref::subset(ref::closure(v), v); });
  simple("is_discrete", false, 'T', [](D& p) { return p.is_discrete(); }, [](const Cell& v) { return ref::is_empty(v) || ref::affine_dimension(v) == 0; });
  { Query q; q.name = "affine_dimension"; q.terminal = true; q.ok = [](const Ctx&) { return true; };
    q.run = [](D& p, const D*) { return std::to_string(p.affine_dimension()); };
    q.expect = [](const Cell& v, const Cell*) { int d = ref::affine_dimension(v); return std::to_string(d < 0 ? 0 : d); };
    q.sound = [](const std::string& got, const Cell& v, const Cell*) { int d = ref::affine_dimension(v); if (d < 0) return true; return atoi(got.c_str()) >= d; };
    QS.push_back(q); }
  for (int v = 0; v < CFG.maxdim; ++v) {
    Query q; q.name = "constrains(" + vname(v) + ")"; q.ok = [v](const Ctx& x) { return v < x.dim; };
    q.run = [v](D& p, const D*) { return std::string(p.constrains(Variable(v)) ? "true" : "false"); };
    q.expect = [v](const Cell& c, const Cell*) { if (ref::is_empty(c)) return std::string("true"); std::vector<int> vs(1, v); return std::string(ref::subset(ref::unconstrain(c, vs), c) ? "false" : "true"); };
    q.sound = [v](const std::string& got, const Cell& c, const Cell*) { if (got == "true" || ref::is_empty(c)) return true; std::vector<int> vs(1, v); return ref::subset(ref::unconstrain(c, vs), c); };
    QS.push_back(q);
  }
  // relation_with(constraint): the probes RM (expressible or not, strict or not)
  for (size_t i = 0; i < RM.size(); ++i) {
    ZC c = RM[i];
    if (!CFG.thorough && !CFG.c04 && i % 2 == 1 && i < BM.size()) continue;
    Query q; q.name = "relation_with(" + c.str() + ")"; q.ok = [c](const Ctx& x) { return fits(c.e, x.dim); };
    q.args.fam = "relcon"; q.args.c = c;
    q.run = [c](D& p, const D*) { return rel_con_str(p.relation_with(c.ppl())); };
    q.expect = [c](const Cell& v, const Cell*) { return ref_rel_con(v, c.row(v.n)); };
    q.sound = [c](const std::string& got, const Cell& v, const Cell*) {
      if (ref::is_empty(v)) return true;
      Row r = c.row(v.n); Cell m = v; m.rows.push_back(r);
      if (has(got, 'D') && !ref::is_empty(m)) return false;
      if (has(got, 'I') && !ref::implies(v, r)) return false;
      Row h = r; h.k = ref::EQ;
      if (has(got, 'S') && !ref::implies(v, h)) return false;
      if (has(got, 'X') && EXACT_T && (ref::is_empty(m) || ref::implies(v, r))) return false;
      return true; };
    QS.push_back(q);
  }
  // relation_with(generator)
  {
    std::vector<GN> rg = { GN('p', {0, 0}), GN('p', {1, 0}), GN('p', {1, 1}, 2), GN('p', {-1, 2}), GN('p', {1, 4}, 3), GN('p', {2, 2}), GN('p', {0, -3}, 2),
                           GN('r', {1, 0}), GN('r', {0, -1}), GN('r', {1, 1}), GN('r', {-1, 1}), GN('l', {1, 0}), GN('l', {1, -1}), GN('l', {0, 1}), GN('c', {0, 0}), GN('c', {1, 1}, 2) };
    if (CFG.maxdim >= 3) { rg.push_back(GN('p', {0, 0, 1})); rg.push_back(GN('r', {0, 1, 1})); rg.push_back(GN('l', {1, 0, -1})); }
    for (size_t i = 0; i < rg.size(); ++i) {
      GN g = rg[i];
      auto fitsg = [](const GN& g, int dim) { for (size_t k = dim; k < g.v.size(); ++k) if (g.v[k]) return false; return true; };
      auto truncg = [](const GN& g, int dim) { GN o = g; o.v.resize(dim); return o; };
      Query q; q.name = "relation_with(" + g.str() + ")";
      q.ok = [g, fitsg, truncg](const Ctx& x) { return x.dim >= 1 && fitsg(g, x.dim) && (g.t == 'p' || g.t == 'c' || !truncg(g, x.dim).zero()); };
      q.run = [g, truncg](D& p, const D*) { PPL::Poly_Gen_Relation r = p.relation_with(truncg(g, p.space_dimension()).ppl()); return std::string(r.implies(PPL::Poly_Gen_Relation::subsumes()) ? "subsumes" : "nothing"); };
      auto subs = [g, truncg](const Cell& v) {
        if (ref::is_empty(v)) return false;
        ref::Gen gg = truncg(g, v.n).gen(v.n);
        if (gg.t == 'c') {  // a closure point is subsumed iff it belongs to the closure
          Cell cl = ref::closure(v); return ref::member(cl, gg.v); }
        if (gg.t == 'p') return ref::member(v, gg.v);
        Cell w = ref::add_generator(v, gg, true);
        return ref::subset(w, v); };
      q.expect = [subs](const Cell& v, const Cell*) { return std::string(subs(v) ? "subsumes" : "nothing"); };
      q.sound = [subs](const std::string& got, const Cell& v, const Cell*) { return got != "subsumes" || subs(v); };
      QS.push_back(q);
    }
  }
  // relation_with(congruence)
  {
    struct CG { ZE e; long m; };
    std::vector<CG> cgs = { {ZE({1, 0}, 0), 1}, {ZE({1, 0}, 0), 2}, {ZE({1, 1}, 0), 2}, {ZE({1, -1}, 1), 3}, {ZE({0, 1}, -1), 2}, {ZE({2, 0}, 1), 2}, {ZE({}, 1), 2}, {ZE({}, 2), 2}, {ZE({1, 0}, -1), 0}, {ZE({1, -1}, 0), 0}, {ZE({2, 1}, 0), 0} };
    for (size_t i = 0; i < cgs.size(); ++i) {
      CG g = cgs[i];
      Query q; q.name = "relation_with(" + g.e.str() + "=0 mod " + std::to_string(g.m) + ")"; q.ok = [g](const Ctx& x) { return fits(g.e, x.dim); };
      q.args.fam = "relcong"; q.args.e = g.e; q.args.m = g.m;
      q.run = [g](D& p, const D*) { return rel_con_str(p.relation_with((g.e.ppl() %= 0) / Coefficient(g.m))); };
      q.expect = [g](const Cell& v, const Cell*) {
        if (g.m == 0) return ref_rel_con(v, Row(g.e.vec(v.n), g.e.q0(), ref::EQ));
        if (g.e.nvars() == 0) { if (ref::is_empty(v)) return std::string("DIS"); return std::string((g.e.b % g.m) == 0 ? "IS_or_I" : "D"); }
        return ref_rel_cong(v, g.e, g.m); };
      q.sound = [g](const std::string& got, const Cell& v, const Cell*) {
        if (ref::is_empty(v)) return true;
        std::string ex;
        if (g.m == 0) ex = ref_rel_con(v, Row(g.e.vec(v.n), g.e.q0(), ref::EQ));
        else if (g.e.nvars() == 0) ex = (g.e.b % g.m) == 0 ? "IS" : "D";
        else ex = ref_rel_cong(v, g.e, g.m);
        if (has(got, 'D') && !has(ex, 'D')) return false;
        if ((has(got, 'I') || has(got, 'S')) && !has(ex, 'I')) return false;
        if (has(got, 'X') && EXACT_T && !has(ex, 'X')) return false;
        return true; };
      QS.push_back(q);
    }
  }
  // bounds / maximize / minimize / frequency
  {
    std::vector<size_t> eidx = {0, 1, 2, 10, 11, 12, 14, 15, 17, 3};
    for (size_t k = 21; k < EM.size() && k < 24; ++k) eidx.push_back(k);
    for (size_t ei : eidx) {
      ZE e = EM[ei];
      for (int up = 0; up < 2; ++up) {
        Query q; q.name = std::string(up ? "bounds_from_above(" : "bounds_from_below(") + e.str() + ")"; q.ok = [e](const Ctx& x) { return fits(e, x.dim); };
        q.run = [e, up](D& p, const D*) { return std::string((up ? p.bounds_from_above(e.ppl()) : p.bounds_from_below(e.ppl())) ? "true" : "false"); };
        auto bnd = [e, up](const Cell& v) { if (ref::is_empty(v)) return true; ref::Sup s = up ? ref::sup(v, e.vec(v.n), e.q0()) : ref::inf(v, e.vec(v.n), e.q0()); return s.status == 1; };
        q.expect = [bnd](const Cell& v, const Cell*) { return std::string(bnd(v) ? "true" : "false"); };
        q.sound = [bnd](const std::string& got, const Cell& v, const Cell*) { return got != "true" || bnd(v); };
        QS.push_back(q);
      }
      for (int maxi = 0; maxi < 2; ++maxi) for (int wp = 0; wp < 2; ++wp) {
        Query q; q.name = std::string(maxi ? "maximize(" : "minimize(") + e.str() + (wp ? ",point)" : ")"); q.ok = [e](const Ctx& x) { return fits(e, x.dim); };
        q.args.fam = "maxmin"; q.args.e = e; q.args.wp = wp; q.args.maxi = maxi;
        q.run = [e, maxi, wp](D& p, const D*) { return maxmin_run(p, e, maxi, wp); };
        q.expect = [e, maxi, wp](const Cell& v, const Cell*) {
          if (ref::is_empty(v)) return std::string("false");
          ref::Sup s = maxi ? ref::sup(v, e.vec(v.n), e.q0()) : ref::inf(v, e.vec(v.n), e.q0());
          if (s.status != 1) return std::string("false");
          std::string r = "true," + qstr(s.value) + "," + (s.attained ? "incl" : "notincl");
          if (wp) r += ",wit:attains,point";
          return r; };
        q.sound = [e, maxi](const std::string& got, const Cell& v, const Cell*) {
          if (got == "false" || ref::is_empty(v)) return true;
          ref::Sup s = maxi ? ref::sup(v, e.vec(v.n), e.q0()) : ref::inf(v, e.vec(v.n), e.q0());
          if (s.status != 1) return false;
          std::vector<std::string> f = split(got, ',');
          Q g(f[1]); g.canonicalize();
          return maxi ? g >= s.value : g <= s.value; };
        if (wp) q.witness = [](const std::string& got, const Cell& v) -> std::string {
          if (got.compare(0, 4, "true") != 0) return "";
          bool incl = got.find(",incl") != std::string::npos;
          if ((int)LAST_WITNESS.size() != v.n) return "witness:wrong-dimension";
          if (incl ? !ref::member(v, LAST_WITNESS) : !ref::member(ref::closure(v), LAST_WITNESS)) return "witness:not-in-the-set";
          return ""; };
        QS.push_back(q);
      }
      if (ei == 0 || ei == 10 || ei == 11 || ei == 14) {
        Query q; q.name = "frequency(" + e.str() + ")"; q.ok = [e](const Ctx& x) { return fits(e, x.dim); };
        q.run = [e](D& p, const D*) {
          Coefficient fn, fd, vn, vd;
          if (!p.frequency(e.ppl(), fn, fd, vn, vd)) return std::string("false");
          Q v(to_q(vn).get_num(), to_q(vd).get_num()); v.canonicalize();
          return "true,freq=" + qstr(to_q(fn)) + ",val=" + qstr(v); };
        q.expect = [e](const Cell& v, const Cell*) {
          if (ref::is_empty(v)) return std::string("false");
          ref::Sup hi = ref::sup(v, e.vec(v.n), e.q0()), lo = ref::inf(v, e.vec(v.n), e.q0());
          if (hi.status == 1 && lo.status == 1 && hi.value == lo.value) return "true,freq=0,val=" + qstr(hi.value);
          return std::string("false"); };
        q.sound = [e](const std::string& got, const Cell& v, const Cell*) {
          if (got == "false" || ref::is_empty(v)) return true;
          ref::Sup hi = ref::sup(v, e.vec(v.n), e.q0()), lo = ref::inf(v, e.vec(v.n), e.q0());
          return hi.status == 1 && lo.status == 1 && hi.value == lo.value && got == "true,freq=0,val=" + qstr(hi.value); };
        QS.push_back(q);
      }
    }
  }
  // binary predicates
  struct BP { const char* n; std::function<bool(D&, const D&)> f; std::function<bool(const Cell&, const Cell&)> r; std::function<bool(bool, const Cell&, const Cell&)> s; };
  std::vector<BP> bps = {
    {"contains", [](D& p, const D& q) { return p.contains(q); }, [](const Cell& a, const Cell& b) { return ref::subset(b, a); },
      [](bool got, const Cell& a, const Cell& b) { return !got || ref::subset(b, a); }},
    {"strictly_contains", [](D& p, const D& q) { return p.strictly_contains(q); }, [](const Cell& a, const Cell& b) { return ref::subset(b, a) && !ref::subset(a, b); },
      [](bool got, const Cell& a, const Cell& b) { return !got || ref::subset(b, a); }},
    {"is_disjoint_from", [](D& p, const D& q) { return p.is_disjoint_from(q); }, [](const Cell& a, const Cell& b) { return ref::is_empty(ref::meet(a, b)); },
      [](bool got, const Cell& a, const Cell& b) { return !got || ref::is_empty(ref::meet(a, b)); }},
    {"operator==", [](D& p, const D& q) { return p == q; }, [](const Cell& a, const Cell& b) { return ref::equal(a, b); },
      [](bool got, const Cell& a, const Cell& b) { return !got || ref::equal(a, b); }},
    {"operator!=", [](D& p, const D& q) { return p != q; }, [](const Cell& a, const Cell& b) { return !ref::equal(a, b); },
      [](bool got, const Cell& a, const Cell& b) { return got || ref::equal(a, b); }},
  };
  for (size_t i = 0; i < bps.size(); ++i) {
    BP b = bps[i];
    Query q; q.name = b.n; q.binary = true; q.ok = [](const Ctx& x) { return x.odim == x.dim; };
    q.run = [b](D& p, const D* o) { return std::string(b.f(p, *o) ? "true" : "false"); };
    q.expect = [b](const Cell& v, const Cell* o) { return std::string(b.r(v, *o) ? "true" : "false"); };
    q.sound = [b](const std::string& got, const Cell& v, const Cell* o) { return b.s(got == "true", v, *o); };
    QS.push_back(q);
  }
}

} // namespace
#include "harness/shapes_part4.hh"

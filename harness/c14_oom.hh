// C14 part 2: scenario protocol shared by harness/c14_oom.cc (driver) and harness/c14_scn_*.cc (scenarios).
//
// A scenario is a function  void fn(Run& r)  that
//   1. builds its objects (not faulted, but inside the accounting window: they must all be gone at return),
//   2. calls  faulted(r, [&]{ ...library calls... })  exactly once: inside it the injector is armed
//      (allocation k throws std::bad_alloc / checkpoint k abandons / nothing, depending on r.mode),
//   3. whatever happened, checks that every object involved is still usable (usable(r, x, fresh, "x")),
//   4. lets everything be destroyed by leaving the function.
// The driver compares the number of live blocks before and after.
#ifndef VERIF_C14_OOM_HH
#define VERIF_C14_OOM_HH 1

#include "engine/ppl_ref.hh"
#include "engine/common.hh"
#include <stdexcept>
#include <new>
#include <typeinfo>

namespace c14 {

using namespace Parma_Polyhedra_Library;

enum Mode { DRY = 0, ALLOC = 1, ABANDON = 2, OVERFLOW = 3 };
enum Caught { C_NONE = 0, C_BAD_ALLOC, C_ABANDON, C_OVERFLOW, C_OTHER_STD, C_UNKNOWN };

struct Abandon : public Throwable {
  void throw_me() const { throw *this; }
};

struct Run {
  Mode mode;
  unsigned long k;          // ALLOC: index of the failing allocation; ABANDON: index of the checkpoint
  // results
  bool entered;             // faulted() was reached
  bool completed;           // the faulted region returned normally
  Caught caught;
  char what[200];
  unsigned long allocs;     // allocation requests seen inside the faulted region
  unsigned long checkpoints;
  bool fired;               // the fault was actually delivered inside the faulted region
  int n_problems;
  char clause[4][40];
  char detail[4][240];
  void reset(Mode m, unsigned long k_) {
    mode = m; k = k_; entered = completed = fired = false; caught = C_NONE; what[0] = 0;
    allocs = checkpoints = 0; n_problems = 0;
  }
  void problem(const char* cl, const std::string& d) {
    if (n_problems >= 4) return;
    snprintf(clause[n_problems], sizeof clause[0], "%s", cl);
    snprintf(detail[n_problems], sizeof detail[0], "%s", d.c_str());
    ++n_problems;
  }
};

// implemented in c14_oom.cc (the TU that includes engine/faults.hh)
void set_phase(int p);   // 0: scenario body, 1: inspecting the object left behind by the exceptional exit, 2: re-assignment and later
void region_begin(Run& r);
void region_end(Run& r);

// scale factor applied by the state builders to the numeric data (1 in the plain runs; a ladder of
// values in the coefficient-overflow runs; a multi-limb value in the "big" runs)
Coefficient& MAG();
inline Coefficient K(long v) { Coefficient c(v); c *= MAG(); return c; }

// with bounded (checked native) coefficients any operation may legitimately end in std::overflow_error,
// including the well-formed ones used by the post-checks
inline bool bounded_coefficients() { return sizeof(Coefficient) < sizeof(mpz_class); }

template <typename Body>
inline void faulted(Run& r, Body body) {
  r.entered = true;
  region_begin(r);
  try { body(); region_end(r); r.completed = true; }
  catch (const std::bad_alloc&) { region_end(r); r.caught = C_BAD_ALLOC; }
  catch (const Abandon&) { region_end(r); r.caught = C_ABANDON; }
  catch (const std::overflow_error& e) { region_end(r); r.caught = C_OVERFLOW; snprintf(r.what, sizeof r.what, "%s", e.what()); }
  catch (const std::exception& e) { region_end(r); r.caught = C_OTHER_STD; snprintf(r.what, sizeof r.what, "%s: %s", typeid(e).name(), e.what()); }
  catch (...) { region_end(r); r.caught = C_UNKNOWN; }
}

// ---- "can still be used": one well-formed operation per type --------------------------------
inline void exercise(C_Polyhedron& x) {
  if (x.space_dimension() > 0) x.add_constraint(Variable(0) >= -100);
  (void) x.minimized_generators(); (void) x.minimized_constraints(); (void) x.is_empty();
}
inline void exercise(NNC_Polyhedron& x) {
  if (x.space_dimension() > 0) x.add_constraint(Variable(0) > -100);
  (void) x.minimized_generators(); (void) x.minimized_constraints(); (void) x.is_empty();
}
inline void exercise(Grid& x) {
  if (x.space_dimension() > 0) x.add_congruence((Variable(0) %= 0) / 1);
  (void) x.minimized_grid_generators(); (void) x.minimized_congruences(); (void) x.is_empty();
}
inline void exercise(Rational_Box& x) {
  if (x.space_dimension() > 0) x.add_constraint(Variable(0) >= -100);
  (void) x.is_empty(); (void) x.minimized_constraints();
}
inline void exercise(BD_Shape<mpq_class>& x) {
  if (x.space_dimension() > 0) x.add_constraint(Variable(0) >= -100);
  (void) x.is_empty(); (void) x.minimized_constraints();
}
inline void exercise(Octagonal_Shape<mpq_class>& x) {
  if (x.space_dimension() > 0) x.add_constraint(Variable(0) >= -100);
  (void) x.is_empty(); (void) x.minimized_constraints();
}
inline void exercise(Pointset_Powerset<C_Polyhedron>& x) {
  if (x.space_dimension() > 0) x.add_constraint(Variable(0) >= -100);
  x.omega_reduce(); (void) x.is_empty(); (void) x.size();
}
inline void exercise(Pointset_Powerset<NNC_Polyhedron>& x) {
  if (x.space_dimension() > 0) x.add_constraint(Variable(0) >= -100);
  x.omega_reduce(); (void) x.is_empty(); (void) x.size();
}
inline void exercise(MIP_Problem& x) { (void) x.is_satisfiable(); (void) x.solve(); }
inline void exercise(PIP_Problem& x) { (void) x.solve(); }
inline void exercise(Constraint_System& x) { x.insert(Variable(0) >= 0); (void) x.space_dimension(); }
inline void exercise(Generator_System& x) { x.insert(point(Variable(0))); (void) x.space_dimension(); }
inline void exercise(Congruence_System& x) { x.insert((Variable(0) %= 0) / 2); (void) x.space_dimension(); }
inline void exercise(Linear_Expression& x) { x += Variable(0); x *= 2; (void) x.space_dimension(); }
inline void exercise(Dense_Row& x) { x.resize(x.size() + 1); x[0] = 1; }
inline void exercise(Sparse_Row& x) { x.resize(x.size() + 1); x.insert(0, Coefficient(1)); }
inline void exercise(CO_Tree& x) { x.insert(0, Coefficient(1)); }
template <typename Row> inline void exercise(Matrix<Row>& x) { x.add_zero_rows_and_columns(1, 1); }
template <typename T> inline void exercise(Swapping_Vector<T>& x) { x.resize(x.size() + 1); }
inline void exercise(Bit_Matrix& x) { x.resize(x.num_rows() + 1, x.num_columns() + 1); }
inline void exercise(Bit_Row& x) { x.set(3); }

// (an OK() that throws is an OK() that fails)
inline bool bounded_coefficients();
template <typename T> inline bool ok_of(const T& x) {
  try { return x.OK(); }
  catch (const std::overflow_error&) { return bounded_coefficients(); }   // the check itself overflowed: no verdict on a bounded build
  catch (const std::exception&) { return false; }
}
template <typename T> inline bool ok_of(const Swapping_Vector<T>&) { return true; }

template <typename T> inline bool same(const T& x, const T& y) { return x == y; }
inline bool same(const MIP_Problem& x, const MIP_Problem& y) { return vf::dump_of(x) == vf::dump_of(y); }
inline bool same(const PIP_Problem& x, const PIP_Problem& y) { return vf::dump_of(x) == vf::dump_of(y); }
inline bool same(const CO_Tree& x, const CO_Tree& y) {
  if (x.size() != y.size()) return false;
  CO_Tree::const_iterator i = x.begin(), j = y.begin();
  for (; i != x.end(); ++i, ++j) if (i.index() != j.index() || *i != *j) return false;
  return true;
}
template <typename T> inline bool same(const Swapping_Vector<T>& x, const Swapping_Vector<T>& y) {
  if (x.size() != y.size()) return false;
  for (dimension_type i = 0; i < x.size(); ++i) if (!(x[i] == y[i])) return false;
  return true;
}
inline bool same(const Constraint_System& x, const Constraint_System& y) { return vf::dump_of(x) == vf::dump_of(y); }
inline bool same(const Generator_System& x, const Generator_System& y) { return vf::dump_of(x) == vf::dump_of(y); }
inline bool same(const Congruence_System& x, const Congruence_System& y) { return vf::dump_of(x) == vf::dump_of(y); }
inline bool same(const Linear_Expression& x, const Linear_Expression& y) { return x.is_equal_to(y); }
inline bool same(const Bit_Row& x, const Bit_Row& y) { return x == y; }

template <typename T> inline void assign_from(T& x, const T& y) { x = y; }

// After the faulted region, for objects of the public domain / solver / syntactic classes: x (whatever
// its value is now) passes OK() and can be used as it is; it can be assigned to from `fresh` (an object
// built before the region), then equals it, passes OK(), and gives the same result under a well-formed
// operation as a copy of `fresh` does.
// For the internal containers (strict = false) nothing is promised about the value left behind by an
// exceptional exit, only that the object can be assigned to and destroyed: the checks start with the assignment.
template <typename T>
inline void usable(Run& r, T& x, const T& fresh, const char* nm, bool strict = true) {
  try {
    if (strict) {
      // the object as the exceptional exit left it: it must still be a valid object of its class
      set_phase(1);
      if (!ok_of(x)) r.problem("invalid_after_fault", std::string(nm) + ".OK() is false after the exceptional exit (before any re-assignment)");
      else {
        try {
          exercise(x);
          if (!ok_of(x)) r.problem("invalid_after_fault", std::string(nm) + ".OK() is false after a well-formed use following the exceptional exit");
        }
        catch (const std::overflow_error& e) { if (!bounded_coefficients()) r.problem("invalid_after_fault", std::string(nm) + ": a well-formed use following the exceptional exit throws std::overflow_error: " + e.what()); }
        catch (const std::exception& e) { r.problem("invalid_after_fault", std::string(nm) + ": a well-formed use following the exceptional exit throws " + typeid(e).name() + ": " + e.what()); }
      }
    }
    set_phase(2);
    assign_from(x, fresh);
    if (!ok_of(x)) r.problem("assign", std::string(nm) + ".OK() is false after assignment");
    if (!same(x, fresh)) r.problem("assign", std::string(nm) + " differs from the object assigned to it");
    T y(fresh);
    exercise(x); exercise(y);
    if (!ok_of(x)) r.problem("assign", std::string(nm) + ".OK() is false after assignment and a well-formed use");
    if (!same(x, y)) r.problem("assign", std::string(nm) + ": well-formed operation after re-assignment gives a different result than on a pristine copy");
  }
  catch (const std::overflow_error& e) { if (!bounded_coefficients()) r.problem("unusable", std::string(nm) + ": std::overflow_error in post-checks: " + e.what()); }
  catch (const std::exception& e) { r.problem("unusable", std::string(nm) + ": exception in post-checks: " + e.what()); }
  catch (...) { r.problem("unusable", std::string(nm) + ": unknown exception in post-checks"); }
}
template <typename T>
inline void usable_c(Run& r, T& x, const T& fresh, const char* nm) { usable(r, x, fresh, nm, false); }

// an operand that must not have changed at all (const argument of the faulted call)
template <typename T>
inline void untouched(Run& r, const T& y, const T& fresh, const char* nm) {
  try {
    if (!ok_of(y)) r.problem("not_ok", std::string(nm) + " (const operand).OK() is false");
    if (!same(y, fresh)) r.problem("operand_changed", std::string(nm) + " (const operand) changed value");
  }
  catch (const std::overflow_error&) { }
  catch (const std::exception& e) { r.problem("unusable", std::string(nm) + ": exception in post-checks: " + e.what()); }
}

struct Scenario {
  std::string name;   // unique
  std::string site;   // Class::operation
  int tier;           // 0: quick and thorough, 1: thorough only
  void (*fn)(Run&);
  std::function<void(Run&)> f;
};
std::vector<Scenario>& registry();
struct Reg {
  Reg(const char* name, const char* site, int tier, void (*fn)(Run&)) {
    Scenario s; s.name = name; s.site = site; s.tier = tier; s.fn = fn; registry().push_back(s);
  }
};
#define C14_CAT2(a, b) a##b
#define C14_CAT(a, b) C14_CAT2(a, b)
#define SCN(name, site, tier) \
  static void C14_CAT(scn_fn_, __LINE__)(Run& r); \
  static Reg C14_CAT(scn_reg_, __LINE__)(name, site, tier, &C14_CAT(scn_fn_, __LINE__)); \
  static void C14_CAT(scn_fn_, __LINE__)(Run& r)

} // namespace c14
#endif

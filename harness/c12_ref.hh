// C12: exact reference semantics for intervals over Q (GMP only, no PPL code).
// Written WITHOUT sign-case analysis: products are min/max over the endpoint combinations with the
// 0*inf = 0 convention, openness = "is the extremum attained by admissible endpoints".
#ifndef VERIF_C12_REF_HH
#define VERIF_C12_REF_HH 1
#include <gmpxx.h>
#include <string>
#include <vector>
#include <sstream>

namespace c12 {

typedef mpq_class Q;

struct RB {            // one bound
  int inf;             // -1 = -infinity, +1 = +infinity, 0 = finite
  Q v;
  bool open;
  RB() : inf(0), v(0), open(false) {}
};
inline RB fin(const Q& v, bool open) { RB b; b.v = v; b.open = open; return b; }
inline RB minf() { RB b; b.inf = -1; b.open = true; return b; }
inline RB pinf() { RB b; b.inf = 1; b.open = true; return b; }

inline int cmpv(const RB& a, const RB& b) {
  if (a.inf != b.inf) return a.inf < b.inf ? -1 : 1;
  if (a.inf) return 0;
  return cmp(a.v, b.v);
}
// order of lower bounds: smaller = admits more points
inline int cmp_lo(const RB& a, const RB& b) { int c = cmpv(a, b); if (c) return c; return (a.open ? 1 : 0) - (b.open ? 1 : 0); }
// order of upper bounds: larger = admits more points
inline int cmp_hi(const RB& a, const RB& b) { int c = cmpv(a, b); if (c) return c; return (a.open ? 0 : 1) - (b.open ? 0 : 1); }

struct RI {
  bool empty; RB lo, hi;
  RI() : empty(true) {}
};
inline RI mk(RB lo, RB hi) {
  RI r; r.empty = false;
  if (lo.inf) lo.open = true;
  if (hi.inf) hi.open = true;
  r.lo = lo; r.hi = hi;
  if (lo.inf == 1 || hi.inf == -1) r.empty = true;
  else { int c = cmpv(lo, hi); if (c > 0 || (c == 0 && (lo.open || hi.open))) r.empty = true; }
  if (r.empty) { r.lo = RB(); r.hi = RB(); }
  return r;
}
inline RI empty_ri() { return RI(); }
inline RI universe_ri() { return mk(minf(), pinf()); }
inline RI point_ri(const Q& q) { return mk(fin(q, false), fin(q, false)); }

inline bool has(const RI& i, const Q& q) {
  if (i.empty) return false;
  if (!i.lo.inf) { int c = cmp(q, i.lo.v); if (c < 0 || (c == 0 && i.lo.open)) return false; }
  if (!i.hi.inf) { int c = cmp(q, i.hi.v); if (c > 0 || (c == 0 && i.hi.open)) return false; }
  return true;
}
inline bool subset(const RI& a, const RI& b) {
  if (a.empty) return true;
  if (b.empty) return false;
  return cmp_lo(b.lo, a.lo) <= 0 && cmp_hi(a.hi, b.hi) <= 0;
}
inline bool equal(const RI& a, const RI& b) { return subset(a, b) && subset(b, a); }
inline bool is_singleton(const RI& a) { return !a.empty && !a.lo.inf && !a.hi.inf && a.lo.v == a.hi.v; }
inline bool is_universe(const RI& a) { return !a.empty && a.lo.inf && a.hi.inf; }
inline bool is_bounded(const RI& a) { return a.empty || (!a.lo.inf && !a.hi.inf); }

inline RI hull(const RI& a, const RI& b) {
  if (a.empty) return b;
  if (b.empty) return a;
  return mk(cmp_lo(a.lo, b.lo) <= 0 ? a.lo : b.lo, cmp_hi(a.hi, b.hi) >= 0 ? a.hi : b.hi);
}
inline RI meet(const RI& a, const RI& b) {
  if (a.empty || b.empty) return empty_ri();
  return mk(cmp_lo(a.lo, b.lo) >= 0 ? a.lo : b.lo, cmp_hi(a.hi, b.hi) <= 0 ? a.hi : b.hi);
}
inline RB negb(const RB& b) { RB r = b; r.inf = -b.inf; r.v = -b.v; return r; }
inline RI neg(const RI& a) { if (a.empty) return a; return mk(negb(a.hi), negb(a.lo)); }
inline RB addb(const RB& a, const RB& b) {   // same-side bounds only
  RB r;
  if (a.inf || b.inf) { r.inf = a.inf ? a.inf : b.inf; r.open = true; return r; }
  r.v = a.v + b.v; r.open = a.open || b.open; return r;
}
inline RI add(const RI& a, const RI& b) { if (a.empty || b.empty) return empty_ri(); return mk(addb(a.lo, b.lo), addb(a.hi, b.hi)); }
inline RI sub(const RI& a, const RI& b) { return add(a, neg(b)); }

// product of two endpoints: value (extended) + "attained by admissible points"
struct Prod { int inf; Q v; bool att; };
inline Prod prodb(const RB& a, const RB& b) {
  Prod p; p.inf = 0; p.v = 0;
  bool a0 = !a.inf && a.v == 0, b0 = !b.inf && b.v == 0;
  bool aatt = !a.inf && !a.open, batt = !b.inf && !b.open;
  if (a0 || b0) { p.att = (aatt && a0) || (batt && b0); return p; }   // 0 * anything (even inf) = 0
  int sa = a.inf ? a.inf : sgn(a.v), sb = b.inf ? b.inf : sgn(b.v);
  if (a.inf || b.inf) { p.inf = sa * sb; p.att = false; return p; }
  p.v = a.v * b.v; p.att = aatt && batt; return p;
}
inline int cmpp(const Prod& a, const Prod& b) {
  if (a.inf != b.inf) return a.inf < b.inf ? -1 : 1;
  if (a.inf) return 0;
  return cmp(a.v, b.v);
}
inline RI mul(const RI& a, const RI& b) {
  if (a.empty || b.empty) return empty_ri();
  Prod c[4] = { prodb(a.lo, b.lo), prodb(a.lo, b.hi), prodb(a.hi, b.lo), prodb(a.hi, b.hi) };
  int mn = 0, mx = 0;
  for (int k = 1; k < 4; ++k) { if (cmpp(c[k], c[mn]) < 0) mn = k; if (cmpp(c[k], c[mx]) > 0) mx = k; }
  bool mnatt = false, mxatt = false;
  for (int k = 0; k < 4; ++k) { if (cmpp(c[k], c[mn]) == 0 && c[k].att) mnatt = true; if (cmpp(c[k], c[mx]) == 0 && c[k].att) mxatt = true; }
  RB lo, hi;
  lo.inf = c[mn].inf; lo.v = c[mn].v; lo.open = !mnatt;
  hi.inf = c[mx].inf; hi.v = c[mx].v; hi.open = !mxatt;
  return mk(lo, hi);
}
// reciprocal of an interval lying entirely on one side of 0 (0 possibly an open endpoint)
inline RI recip_onesided(const RI& c, int side) {
  if (c.empty) return c;
  RB lo, hi;
  // new lower = 1/upper, new upper = 1/lower
  const RB* src[2] = { &c.hi, &c.lo };
  RB* dst[2] = { &lo, &hi };
  for (int k = 0; k < 2; ++k) {
    const RB& s = *src[k]; RB& d = *dst[k];
    if (s.inf) { d.inf = 0; d.v = 0; d.open = true; }
    else if (s.v == 0) { d.inf = side; d.open = true; }
    else { d.inf = 0; d.v = 1 / s.v; d.open = s.open; }
  }
  return mk(lo, hi);
}
// exact hull of { a/b : a in A, b in B, b != 0 }; *straddle tells whether B has points on both sides of 0
inline RI div(const RI& a, const RI& b, bool* straddle = 0) {
  if (straddle) *straddle = false;
  if (a.empty || b.empty) return empty_ri();
  RI bn = meet(b, mk(minf(), fin(0, true))), bp = meet(b, mk(fin(0, true), pinf()));
  if (straddle) *straddle = !bn.empty && !bp.empty;
  RI r1 = bn.empty ? empty_ri() : mul(a, recip_onesided(bn, -1));
  RI r2 = bp.empty ? empty_ri() : mul(a, recip_onesided(bp, 1));
  return hull(r1, r2);
}
// hull of A \ B
inline RI difference(const RI& a, const RI& b) {
  if (a.empty || b.empty) return a;
  RI below = b.lo.inf ? empty_ri() : meet(a, mk(minf(), fin(b.lo.v, !b.lo.open)));
  RI above = b.hi.inf ? empty_ri() : meet(a, mk(fin(b.hi.v, !b.hi.open), pinf()));
  return hull(below, above);
}
enum Rel { R_EQ = 0, R_LT, R_LE, R_GT, R_GE, R_NE, R_N };
inline const char* relname(int r) { static const char* n[] = { "EQ", "LT", "LE", "GT", "GE", "NE" }; return n[r]; }
// hull of { a in T | exists b in X : a rel b }
inline RI refine_exists(const RI& t, int rel, const RI& x) {
  if (x.empty || t.empty) return empty_ri();
  switch (rel) {
  case R_EQ: return meet(t, x);
  case R_LT: return meet(t, mk(minf(), x.hi.inf ? pinf() : fin(x.hi.v, true)));
  case R_LE: return meet(t, mk(minf(), x.hi));
  case R_GT: return meet(t, mk(x.lo.inf ? minf() : fin(x.lo.v, true), pinf()));
  case R_GE: return meet(t, mk(x.lo, pinf()));
  case R_NE: if (!is_singleton(x)) return t; return difference(t, x);
  }
  return empty_ri();
}
// hull of { a in T | forall b in X : a rel b }
inline RI refine_forall(const RI& t, int rel, const RI& x) {
  if (t.empty) return t;
  if (x.empty) return t;
  switch (rel) {
  case R_EQ: return is_singleton(x) ? meet(t, x) : empty_ri();
  case R_LT: return x.lo.inf ? empty_ri() : meet(t, mk(minf(), fin(x.lo.v, !x.lo.open)));
  case R_LE: return x.lo.inf ? empty_ri() : meet(t, mk(minf(), fin(x.lo.v, false)));
  case R_GT: return x.hi.inf ? empty_ri() : meet(t, mk(fin(x.hi.v, !x.hi.open), pinf()));
  case R_GE: return x.hi.inf ? empty_ri() : meet(t, mk(fin(x.hi.v, false), pinf()));
  case R_NE: return difference(t, x);
  }
  return empty_ri();
}
inline bool relholds(const Q& a, int rel, const Q& b) {
  int c = cmp(a, b);
  switch (rel) { case R_EQ: return c == 0; case R_LT: return c < 0; case R_LE: return c <= 0; case R_GT: return c > 0; case R_GE: return c >= 0; case R_NE: return c != 0; }
  return false;
}

inline std::string qstr(const Q& q) {
  std::string s = q.get_str();
  if (s.size() > 40) {   // huge numbers: abbreviate as sign*2^k style approximation
    std::ostringstream o; o << s.substr(0, 12) << "..(" << s.size() << " chars)"; return o.str();
  }
  return s;
}
inline std::string str(const RI& i) {
  if (i.empty) return "[]";
  std::string s = i.lo.open ? "(" : "[";
  s += i.lo.inf ? (i.lo.inf < 0 ? "-inf" : "+inf") : qstr(i.lo.v);
  s += ",";
  s += i.hi.inf ? (i.hi.inf < 0 ? "-inf" : "+inf") : qstr(i.hi.v);
  s += i.hi.open ? ")" : "]";
  return s;
}

// dense finite member set of an interval: endpoints, midpoint, +-eps neighbours, 0, small integers,
// large magnitudes on unbounded sides
inline std::vector<Q> members(const RI& i) {
  std::vector<Q> c, out;
  if (i.empty) return out;
  static Q big1(50), big2(1000003), huge, tiny;
  static bool init = false;
  if (!init) { mpz_class h; mpz_ui_pow_ui(h.get_mpz_t(), 2, 130); huge = Q(h); tiny = 1 / Q(h * h * h * h * h * h * h * h * h); init = true; }
  for (int k = -2; k <= 2; ++k) c.push_back(Q(k));
  c.push_back(Q(1, 3)); c.push_back(Q(-1, 3));
  if (!i.lo.inf && !i.hi.inf) {
    Q w = i.hi.v - i.lo.v;
    c.push_back(i.lo.v); c.push_back(i.hi.v); c.push_back((i.lo.v + i.hi.v) / 2);
    c.push_back(i.lo.v + w / 1024); c.push_back(i.hi.v - w / 1024);
    c.push_back(i.lo.v + w / 3);
  } else if (!i.lo.inf) {
    c.push_back(i.lo.v); c.push_back(i.lo.v + Q(1, 1024)); c.push_back(i.lo.v + tiny);
    c.push_back(i.lo.v + big1); c.push_back(i.lo.v + big2); c.push_back(i.lo.v + huge); c.push_back(abs(i.lo.v) * 3 + 1);
  } else if (!i.hi.inf) {
    c.push_back(i.hi.v); c.push_back(i.hi.v - Q(1, 1024)); c.push_back(i.hi.v - tiny);
    c.push_back(i.hi.v - big1); c.push_back(i.hi.v - big2); c.push_back(i.hi.v - huge); c.push_back(-abs(i.hi.v) * 3 - 1);
  } else {
    c.push_back(big1); c.push_back(-big1); c.push_back(huge); c.push_back(-huge); c.push_back(tiny); c.push_back(-tiny);
  }
  for (size_t k = 0; k < c.size(); ++k) {
    if (!has(i, c[k])) continue;
    bool dup = false;
    for (size_t m = 0; m < out.size(); ++m) if (out[m] == c[k]) { dup = true; break; }
    if (!dup) out.push_back(c[k]);
  }
  return out;
}

} // namespace c12
#endif

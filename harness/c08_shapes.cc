// C08 for the weakly relational domains and boxes:
//   BD_Shape<T>:        BHMZ05_widening_assign, H79_widening_assign, CC76_extrapolation_assign, limited_{BHMZ05,H79,CC76}_extrapolation_assign
//   Octagonal_Shape<T>: BHMZ05_widening_assign, CC76_extrapolation_assign, limited_{BHMZ05,CC76}_extrapolation_assign
//   Box<ITV>:           CC76_widening_assign, limited_CC76_extrapolation_assign
// Values are polyhedral: constraints() of the object are converted to a ref::Cell.  See harness/c08_common.hh.
#include "harness/c08_common.hh"

using namespace c08;
using PPL::Variable; using PPL::Linear_Expression; using PPL::Coefficient; using PPL::Constraint; using PPL::C_Polyhedron; using PPL::NNC_Polyhedron;

static Args ARGS;

static CN cn(long a, long b, long c, int k = ref::GE) { return CN(LE({a, b}, c), k); }
static CN cn1(long a, long c, int k = ref::GE) { return CN(LE({a}, c), k); }

struct Spec { std::string name; std::vector<CN> cs; int needs; };   // needs: 0 box, 1 bd, 2 octagon, +4: strict (boxes only)

static std::vector<Spec> menu_specs(int dim) {
  using ref::EQ; using ref::GT;
  std::vector<Spec> sp;
  if (dim == 2) {
    sp = {
      {"point(0,0)", {cn(1, 0, 0, EQ), cn(0, 1, 0, EQ)}, 0},
      {"box[0,1]^2", {cn(1, 0, 0), cn(-1, 0, 1), cn(0, 1, 0), cn(0, -1, 1)}, 0},
      {"diag-segment A=B in [0,2]", {cn(1, -1, 0, EQ), cn(1, 0, 0), cn(-1, 0, 2)}, 1},
      {"box[2,3]x[1,2]", {cn(1, 0, -2), cn(-1, 0, 3), cn(0, 1, -1), cn(0, -1, 2)}, 0},
      {"point(-1,3)", {cn(1, 0, 1, EQ), cn(0, 1, -3, EQ)}, 0},
      {"open-box(0,1)^2", {cn(1, 0, 0, GT), cn(-1, 0, 1, GT), cn(0, 1, 0, GT), cn(0, -1, 1, GT)}, 4},
      {"antidiag-segment A+B=2 in [0,2]", {cn(1, 1, -2, EQ), cn(1, 0, 0), cn(-1, 0, 2)}, 2},
      {"ray B=0,A>=0", {cn(0, 1, 0, EQ), cn(1, 0, 0)}, 0},
      {"point(1/2,-2)", {cn(2, 0, -1, EQ), cn(0, 1, 2, EQ)}, 0},
      {"band 0<=A-B<=1, 0<=A<=3", {cn(1, -1, 0), cn(-1, 1, 1), cn(1, 0, 0), cn(-1, 0, 3)}, 1},
      {"triangle A,B>=0, A+B<=4", {cn(1, 0, 0), cn(0, 1, 0), cn(-1, -1, 4)}, 2},
      {"halfopen-box[0,2)x[0,1]", {cn(1, 0, 0), cn(-1, 0, 2, GT), cn(0, 1, 0), cn(0, -1, 1)}, 4},
      {"halfplane A-B<=-2", {cn(-1, 1, -2)}, 1},
      {"point(5,5)", {cn(1, 0, -5, EQ), cn(0, 1, -5, EQ)}, 0},
      {"halfplane B>=3", {cn(0, 1, -3)}, 0},
      {"line B=-3", {cn(0, 1, 3, EQ)}, 0},
      {"halfplane A+B<=-2", {cn(-1, -1, -2)}, 2},
      {"box[-2,-1]x[0,3]", {cn(1, 0, 2), cn(-1, 0, -1), cn(0, 1, 0), cn(0, -1, 3)}, 0},
    };
  } else {
    sp = {
      {"point(0)", {cn1(1, 0, EQ)}, 0}, {"segment[0,3]", {cn1(1, 0), cn1(-1, 3)}, 0}, {"point(-1)", {cn1(1, 1, EQ)}, 0},
      {"point(1/2)", {cn1(2, -1, EQ)}, 0}, {"open(0,1)", {cn1(1, 0, GT), cn1(-1, 1, GT)}, 4}, {"ray>=5", {cn1(1, -5)}, 0},
      {"halfopen[1,2)", {cn1(1, -1), cn1(-1, 2, GT)}, 4}, {"ray<=-3", {cn1(-1, -3)}, 0}, {"point(7/3)", {cn1(3, -7, EQ)}, 0},
    };
  }
  return sp;
}

static bool is_interval_cn(const CN& c) { int nz = 0; for (size_t i = 0; i < c.e.a.size(); ++i) if (c.e.a[i]) ++nz; return nz <= 1; }
static bool is_bd_cn(const CN& c) {
  std::vector<long> nz; for (size_t i = 0; i < c.e.a.size(); ++i) if (c.e.a[i]) nz.push_back(c.e.a[i]);
  if (nz.size() <= 1) return true;
  return nz.size() == 2 && nz[0] == -nz[1];
}
static bool is_oct_cn(const CN& c) {
  std::vector<long> nz; for (size_t i = 0; i < c.e.a.size(); ++i) if (c.e.a[i]) nz.push_back(c.e.a[i]);
  if (nz.size() <= 1) return true;
  return nz.size() == 2 && std::labs(nz[0]) == std::labs(nz[1]);
}

// ------------------------------------------------------------------ kinds
template <typename T> struct KindBDS {
  typedef PPL::BD_Shape<T> S;
  static const int level = 1;
  static std::string name(const std::string& t) { return "BD_Shape<" + t + ">"; }
  static S* clone(const S& s) { S* c = new S(s); c->redundancy_dbm = s.redundancy_dbm; return c; }
  static void force_closed(S& s) { (void)s.is_empty(); }
  static bool representable(const CN& c) { return is_bd_cn(c); }
  template <typename D> static void ops(std::vector<OpDefT<D> >& out, const std::string& dn) {
    {
      OpDefT<D> o; o.name = "BHMZ05_widening_assign"; o.site = dn + "::BHMZ05_widening_assign"; o.widening = true;
      o.plain = [](S& n, const S& x, unsigned* tp) { n.BHMZ05_widening_assign(x, tp); };
      o.limited_name = "limited_BHMZ05_extrapolation_assign";
      o.limited = [](S& n, const S& x, const PPL::Constraint_System& cs, unsigned* tp) { n.limited_BHMZ05_extrapolation_assign(x, cs, tp); };
      o.libcert_name = "H79_Certificate(of the shapes as polyhedra)";
      o.libcert = [](const S& x, const S& r) { if (x.is_empty()) return 1; C_Polyhedron px(x.constraints()), pr(r.constraints()); PPL::H79_Certificate c(px); return c.compare(pr); };
      o.measure = measure_H79; o.limit_representable = representable;
      out.push_back(o);
    }
    {
      OpDefT<D> o; o.name = "H79_widening_assign"; o.site = dn + "::H79_widening_assign"; o.widening = true;
      o.plain = [](S& n, const S& x, unsigned* tp) { n.H79_widening_assign(x, tp); };
      o.limited_name = "limited_H79_extrapolation_assign";
      o.limited = [](S& n, const S& x, const PPL::Constraint_System& cs, unsigned* tp) { n.limited_H79_extrapolation_assign(x, cs, tp); };
      o.libcert_name = "H79_Certificate(of the shapes as polyhedra)";
      o.libcert = [](const S& x, const S& r) { if (x.is_empty()) return 1; C_Polyhedron px(x.constraints()), pr(r.constraints()); PPL::H79_Certificate c(px); return c.compare(pr); };
      o.measure = measure_H79; o.limit_representable = representable;
      out.push_back(o);
    }
    {
      OpDefT<D> o; o.name = "CC76_extrapolation_assign"; o.site = dn + "::CC76_extrapolation_assign"; o.widening = false;
      o.plain = [](S& n, const S& x, unsigned* tp) { n.CC76_extrapolation_assign(x, tp); };
      o.limited_name = "limited_CC76_extrapolation_assign";
      o.limited = [](S& n, const S& x, const PPL::Constraint_System& cs, unsigned* tp) { n.limited_CC76_extrapolation_assign(x, cs, tp); };
      o.limit_representable = representable;
      out.push_back(o);
    }
  }
};
template <typename T> struct KindOct {
  typedef PPL::Octagonal_Shape<T> S;
  static const int level = 2;
  static std::string name(const std::string& t) { return "Octagonal_Shape<" + t + ">"; }
  static S* clone(const S& s) { return new S(s); }
  static void force_closed(S& s) { (void)s.is_empty(); }
  static bool representable(const CN& c) { return is_oct_cn(c); }
  template <typename D> static void ops(std::vector<OpDefT<D> >& out, const std::string& dn) {
    {
      OpDefT<D> o; o.name = "BHMZ05_widening_assign"; o.site = dn + "::BHMZ05_widening_assign"; o.widening = true;
      o.plain = [](S& n, const S& x, unsigned* tp) { n.BHMZ05_widening_assign(x, tp); };
      o.limited_name = "limited_BHMZ05_extrapolation_assign";
      o.limited = [](S& n, const S& x, const PPL::Constraint_System& cs, unsigned* tp) { n.limited_BHMZ05_extrapolation_assign(x, cs, tp); };
      o.libcert_name = "H79_Certificate(of the shapes as polyhedra)";
      o.libcert = [](const S& x, const S& r) { if (x.is_empty()) return 1; C_Polyhedron px(x.constraints()), pr(r.constraints()); PPL::H79_Certificate c(px); return c.compare(pr); };
      o.measure = measure_H79; o.limit_representable = representable;
      out.push_back(o);
    }
    {
      OpDefT<D> o; o.name = "CC76_extrapolation_assign"; o.site = dn + "::CC76_extrapolation_assign"; o.widening = false;
      o.plain = [](S& n, const S& x, unsigned* tp) { n.CC76_extrapolation_assign(x, tp); };
      o.limited_name = "limited_CC76_extrapolation_assign";
      o.limited = [](S& n, const S& x, const PPL::Constraint_System& cs, unsigned* tp) { n.limited_CC76_extrapolation_assign(x, cs, tp); };
      o.limit_representable = representable;
      out.push_back(o);
    }
  }
};
struct KindBox {
  typedef PPL::Rational_Box S;
  static const int level = 0;
  static std::string name(const std::string&) { return "Rational_Box"; }
  static S* clone(const S& s) { return new S(s); }
  static void force_closed(S& s) { (void)s.is_empty(); }
  static bool representable(const CN& c) { return is_interval_cn(c); }
  template <typename D> static void ops(std::vector<OpDefT<D> >& out, const std::string& dn) {
    OpDefT<D> o; o.name = "CC76_widening_assign"; o.site = dn + "::CC76_widening_assign"; o.widening = true;
    o.plain = [](S& n, const S& x, unsigned* tp) { n.CC76_widening_assign(x, tp); };
    o.limited_name = "limited_CC76_extrapolation_assign";
    o.limited = [](S& n, const S& x, const PPL::Constraint_System& cs, unsigned* tp) { n.limited_CC76_extrapolation_assign(x, cs, tp); };
    o.measure = measure_box; o.limit_representable = representable;
    out.push_back(o);
  }
};

// ------------------------------------------------------------------ adapter
template <typename K>
struct ShapeDom : CellSpace<ShapeDom<K> > {
  typedef typename K::S Obj;
  typedef Obj S;
  std::string name; int dim; bool nnc; int menu_limit; bool integer_only; bool dyadic_only;
  ShapeDom(const std::string& tname, int dim_, int ml, bool integer_only_) : name(K::name(tname)), dim(dim_), nnc(K::level == 0), menu_limit(ml), integer_only(integer_only_), dyadic_only(tname == "double") {}

  S* clone(const S& s) const { return K::clone(s); }
  std::string dump(const S& s) const { return dump_of(s); }
  Cell value(const S& s) const {
    std::unique_ptr<S> c(clone(s));
    if (c->is_empty()) return Cell::empty(dim);
    return cell_of(c->constraints(), dim);
  }
  void join(S& a, const S& b) const { a.upper_bound_assign(b); }
  bool ok(const S& s) const { return s.OK(); }
  S* empty() const { return new S(dim, PPL::EMPTY); }
  std::string repdep_caveat(const std::string&, const Cell&, const Cell&, const std::string&, const std::string&, const std::string&) const { return ""; }

  PPL::Constraint_System cs_of(const std::vector<CN>& v) const {
    PPL::Constraint_System cs;
    for (size_t i = 0; i < v.size(); ++i) cs.insert(v[i].ppl());
    return cs;
  }
  S* from_cs(const PPL::Constraint_System& cs) const { S* s = new S(dim, PPL::UNIVERSE); s->add_constraints(cs); return s; }

  void menu(std::vector<MenuItemT<S, Cell> >& out) const {
    std::vector<Spec> sp = menu_specs(dim);
    for (size_t i = 0; i < sp.size(); ++i) {
      int shape = sp[i].needs & 3; bool strict = sp[i].needs & 4;
      if (shape > K::level) continue;
      if (strict && K::level != 0) continue;
      if (dyadic_only) { bool bad = false; for (size_t k = 0; k < sp[i].cs.size(); ++k) for (size_t j = 0; j < sp[i].cs[k].e.a.size(); ++j) { long a = std::labs(sp[i].cs[k].e.a[j]); if (a > 2) bad = true; } if (bad) continue; }
      if (integer_only) { bool frac = false; for (size_t k = 0; k < sp[i].cs.size(); ++k) for (size_t j = 0; j < sp[i].cs[k].e.a.size(); ++j) if (std::labs(sp[i].cs[k].e.a[j]) > 1) frac = true; if (frac) continue; }
      if ((int)out.size() >= menu_limit) break;
      MenuItemT<S, Cell> m; m.name = sp[i].name;
      m.obj.reset(from_cs(cs_of(sp[i].cs)));
      Cell c(dim); for (size_t k = 0; k < sp[i].cs.size(); ++k) c.rows.push_back(sp[i].cs[k].row(dim));
      m.cell = ref::normalized(c); m.cls = -1;
      out.push_back(m);
    }
  }

  void reps(const S& natural, const Cell& value, std::vector<RepT<S> >& out) const {
    auto add = [&](const std::string& n, S* p) { RepT<S> r; r.name = n; r.obj.reset(p); out.push_back(r); };
    if (value.bot) {
      add("marked-empty", new S(dim, PPL::EMPTY));
      { PPL::Constraint_System cs; cs.insert(Variable(0) >= 1); cs.insert(Variable(0) <= 0); add("unsat-constraints-unmarked", from_cs(cs)); }
      return;
    }
    std::unique_ptr<S> c(clone(natural));
    PPL::Constraint_System mcs = c->minimized_constraints();
    PPL::Constraint_System acs = c->constraints();
    add("from-min-constraints", from_cs(mcs));
    add("from-all-constraints", from_cs(acs));
    { S* p = from_cs(mcs); K::force_closed(*p); add("closed", p); }
    { S* p = from_cs(mcs); (void)p->minimized_constraints(); add("reduced", p); }
    { S* p = from_cs(acs); (void)p->minimized_constraints(); (void)p->affine_dimension(); add("all-constraints+reduced", p); }
    if (K::level == 0) { NNC_Polyhedron ph(dim); ph.add_constraints(mcs); add("from-polyhedron", new S(ph)); }
    else { C_Polyhedron ph(dim); ph.add_constraints(mcs); add("from-polyhedron", new S(ph)); }
    {
      // reversed, with weaker copies of every inequality
      std::vector<Constraint> v; for (PPL::Constraint_System::const_iterator i = mcs.begin(); i != mcs.end(); ++i) v.push_back(*i);
      PPL::Constraint_System cs;
      for (size_t i = v.size(); i-- > 0; ) {
        if (!v[i].is_equality()) cs.insert(Linear_Expression(v[i].expression()) + 1 >= 0);
        cs.insert(v[i]);
      }
      add("redundant-reversed-constraints", from_cs(cs));
    }
    {
      // closed, then a redundant constraint added afterwards
      S* p = from_cs(mcs); K::force_closed(*p);
      for (PPL::Constraint_System::const_iterator i = mcs.begin(); i != mcs.end(); ++i) if (!i->is_equality()) { p->add_constraint(Linear_Expression(i->expression()) + 2 >= 0); break; }
      add("closed+redundant-constraint", p);
    }
  }

  void ops(std::vector<OpDefT<ShapeDom<K> > >& out) const { K::template ops<ShapeDom<K> >(out, name); }

  std::vector<CN> limits() const {
    using ref::EQ; using ref::GT;
    std::vector<CN> l;
    if (dim == 2) {
      l = { cn(-1, 0, 3), cn(0, -1, 4), cn(1, 0, 1), cn(1, -1, 2), cn(0, 1, 0, EQ), cn(-1, -1, 5) };
      if (K::level == 2) l.push_back(cn(-2, -1, 8));           // not octagonal: ignored by the operator
      if (K::level == 0) l.push_back(cn(-1, 0, 4, GT));
    } else {
      l = { cn1(-1, 3), cn1(1, 1), cn1(-2, 5), cn1(1, 0, EQ) };
      if (K::level == 0) l.push_back(cn1(-1, 4, GT));
    }
    return l;
  }
};

// ------------------------------------------------------------------ driver
struct ShRunner {
  virtual ~ShRunner() {}
  virtual size_t items() const = 0;
  virtual void run(long long i, long long sub_start) = 0;
  virtual void crash(long long i, long long sub, int sig, bool confirmed) = 0;
  virtual void finish(long& states, long& edges, bool& closed, std::vector<std::string>& per_op, std::vector<std::string>& samples) = 0;
};
template <typename K> struct ShRunnerT : ShRunner {
  ShapeDom<K> dom; Game<ShapeDom<K> > game;
  ShRunnerT(const std::string& tname, int dim, int ml, bool integer_only, int base, int depth, bool full, double t0)
    : dom(tname, dim, ml, integer_only), game(dom, ARGS, base) {
    game.max_depth = depth; game.limit_cap = atoi(ARGS.opt("--limits", ARGS.thorough() ? "0" : "4").c_str()); game.rep_mode = full ? 1 : 0;
    game.phase_a(); game.make_items();
    for (size_t oi = 0; oi < game.G.size(); ++oi)
      fprintf(stderr, "[c08_shapes] %s dim %d %s: states=%zu edges=%zu closed=%d depth=%d classes=%zu (%.1fs)\n", dom.name.c_str(), dim,
              game.OPS[oi].name.c_str(), game.G[oi].nodes.size(), game.G[oi].edges.size(), (int)game.G[oi].closed, game.G[oi].depth_done, game.CL.size(), now_s() - t0);
  }
  size_t items() const { return game.ITEMS.size(); }
  void run(long long i, long long s) { game.run_item(i, s); }
  void crash(long long i, long long sub, int sig, bool c) { game.on_crash(i, sub, sig, c); }
  void finish(long& states, long& edges, bool& closed, std::vector<std::string>& per_op, std::vector<std::string>& samples) {
    typename Game<ShapeDom<K> >::Summary s = game.finish();
    states += s.states; edges += s.edges; closed = closed && s.all_closed;
    per_op.insert(per_op.end(), s.per_op.begin(), s.per_op.end());
    for (size_t i = 0; i < s.samples.size() && i < 2; ++i) samples.push_back(s.samples[i]);
  }
};

int c08_shapes_main(int argc, char** argv) {
  ARGS = parse_args(argc, argv);
  sink().open(ARGS.out);
  double t0 = now_s();
  std::string domains = ARGS.opt("--domains", "bds,oct,box");
  std::string dims = ARGS.opt("--dims", "1,2");
  int depth = atoi(ARGS.opt("--depth", "10").c_str());
  int menu_limit = atoi(ARGS.opt("--menu", ARGS.thorough() ? "18" : "10").c_str());
  bool full = ARGS.opt("--reps", ARGS.thorough() ? "full" : "star") == "full";
  std::vector<std::unique_ptr<ShRunner> > rs;
  int base = 0;
  for (int dim = 1; dim <= 2; ++dim) {
    if (dims.find(char('0' + dim)) == std::string::npos) continue;
    if (domains.find("bds") != std::string::npos) { rs.emplace_back(new ShRunnerT<KindBDS<mpq_class> >("mpq_class", dim, menu_limit, false, base, depth, full, t0)); base += 3; }
    if (domains.find("oct") != std::string::npos) { rs.emplace_back(new ShRunnerT<KindOct<mpq_class> >("mpq_class", dim, menu_limit, false, base, depth, full, t0)); base += 2; }
    if (domains.find("box") != std::string::npos) { rs.emplace_back(new ShRunnerT<KindBox>("", dim, menu_limit, false, base, depth, full, t0)); base += 1; }
#ifdef C08_WITH_DOUBLE
    if (domains.find("dbl") != std::string::npos) { rs.emplace_back(new ShRunnerT<KindBDS<double> >("double", dim, menu_limit, false, base, depth, full, t0)); base += 3; }
    if (domains.find("i8") != std::string::npos) { rs.emplace_back(new ShRunnerT<KindOct<int8_t> >("int8_t", dim, menu_limit, true, base, depth, full, t0)); base += 2; }
#endif
  }
  double ta = now_s() - t0;
  std::vector<std::pair<int, int> > items;
  for (size_t gi = 0; gi < rs.size(); ++gi) for (size_t i = 0; i < rs[gi]->items(); ++i) items.push_back(std::make_pair((int)gi, (int)i));
  { unsigned long s = 12345; for (size_t i = items.size(); i > 1; --i) { s = s * 6364136223846793005UL + 1442695040888963407UL; std::swap(items[i - 1], items[(s >> 33) % i]); } }
  Pool::Fn fn = [&](long long item, long long sub_start) { rs[items[item].first]->run(items[item].second, sub_start); };
  Pool::CrashFn cf = [&](long long item, long long sub, int sig, bool confirmed) { rs[items[item].first]->crash(items[item].second, sub, sig, confirmed); };
  limit_memory(6ULL << 30);
  pool().run((long long)items.size(), ARGS.jobs, fn, cf, ARGS, 120);
  bool complete = counter(CNT_SKIPPED) == 0 && counter(CNT_REFCRASH) == 0;
  long states = 0, edges = 0; bool widenings_closed = true;
  std::vector<std::string> per_op, samples;
  for (size_t gi = 0; gi < rs.size(); ++gi) rs[gi]->finish(states, edges, widenings_closed, per_op, samples);
  if (samples.size() > 6) samples.resize(6);
  J extra; extra.arr("graphs", per_op).boolean("all_graphs_closed", widenings_closed).num("menu_size_limit", menu_limit).str("representation_pairs", full ? "full" : "star")
    .dbl("phaseA_s", ta).num("items_skipped_by_deadline", counter(CNT_SKIPPED)).num("cases_skipped_oracle_resource_limit", counter(CNT_REFCRASH))
    .num("violation_records", counter(CNT_VIOL));
  J st; st.str("t", "stats").num("states", std::max(1L, states)).num("transitions", std::max(1LL, (long long)counter(CNT_TRANS)))
    .num("traces_validated_against_impl", counter(CNT_TRANS)).boolean("exhaustive", complete)
    .str("bound", "domains " + domains + ", dims " + dims + ", menu of <= " + std::to_string(menu_limit) + " increments, every start element, closure or depth " + std::to_string(depth) + ", representation pairs: " + (full ? "full" : "star") + ", tokens {null,0,1,2}, limiting subsets of size <= 2")
    .arr("samples", samples).raw("extra", extra.done()).dbl("wall_s", now_s() - t0);
  sink().line(st.done());
  return 0;
}

// C14 part 2 scenarios: C / NNC polyhedra and grids.
// Every operation is run in several representative states of the receiver:
//   cons = described by constraints only, not minimized;  gens = by generators only;  min = both, minimized.
#include "harness/c14_oom.hh"

namespace c14 {

static const Variable A(0), B(1), C(2), D(3);

// ---- states ---------------------------------------------------------------------------------
template <typename PH> struct Topo { enum { nnc = 0 }; };
template <> struct Topo<NNC_Polyhedron> { enum { nnc = 1 }; };

template <typename PH> static Constraint_System ph_cs() {
  Constraint_System cs;
  cs.insert(A >= 0); cs.insert(B >= 0); cs.insert(C >= 0);
  if (Topo<PH>::nnc) cs.insert(A + B + C < K(4)); else cs.insert(A + B + C <= K(4));
  cs.insert(A - B <= K(1));
  return cs;
}
template <typename PH> static Generator_System ph_gs() {
  Generator_System gs;
  gs.insert(point(0 * C));
  gs.insert(point(K(4) * A)); gs.insert(point(K(4) * B, 3));
  if (Topo<PH>::nnc) gs.insert(closure_point(K(4) * C + A, 2)); else gs.insert(point(K(4) * C + A, 2));
  gs.insert(ray(A + B));
  return gs;
}
enum { ST_CONS = 0, ST_GENS = 1, ST_MIN = 2 };
template <typename PH> static PH ph_state(int st) {
  if (st == ST_GENS) return PH(ph_gs<PH>());
  PH x(ph_cs<PH>());
  if (st == ST_MIN) { (void) x.minimized_generators(); (void) x.minimized_constraints(); }
  return x;
}
// a second operand of the same dimension
template <typename PH> static PH ph_other(int st) {
  if (st == ST_GENS) {
    Generator_System gs; gs.insert(point(A + B + C)); gs.insert(point(K(3) * A + B + C)); gs.insert(point(A + K(3) * B + C, 2)); gs.insert(point(A + B + K(2) * C));
    return PH(gs);
  }
  Constraint_System cs; cs.insert(A >= K(1)); cs.insert(B >= K(1)); cs.insert(A + B + C <= K(6)); cs.insert(C >= 0);
  PH y(cs);
  if (st == ST_MIN) (void) y.minimized_generators();
  return y;
}

#define SCN_PH(name, site) \
  template <typename PH, int ST> static void C14_CAT(scn_t_, __LINE__)(Run& r); \
  static Reg C14_CAT(reg_a_, __LINE__)("C_" name "/cons", "Polyhedron::" site, 0, &C14_CAT(scn_t_, __LINE__)<C_Polyhedron, ST_CONS>); \
  static Reg C14_CAT(reg_b_, __LINE__)("C_" name "/gens", "Polyhedron::" site, 1, &C14_CAT(scn_t_, __LINE__)<C_Polyhedron, ST_GENS>); \
  static Reg C14_CAT(reg_c_, __LINE__)("C_" name "/min", "Polyhedron::" site, 1, &C14_CAT(scn_t_, __LINE__)<C_Polyhedron, ST_MIN>); \
  static Reg C14_CAT(reg_d_, __LINE__)("NNC_" name "/cons", "Polyhedron::" site, 1, &C14_CAT(scn_t_, __LINE__)<NNC_Polyhedron, ST_CONS>); \
  static Reg C14_CAT(reg_e_, __LINE__)("NNC_" name "/gens", "Polyhedron::" site, 1, &C14_CAT(scn_t_, __LINE__)<NNC_Polyhedron, ST_GENS>); \
  template <typename PH, int ST> static void C14_CAT(scn_t_, __LINE__)(Run& r)

#define PH_X  PH x = ph_state<PH>(ST); PH xf(x)
#define PH_XY PH x = ph_state<PH>(ST); PH xf(x); PH y = ph_other<PH>(ST); PH yf(y)

SCN_PH("Polyhedron::add_constraints+minimize", "add_constraints") {
  PH_X;
  Constraint_System cs; cs.insert(A + K(2) * B <= K(5)); cs.insert(B - C >= -K(1));
  faulted(r, [&] { x.add_constraints(cs); (void) x.minimized_generators(); (void) x.minimized_constraints(); });
  usable(r, x, xf, "x");
}
SCN_PH("Polyhedron::add_generators+minimize", "add_generators") {
  PH_X;
  Generator_System gs; gs.insert(point(K(5) * A + K(5) * B + K(5) * C, 2)); gs.insert(ray(C - A));
  faulted(r, [&] { x.add_generators(gs); (void) x.minimized_constraints(); (void) x.minimized_generators(); });
  usable(r, x, xf, "x");
}
SCN_PH("Polyhedron::add_constraint+add_generator", "add_constraint") {
  PH_X;
  faulted(r, [&] { x.add_constraint(A + B <= K(3)); x.add_generator(point(K(9) * C)); x.add_constraint(C <= K(20)); (void) x.is_empty(); });
  usable(r, x, xf, "x");
}
SCN_PH("Polyhedron::poly_hull_assign", "poly_hull_assign") {
  PH_XY;
  faulted(r, [&] { x.poly_hull_assign(y); (void) x.minimized_constraints(); });
  usable(r, x, xf, "x"); usable(r, y, yf, "y");
}
SCN_PH("Polyhedron::intersection_assign", "intersection_assign") {
  PH_XY;
  faulted(r, [&] { x.intersection_assign(y); (void) x.minimized_generators(); });
  usable(r, x, xf, "x"); usable(r, y, yf, "y");
}
SCN_PH("Polyhedron::affine_image", "affine_image") {
  PH_X;
  faulted(r, [&] { x.affine_image(A, K(2) * A + B - K(3), 2); (void) x.minimized_constraints(); });
  usable(r, x, xf, "x");
}
SCN_PH("Polyhedron::affine_preimage", "affine_preimage") {
  PH_X;
  faulted(r, [&] { x.affine_preimage(B, A + C); (void) x.minimized_generators(); });
  usable(r, x, xf, "x");
}
SCN_PH("Polyhedron::generalized_affine_image(var)", "generalized_affine_image") {
  PH_X;
  faulted(r, [&] { x.generalized_affine_image(B, LESS_OR_EQUAL, A + K(2) * C + K(1), 2); (void) x.minimized_constraints(); });
  usable(r, x, xf, "x");
}
SCN_PH("Polyhedron::generalized_affine_image(lhs)", "generalized_affine_image") {
  PH_X;
  faulted(r, [&] { x.generalized_affine_preimage(A - C, LESS_OR_EQUAL, B + K(2)); (void) x.minimized_constraints(); });
  usable(r, x, xf, "x");
}
SCN_PH("Polyhedron::bounded_affine_image", "bounded_affine_image") {
  PH_X;
  faulted(r, [&] { x.bounded_affine_image(A, B - K(1), K(2) * C + K(3), 2); (void) x.minimized_constraints(); });
  usable(r, x, xf, "x");
}
SCN_PH("Polyhedron::copy+assign+swap", "operator=") {
  PH_XY;
  faulted(r, [&] { PH z(x); y = z; z.m_swap(x); PH w(y, POLYNOMIAL_COMPLEXITY); });
  usable(r, x, xf, "x"); usable(r, y, yf, "y");
}
SCN_PH("Polyhedron::add_space_dimensions", "add_space_dimensions_and_embed") {
  PH_X;
  faulted(r, [&] { x.add_space_dimensions_and_embed(1); x.add_space_dimensions_and_project(1); (void) x.minimized_generators(); });
  usable(r, x, xf, "x");
}
SCN_PH("Polyhedron::remove_space_dimensions", "remove_space_dimensions") {
  PH_X;
  Variables_Set vs; vs.insert(B);
  faulted(r, [&] { x.remove_space_dimensions(vs); x.remove_higher_space_dimensions(1); (void) x.minimized_generators(); });
  usable(r, x, xf, "x");
}
SCN_PH("Polyhedron::map_space_dimensions", "map_space_dimensions") {
  PH_X;
  Partial_Function pf; pf.insert(0, 2); pf.insert(2, 0); pf.insert(1, 1);
  Partial_Function pg; pg.insert(0, 1); pg.insert(2, 0);
  faulted(r, [&] { x.map_space_dimensions(pf); x.map_space_dimensions(pg); });
  usable(r, x, xf, "x");
}
SCN_PH("Polyhedron::expand+fold_space_dimensions", "expand_space_dimension") {
  PH_X;
  Variables_Set vs; vs.insert(A); vs.insert(D);
  faulted(r, [&] { x.expand_space_dimension(B, 1); x.fold_space_dimensions(vs, C); (void) x.minimized_constraints(); });
  usable(r, x, xf, "x");
}
SCN_PH("Polyhedron::concatenate_assign", "concatenate_assign") {
  PH_XY;
  faulted(r, [&] { x.concatenate_assign(y); (void) x.minimized_generators(); });
  usable(r, x, xf, "x"); usable(r, y, yf, "y");
}
SCN_PH("Polyhedron::poly_difference_assign", "poly_difference_assign") {
  PH_XY;
  faulted(r, [&] { x.poly_difference_assign(y); (void) x.minimized_constraints(); });
  usable(r, x, xf, "x"); usable(r, y, yf, "y");
}
SCN_PH("Polyhedron::time_elapse_assign", "time_elapse_assign") {
  PH_XY;
  faulted(r, [&] { x.time_elapse_assign(y); (void) x.minimized_constraints(); });
  usable(r, x, xf, "x"); usable(r, y, yf, "y");
}
SCN_PH("Polyhedron::H79_widening_assign", "H79_widening_assign") {
  PH_XY;
  faulted(r, [&] { PH z(x); z.poly_hull_assign(y); unsigned tokens = 0; z.H79_widening_assign(x, &tokens); });
  usable(r, x, xf, "x"); usable(r, y, yf, "y");
}
SCN_PH("Polyhedron::BHRZ03_widening_assign", "BHRZ03_widening_assign") {
  PH_XY;
  faulted(r, [&] { PH z(x); z.poly_hull_assign(y); z.BHRZ03_widening_assign(x); });
  usable(r, x, xf, "x"); usable(r, y, yf, "y");
}
SCN_PH("Polyhedron::limited_extrapolation_assign", "limited_H79_extrapolation_assign") {
  PH_XY;
  Constraint_System cs; cs.insert(A <= K(50)); cs.insert(C >= -K(1));
  faulted(r, [&] { PH z(x); z.poly_hull_assign(y); z.limited_H79_extrapolation_assign(x, cs); });
  usable(r, x, xf, "x"); usable(r, y, yf, "y");
}
SCN_PH("Polyhedron::relation_with", "relation_with") {
  PH_X;
  faulted(r, [&] { (void) x.relation_with(A + B >= K(2)); (void) x.relation_with(point(A + B + C)); (void) x.relation_with((A + B %= K(1)) / 3); });
  usable(r, x, xf, "x");
}
SCN_PH("Polyhedron::maximize+minimize", "maximize") {
  PH_X;
  faulted(r, [&] { Coefficient n, d; bool mx; Generator g(point()); (void) x.maximize(C + K(2) * A - B, n, d, mx, g); (void) x.minimize(A + B, n, d, mx); (void) x.bounds_from_above(A); });
  usable(r, x, xf, "x");
}
SCN_PH("Polyhedron::contains+is_disjoint_from+==", "contains") {
  PH_XY;
  faulted(r, [&] { (void) x.contains(y); (void) y.strictly_contains(x); (void) x.is_disjoint_from(y); (void) (x == y); });
  usable(r, x, xf, "x"); usable(r, y, yf, "y");
}
SCN_PH("Polyhedron::queries", "is_bounded") {
  PH_X;
  faulted(r, [&] { (void) x.is_bounded(); (void) x.is_topologically_closed(); (void) x.affine_dimension(); (void) x.constrains(B); (void) x.is_universe(); (void) x.is_discrete(); (void) x.contains_integer_point();
                   (void) x.minimized_congruences(); (void) x.hash_code(); (void) x.external_memory_in_bytes(); });
  usable(r, x, xf, "x");
}
SCN_PH("Polyhedron::topological_closure_assign", "topological_closure_assign") {
  PH_X;
  faulted(r, [&] { x.topological_closure_assign(); (void) x.minimized_generators(); (void) x.minimized_constraints(); });
  usable(r, x, xf, "x");
}
SCN_PH("Polyhedron::unconstrain", "unconstrain") {
  PH_X;
  Variables_Set vs; vs.insert(A); vs.insert(C);
  faulted(r, [&] { x.unconstrain(B); x.unconstrain(vs); (void) x.minimized_constraints(); });
  usable(r, x, xf, "x");
}
SCN_PH("Polyhedron::simplify_using_context_assign", "simplify_using_context_assign") {
  PH_XY;
  faulted(r, [&] { (void) x.simplify_using_context_assign(y); (void) x.minimized_constraints(); });
  usable(r, x, xf, "x"); usable(r, y, yf, "y");
}
SCN_PH("Polyhedron::refine_with", "refine_with_constraints") {
  PH_X;
  Constraint_System cs; cs.insert(A + B < K(3)); cs.insert(C == K(1));
  Congruence_System cgs; cgs.insert((A %= K(1)) / 2); cgs.insert((B + C %= 0) / 0);
  faulted(r, [&] { x.refine_with_constraints(cs); x.refine_with_congruences(cgs); (void) x.minimized_generators(); });
  usable(r, x, xf, "x");
}
SCN_PH("Polyhedron::Polyhedron(Box|BD_Shape|Octagonal_Shape|Grid)", "Polyhedron") {
  PH_X;
  Rational_Box box(x); BD_Shape<mpq_class> bd(x); Octagonal_Shape<mpq_class> oc(x); Grid gr(3); gr.add_congruence((A + B %= K(1)) / 3); gr.add_constraint(C == K(2));
  faulted(r, [&] { PH p1(box); PH p2(bd); PH p3(oc); PH p4(gr); (void) p4.minimized_generators(); });
  usable(r, x, xf, "x");
}
SCN_PH("Polyhedron::Polyhedron(other topology)", "Polyhedron") {
  PH_X;
  faulted(r, [&] { C_Polyhedron c(x); NNC_Polyhedron n(x); C_Polyhedron c2(n); NNC_Polyhedron n2(c); });
  usable(r, x, xf, "x");
}
SCN_PH("Polyhedron::wrap_assign", "wrap_assign") {
  PH_X;
  Variables_Set vs; vs.insert(A); vs.insert(B);
  Constraint_System cs; cs.insert(A <= B);
  faulted(r, [&] { x.add_constraint(B <= K(300)); x.wrap_assign(vs, BITS_8, UNSIGNED, OVERFLOW_WRAPS, &cs, 2, true); });
  usable(r, x, xf, "x");
}
SCN_PH("Polyhedron::drop_some_non_integer_points", "drop_some_non_integer_points") {
  PH_X;
  faulted(r, [&] { x.add_constraint(K(2) * A + K(2) * B >= K(1)); x.drop_some_non_integer_points(); (void) x.minimized_generators(); });
  usable(r, x, xf, "x");
}
SCN_PH("Polyhedron::ascii_dump+ascii_load", "ascii_load") {
  PH_X;
  faulted(r, [&] { std::stringstream ss; x.ascii_dump(ss); PH z(3); (void) z.ascii_load(ss); (void) z.OK(); using namespace IO_Operators; std::ostringstream o; o << x; });
  usable(r, x, xf, "x");
}
SCN_PH("Polyhedron::constraints+generators(copy out)", "constraints") {
  PH_X;
  faulted(r, [&] { Constraint_System cs(x.constraints()); Generator_System gs(x.generators()); Congruence_System cg(x.congruences()); PH z(cs); PH w(gs); });
  usable(r, x, xf, "x");
}

// chains of equalities with multi-limb coefficients (the scenario of tests/Polyhedron/memory2.cc)
SCN("C_Polyhedron::memory2 chain d=5", "Polyhedron::add_constraint", 0) {
  C_Polyhedron fresh(5);
  C_Polyhedron ph(5);
  Coefficient big; mul_2exp_assign(big, MAG(), sizeof(Coefficient) >= 8 ? 64 : 3); big -= 1;
  faulted(r, [&] {
    ph.add_constraint(A == big);
    for (dimension_type i = 1; i < 5; ++i) ph.add_constraint(Variable(i) == big * Variable(i - 1));
    (void) ph.minimized_generators();
  });
  usable(r, ph, fresh, "ph");
}
SCN("C_Polyhedron::memory2 chain d=8", "Polyhedron::add_constraint", 1) {
  C_Polyhedron fresh(8);
  C_Polyhedron ph(8);
  Coefficient big; mul_2exp_assign(big, MAG(), sizeof(Coefficient) >= 8 ? 64 : 3); big -= 1;
  faulted(r, [&] {
    ph.add_constraint(A == big);
    for (dimension_type i = 1; i < 8; ++i) ph.add_constraint(Variable(i) == big * Variable(i - 1));
    (void) ph.minimized_generators();
  });
  usable(r, ph, fresh, "ph");
}
SCN("C_Polyhedron::hypercube d=5 generators", "Polyhedron::minimized_generators", 1) {
  C_Polyhedron fresh(5);
  C_Polyhedron ph(5);
  faulted(r, [&] {
    for (dimension_type i = 0; i < 5; ++i) { ph.add_constraint(Variable(i) >= -K(1)); ph.add_constraint(Variable(i) <= K((long)i + 1)); }
    (void) ph.minimized_generators();
  });
  usable(r, ph, fresh, "ph");
}

// ---- grids ----------------------------------------------------------------------------------
static Congruence_System gr_cgs() {
  Congruence_System cgs;
  cgs.insert((A + B %= K(1)) / 3); cgs.insert((K(2) * B - C %= 0) / 4); cgs.insert((A %= 0) / 1);
  return cgs;
}
static Grid_Generator_System gr_ggs() {
  Grid_Generator_System gs;
  gs.insert(grid_point(A + K(2) * B, 2)); gs.insert(parameter(K(3) * A, 2)); gs.insert(parameter(B + C)); gs.insert(grid_line(A - C));
  return gs;
}
static Grid gr_state(int st) {
  if (st == ST_GENS) return Grid(gr_ggs());
  Grid g(gr_cgs());
  if (st == ST_MIN) { (void) g.minimized_grid_generators(); (void) g.minimized_congruences(); }
  return g;
}
static Grid gr_other(int st) {
  if (st == ST_GENS) { Grid_Generator_System gs; gs.insert(grid_point(B)); gs.insert(parameter(K(2) * A + C)); gs.insert(parameter(K(5) * C, 3)); return Grid(gs); }
  Congruence_System cgs; cgs.insert((A - C %= K(2)) / 5); cgs.insert((B %= K(1)) / 2); cgs.insert((A + B + C %= 0) / 0);
  Grid g(cgs);
  if (st == ST_MIN) (void) g.minimized_grid_generators();
  return g;
}
#define SCN_GR(name, site) \
  template <int ST> static void C14_CAT(scn_t_, __LINE__)(Run& r); \
  static Reg C14_CAT(reg_a_, __LINE__)(name "/cons", site, 0, &C14_CAT(scn_t_, __LINE__)<ST_CONS>); \
  static Reg C14_CAT(reg_b_, __LINE__)(name "/gens", site, 1, &C14_CAT(scn_t_, __LINE__)<ST_GENS>); \
  static Reg C14_CAT(reg_c_, __LINE__)(name "/min", site, 1, &C14_CAT(scn_t_, __LINE__)<ST_MIN>); \
  template <int ST> static void C14_CAT(scn_t_, __LINE__)(Run& r)
#define GR_X  Grid x = gr_state(ST); Grid xf(x)
#define GR_XY Grid x = gr_state(ST); Grid xf(x); Grid y = gr_other(ST); Grid yf(y)

SCN_GR("Grid::add_congruences+conversion", "Grid::add_congruences") {
  GR_X;
  Congruence_System cgs; cgs.insert((A - B %= K(1)) / 6); cgs.insert((C %= 0) / 2);
  faulted(r, [&] { x.add_congruences(cgs); (void) x.minimized_grid_generators(); (void) x.minimized_congruences(); });
  usable(r, x, xf, "x");
}
SCN_GR("Grid::add_grid_generators+conversion", "Grid::add_grid_generators") {
  GR_X;
  Grid_Generator_System gs; gs.insert(grid_point(A + B + C, 3)); gs.insert(parameter(K(2) * C, 5));
  faulted(r, [&] { x.add_grid_generators(gs); (void) x.minimized_congruences(); (void) x.minimized_grid_generators(); });
  usable(r, x, xf, "x");
}
SCN_GR("Grid::conversion(build+minimize)", "Grid::minimized_grid_generators") {
  Grid fresh(3);
  Grid x(3);
  faulted(r, [&] {
    if (ST == ST_GENS) { Grid g(gr_ggs()); (void) g.minimized_congruences(); x = g; }
    else { Grid g(gr_cgs()); (void) g.minimized_grid_generators(); if (ST == ST_MIN) (void) g.minimized_congruences(); x = g; }
  });
  usable(r, x, fresh, "x");
}
SCN_GR("Grid::upper_bound_assign", "Grid::upper_bound_assign") {
  GR_XY;
  faulted(r, [&] { x.upper_bound_assign(y); (void) x.minimized_congruences(); (void) x.upper_bound_assign_if_exact(y); });
  usable(r, x, xf, "x"); usable(r, y, yf, "y");
}
SCN_GR("Grid::intersection_assign", "Grid::intersection_assign") {
  GR_XY;
  faulted(r, [&] { x.intersection_assign(y); (void) x.minimized_grid_generators(); });
  usable(r, x, xf, "x"); usable(r, y, yf, "y");
}
SCN_GR("Grid::difference_assign", "Grid::difference_assign") {
  GR_XY;
  faulted(r, [&] { x.difference_assign(y); (void) x.minimized_congruences(); });
  usable(r, x, xf, "x"); usable(r, y, yf, "y");
}
SCN_GR("Grid::affine_image+preimage", "Grid::affine_image") {
  GR_X;
  faulted(r, [&] { x.affine_image(A, K(2) * A + B - K(3), 2); x.affine_preimage(B, A + K(3) * B + C, 2); (void) x.minimized_congruences(); });
  usable(r, x, xf, "x");
}
SCN_GR("Grid::generalized_affine_image", "Grid::generalized_affine_image") {
  GR_X;
  faulted(r, [&] { x.generalized_affine_image(B, EQUAL, A + K(2) * C + K(1), 2, K(3)); x.generalized_affine_image(A + B, EQUAL, C - K(1), K(2)); x.generalized_affine_preimage(A, EQUAL, B, 1, K(5));
                   x.bounded_affine_image(C, A, A + B); (void) x.minimized_congruences(); });
  usable(r, x, xf, "x");
}
SCN_GR("Grid::widening_assign", "Grid::widening_assign") {
  GR_XY;
  faulted(r, [&] { Grid z(x); z.upper_bound_assign(y); Grid w(z); z.congruence_widening_assign(x); w.generator_widening_assign(x); Grid v(w); v.upper_bound_assign(y); v.widening_assign(w);
                   Congruence_System cgs; cgs.insert((A %= 0) / 7); z.limited_extrapolation_assign(x, cgs); });
  usable(r, x, xf, "x"); usable(r, y, yf, "y");
}
SCN_GR("Grid::copy+assign+swap", "Grid::operator=") {
  GR_XY;
  faulted(r, [&] { Grid z(x); y = z; z.m_swap(x); (void) y.minimized_grid_generators(); });
  usable(r, x, xf, "x"); usable(r, y, yf, "y");
}
SCN_GR("Grid::space dimensions", "Grid::add_space_dimensions_and_embed") {
  GR_XY;
  Variables_Set vs; vs.insert(B);
  Variables_Set fs; fs.insert(A);
  Partial_Function pf; pf.insert(0, 2); pf.insert(2, 0); pf.insert(1, 1);
  faulted(r, [&] { x.add_space_dimensions_and_embed(2); x.add_space_dimensions_and_project(1); x.remove_space_dimensions(vs); x.remove_higher_space_dimensions(3);
                   x.map_space_dimensions(pf); x.expand_space_dimension(B, 2); x.fold_space_dimensions(fs, C); x.concatenate_assign(y); (void) x.minimized_congruences(); });
  usable(r, x, xf, "x"); usable(r, y, yf, "y");
}
SCN_GR("Grid::time_elapse_assign", "Grid::time_elapse_assign") {
  GR_XY;
  faulted(r, [&] { x.time_elapse_assign(y); (void) x.minimized_congruences(); });
  usable(r, x, xf, "x"); usable(r, y, yf, "y");
}
SCN_GR("Grid::relation_with+queries", "Grid::relation_with") {
  GR_XY;
  faulted(r, [&] { (void) x.relation_with((A + B %= K(2)) / 3); (void) x.relation_with(grid_point(A + B + C)); (void) x.relation_with(A >= K(2)); (void) x.relation_with(point(A));
                   Coefficient n, d; bool mx; Generator g(point()); (void) x.maximize(A - A, n, d, mx, g); (void) x.bounds_from_above(A + B);
                   Coefficient fn, fd, vn, vd; (void) x.frequency(A + B, fn, fd, vn, vd);
                   (void) x.contains(y); (void) x.strictly_contains(y); (void) x.is_disjoint_from(y); (void) (x == y); (void) x.is_discrete(); (void) x.is_bounded(); (void) x.contains_integer_point();
                   (void) x.affine_dimension(); (void) x.constrains(B); (void) x.hash_code(); });
  usable(r, x, xf, "x"); usable(r, y, yf, "y");
}
SCN_GR("Grid::Grid(Box|C_Polyhedron)+refine", "Grid::Grid") {
  GR_X;
  Rational_Box box(3); box.add_constraint(A == K(2)); box.add_constraint(K(3) * B == K(1)); box.add_constraint(C >= 0);
  C_Polyhedron ph(3); ph.add_constraint(A + B == K(2)); ph.add_constraint(C >= K(1));
  Constraint_System cs; cs.insert(A - C == K(1)); cs.insert(B >= 0);
  faulted(r, [&] { Grid g1(box); Grid g2(ph); (void) g1.minimized_congruences(); (void) g2.minimized_grid_generators(); x.refine_with_constraints(cs); x.refine_with_congruence((A %= 0) / 2); x.add_constraint(A + B == K(1)); (void) x.minimized_grid_generators(); });
  usable(r, x, xf, "x");
}
SCN_GR("Grid::wrap+unconstrain+simplify", "Grid::wrap_assign") {
  GR_XY;
  Variables_Set vs; vs.insert(A); vs.insert(B);
  faulted(r, [&] { Grid z(x); z.wrap_assign(vs, BITS_8, UNSIGNED, OVERFLOW_WRAPS); z.unconstrain(C); z.unconstrain(vs); (void) x.simplify_using_context_assign(y); x.drop_some_non_integer_points(); (void) x.minimized_congruences();
                   std::stringstream ss; x.ascii_dump(ss); Grid l(3); (void) l.ascii_load(ss); });
  usable(r, x, xf, "x"); usable(r, y, yf, "y");
}

} // namespace c14

// C10: bounded exhaustive explicit-state exploration of Partially_Reduced_Product<D1, D2, R>
// against gamma(d1) /\ gamma(d2) read from the components (no PPL code in the oracle).
//
// A state is a pool of two products (p0 receiver, p1 operand/copy) identified by its history; every
// transition is executed on a pair rebuilt by replaying the history.  Phase A closes a builder
// alphabet (refinements with constraints / congruences from menus, which make the components differ
// and produce inconsistent pairs, explicit reduce(), implicitly reducing observers, copies,
// intersection / upper bound with the operand) to depth D, deduplicated on the ascii_dump texts (the
// dump of a product prints the reduced flag and both components).  Phase B applies every operation
// of the alphabet to every state.
// Oracle: the components are read through -fno-access-control (members d1, d2: never through
// domain1()/domain2(), which reduce) before and after each call.
//   * every call: each component of a product that is not assigned may only change as documented;
//     const member functions (reduce(), observers): each component may only SHRINK and the
//     intersection is UNCHANGED;
//   * transformers: new intersection contains the exact image of the old intersection;
//   * definite answers are true of the intersections.
// Pairs without a Grid component have cell intersections: the check is exact (Fourier-Motzkin).
// Pairs with a Grid component use a point window (rational points k/6 of a box, direct evaluation
// of the printed constraints and congruences).
// One TU per component pair (-DPR_PAIR=1..7) instantiating the five reduction policies behind a
// small virtual interface; one TU with main() (-DPR_PAIR=0).
#include "engine/common.hh"
#include "engine/ppl_ref.hh"
#include "ref/ops.hh"
#include <unordered_map>
#include <unordered_set>
#include <memory>
#include <algorithm>
#include <typeinfo>

#ifndef PR_PAIR
#define PR_PAIR 0
#endif

int pr_run_1(int, char**); int pr_run_2(int, char**); int pr_run_3(int, char**); int pr_run_4(int, char**);
int pr_run_5(int, char**); int pr_run_6(int, char**); int pr_run_7(int, char**);

#if PR_PAIR == 0
int main(int argc, char** argv) {
  std::string pair = "1";
  for (int i = 1; i + 1 < argc; ++i) if (std::string(argv[i]) == "--pair") pair = argv[i + 1];
  switch (atoi(pair.c_str())) {
    case 1: return pr_run_1(argc, argv); case 2: return pr_run_2(argc, argv); case 3: return pr_run_3(argc, argv);
    case 4: return pr_run_4(argc, argv); case 5: return pr_run_5(argc, argv); case 6: return pr_run_6(argc, argv);
    case 7: return pr_run_7(argc, argv);
  }
  fprintf(stderr, "unknown --pair %s\n", pair.c_str());
  return 2;
}
#else

namespace {

using namespace vf;
using ref::Cell; using ref::Row; using ref::Rows; using ref::Vec; using ref::Q; using ref::USet;
using PPL::Variable; using PPL::Coefficient; using PPL::Linear_Expression;

#if PR_PAIR == 1
typedef PPL::Rational_Box D1; typedef PPL::Octagonal_Shape<mpq_class> D2;
const char* PAIR = "Rational_Box,Octagonal_Shape<mpq_class>";
#elif PR_PAIR == 2
typedef PPL::C_Polyhedron D1; typedef PPL::BD_Shape<mpq_class> D2;
const char* PAIR = "C_Polyhedron,BD_Shape<mpq_class>";
#elif PR_PAIR == 3
typedef PPL::NNC_Polyhedron D1; typedef PPL::Rational_Box D2;
const char* PAIR = "NNC_Polyhedron,Rational_Box";
#elif PR_PAIR == 4
typedef PPL::C_Polyhedron D1; typedef PPL::Grid D2;
const char* PAIR = "C_Polyhedron,Grid";
#define PR_GRID 1
#elif PR_PAIR == 5
typedef PPL::NNC_Polyhedron D1; typedef PPL::Grid D2;
const char* PAIR = "NNC_Polyhedron,Grid";
#define PR_GRID 1
#elif PR_PAIR == 6
typedef PPL::BD_Shape<mpq_class> D1; typedef PPL::Grid D2;
const char* PAIR = "BD_Shape<mpq_class>,Grid";
#define PR_GRID 1
#elif PR_PAIR == 7
typedef PPL::C_Polyhedron D1; typedef PPL::BD_Shape<mpz_class> D2;
const char* PAIR = "C_Polyhedron,BD_Shape<mpz_class>";
#endif
#ifdef PR_GRID
const bool kGrid = true;
#else
const bool kGrid = false;
#endif

Args ARGS;

#include "harness/c09_model.hh"

// ------------------------------------------------------------------ concretisation of a component
struct Cg { std::vector<long> a; long b; long m; };      // a.x + b = 0 (mod m), m > 0
struct Gamma {
  int dim; bool bot; Cell cell; std::vector<Cg> cgs;
  Gamma() : dim(0), bot(false) {}
};
long to_long(const Coefficient& c) { Q q = to_q(c); return q.get_num().get_si(); }

template <typename D> struct Reader {
  static Gamma read(const D& d) { Gamma g; g.dim = d.space_dimension(); g.cell = cell_of(d.constraints(), g.dim); g.bot = false; return g; }
};
template <> struct Reader<PPL::Grid> {
  static Gamma read(const PPL::Grid& d) {
    Gamma g; g.dim = d.space_dimension(); g.cell = Cell(g.dim);
    if (d.is_empty()) { g.bot = true; g.cell = Cell::empty(g.dim); return g; }
    const PPL::Congruence_System& cs = d.congruences();
    for (PPL::Congruence_System::const_iterator i = cs.begin(); i != cs.end(); ++i) {
      Cg c; c.a.assign(g.dim, 0);
      for (int j = 0; j < g.dim && j < (int)i->space_dimension(); ++j) c.a[j] = to_long(i->coefficient(Variable(j)));
      c.b = to_long(i->inhomogeneous_term()); c.m = to_long(i->modulus());
      if (c.m == 0) { Row r; r.a.assign(g.dim, Q(0)); for (int j = 0; j < g.dim; ++j) r.a[j] = c.a[j]; r.b = c.b; r.k = ref::EQ; g.cell.rows.push_back(r); }
      else g.cgs.push_back(c);
    }
    return g;
  }
};

bool cg_sat(const Cg& c, const Vec& x) {
  Q v = c.b; for (size_t j = 0; j < c.a.size(); ++j) v += Q(c.a[j]) * x[j];
  v /= c.m; return v.get_den() == 1;
}
bool member(const Gamma& g, const Vec& x) {
  if (g.bot) return false;
  if (!ref::member(g.cell, x)) return false;
  for (size_t i = 0; i < g.cgs.size(); ++i) if (!cg_sat(g.cgs[i], x)) return false;
  return true;
}

// ------------------------------------------------------------------ value of a product
// exact mode: ids of the component cells and of their meet; window mode: membership bitmaps
std::vector<Vec> WIN[4];       // window points per dimension
int WLO[4], WHI[4], WSTEP[4];
void build_window() {
  for (int d = 0; d <= 3; ++d) {
    int lo = d <= 1 ? -24 : d == 2 ? -12 : -6, hi = d <= 1 ? 30 : d == 2 ? 18 : 9, step = d <= 2 ? 1 : 3;
    WLO[d] = lo; WHI[d] = hi; WSTEP[d] = step;
    std::vector<Vec> pts; pts.push_back(Vec());
    for (int j = 0; j < d; ++j) {
      std::vector<Vec> n;
      for (size_t p = 0; p < pts.size(); ++p) for (int k = lo; k <= hi; k += step) { Vec v = pts[p]; Q q(k, 6); q.canonicalize(); v.push_back(q); n.push_back(v); }
      pts.swap(n);
    }
    WIN[d] = pts;
  }
}
// index of x in WIN[d], or -1 when x is not a window point
int win_index(const Vec& x) {
  int d = (int)x.size(); if (d > 3) return -1;
  int n = (WHI[d] - WLO[d]) / WSTEP[d] + 1, idx = 0;
  for (int j = 0; j < d; ++j) {
    Q s = x[j] * 6; if (s.get_den() != 1 || !s.get_num().fits_sint_p()) return -1;
    long k = s.get_num().get_si(); if (k < WLO[d] || k > WHI[d] || (k - WLO[d]) % WSTEP[d]) return -1;
    idx = idx * n + (int)((k - WLO[d]) / WSTEP[d]);
  }
  return idx;
}
struct Val {
  int dim; bool reduced; bool ok; bool stale_flag;
  Gamma g1, g2;
  int c1, c2, meet;              // exact mode (cell ids)
  std::vector<char> w1, w2;      // window mode
  std::string dump;
  Val() : dim(0), reduced(false), ok(true), stale_flag(false), c1(-1), c2(-1), meet(-1) {}
  bool in(const Vec& x) const { if (!w1.empty() && (int)x.size() == dim) { int i = win_index(x); if (i >= 0) return w1[i] && w2[i]; } return member(g1, x) && member(g2, x); }
};
std::vector<char> bitmap(const Gamma& g) {
  const std::vector<Vec>& w = WIN[g.dim];
  std::vector<char> b(w.size(), 0);
  if (g.bot) return b;
  // integer evaluation on the window: x = k/6
  size_t nr = g.cell.rows.size();
  std::vector<std::vector<long> > ra(nr); std::vector<long> rb(nr);
  for (size_t r = 0; r < nr; ++r) {
    mpz_class l = 1; for (int j = 0; j < g.dim; ++j) l = lcm(l, g.cell.rows[r].a[j].get_den()); l = lcm(l, g.cell.rows[r].b.get_den());
    ra[r].resize(g.dim);
    for (int j = 0; j < g.dim; ++j) ra[r][j] = mpz_class(g.cell.rows[r].a[j] * l).get_si();
    rb[r] = mpz_class(g.cell.rows[r].b * l * 6).get_si();
  }
  for (size_t p = 0; p < w.size(); ++p) {
    long k[4]; for (int j = 0; j < g.dim; ++j) k[j] = mpz_class(w[p][j] * 6).get_si();
    bool okp = true;
    for (size_t r = 0; r < nr && okp; ++r) { long v = rb[r]; for (int j = 0; j < g.dim; ++j) v += ra[r][j] * k[j];
      int kd = g.cell.rows[r].k; okp = kd == ref::EQ ? v == 0 : kd == ref::GE ? v >= 0 : v > 0; }
    for (size_t c = 0; c < g.cgs.size() && okp; ++c) { long v = 6 * g.cgs[c].b; for (int j = 0; j < g.dim; ++j) v += g.cgs[c].a[j] * k[j];
      long mm = 6 * g.cgs[c].m; okp = (v % mm) == 0; }
    b[p] = okp;
  }
  return b;
}

// ------------------------------------------------------------------ type-erased product
struct IProd {
  virtual ~IProd() {}
  virtual IProd* copy() const = 0;
  virtual void assign(const IProd&) = 0;
  virtual void swap_with(IProd&) = 0;
  virtual int space_dimension() const = 0;
  virtual void refine_with_constraint(const PPL::Constraint&) = 0;
  virtual void add_constraint(const PPL::Constraint&) = 0;
  virtual void refine_with_constraints(const PPL::Constraint_System&) = 0;
  virtual void add_constraints(const PPL::Constraint_System&) = 0;
  virtual void refine_with_congruence(const PPL::Congruence&) = 0;
  virtual void add_congruence(const PPL::Congruence&) = 0;
  virtual void affine_image(Variable, const Linear_Expression&, const Coefficient&) = 0;
  virtual void affine_preimage(Variable, const Linear_Expression&, const Coefficient&) = 0;
  virtual void generalized_affine_image(Variable, PPL::Relation_Symbol, const Linear_Expression&, const Coefficient&) = 0;
  virtual void bounded_affine_image(Variable, const Linear_Expression&, const Linear_Expression&, const Coefficient&) = 0;
  virtual void intersection_assign(const IProd&) = 0;
  virtual void upper_bound_assign(const IProd&) = 0;
  virtual bool upper_bound_assign_if_exact(const IProd&) = 0;
  virtual void difference_assign(const IProd&) = 0;
  virtual void time_elapse_assign(const IProd&) = 0;
  virtual void concatenate_assign(const IProd&) = 0;
  virtual void unconstrain(Variable) = 0;
  virtual void topological_closure_assign() = 0;
  virtual void add_space_dimensions_and_embed(int) = 0;
  virtual void add_space_dimensions_and_project(int) = 0;
  virtual void remove_space_dimensions(const PPL::Variables_Set&) = 0;
  virtual void remove_higher_space_dimensions(int) = 0;
  virtual void map_space_dimensions(const PPL::Partial_Function&) = 0;
  virtual void expand_space_dimension(Variable, int) = 0;
  virtual void fold_space_dimensions(const PPL::Variables_Set&, Variable) = 0;
  virtual bool reduce() const = 0;
  virtual bool is_empty() const = 0;
  virtual bool is_universe() const = 0;
  virtual bool is_bounded() const = 0;
  virtual bool is_topologically_closed() const = 0;
  virtual bool is_discrete() const = 0;
  virtual bool is_disjoint_from(const IProd&) const = 0;
  virtual bool contains(const IProd&) const = 0;
  virtual bool strictly_contains(const IProd&) const = 0;
  virtual bool equals(const IProd&) const = 0;
  virtual PPL::Poly_Con_Relation relation_with(const PPL::Constraint&) const = 0;
  virtual PPL::Poly_Con_Relation relation_with(const PPL::Congruence&) const = 0;
  virtual PPL::Poly_Gen_Relation relation_with(const PPL::Generator&) const = 0;
  virtual bool bounds_from_above(const Linear_Expression&) const = 0;
  virtual bool bounds_from_below(const Linear_Expression&) const = 0;
  virtual bool maximize(const Linear_Expression&, Coefficient&, Coefficient&, bool&) const = 0;
  virtual bool minimize(const Linear_Expression&, Coefficient&, Coefficient&, bool&) const = 0;
  virtual bool constrains(Variable) const = 0;
  virtual int affine_dimension() const = 0;
  virtual Gamma domain1() const = 0;          // through the public (reducing) accessor
  virtual Gamma domain2() const = 0;
  virtual PPL::Constraint_System constraints() const = 0;
  virtual PPL::Constraint_System minimized_constraints() const = 0;
  virtual PPL::Congruence_System congruences() const = 0;
  virtual Gamma raw1() const = 0;             // members d1 / d2 read without reduction
  virtual Gamma raw2() const = 0;
  virtual bool reduced_flag() const = 0;
  virtual bool OK() const = 0;
  virtual bool components_OK() const = 0;
  virtual std::string comp_rel(int k, const PPL::Congruence&) const = 0;
  virtual std::string comp_relc(int k, const PPL::Constraint&) const = 0;
  virtual std::string dump() const = 0;
};

template <typename PR>
struct ProdImpl : IProd {
  PR p;
  ProdImpl(int dim, PPL::Degenerate_Element k) : p(dim, k) {}
  ProdImpl(const PR& q) : p(q) {}
  static const PR& P(const IProd& x) { return static_cast<const ProdImpl&>(x).p; }
  IProd* copy() const { return new ProdImpl(p); }
  void assign(const IProd& y) { p = P(y); }
  void swap_with(IProd& y) { using std::swap; swap(p, static_cast<ProdImpl&>(y).p); }
  int space_dimension() const { return p.space_dimension(); }
  void refine_with_constraint(const PPL::Constraint& c) { p.refine_with_constraint(c); }
  void add_constraint(const PPL::Constraint& c) { p.add_constraint(c); }
  void refine_with_constraints(const PPL::Constraint_System& c) { p.refine_with_constraints(c); }
  void add_constraints(const PPL::Constraint_System& c) { p.add_constraints(c); }
  void refine_with_congruence(const PPL::Congruence& c) { p.refine_with_congruence(c); }
  void add_congruence(const PPL::Congruence& c) { p.add_congruence(c); }
  void affine_image(Variable v, const Linear_Expression& e, const Coefficient& d) { p.affine_image(v, e, d); }
  void affine_preimage(Variable v, const Linear_Expression& e, const Coefficient& d) { p.affine_preimage(v, e, d); }
  void generalized_affine_image(Variable v, PPL::Relation_Symbol r, const Linear_Expression& e, const Coefficient& d) { p.generalized_affine_image(v, r, e, d); }
  void bounded_affine_image(Variable v, const Linear_Expression& l, const Linear_Expression& u, const Coefficient& d) { p.bounded_affine_image(v, l, u, d); }
  void intersection_assign(const IProd& y) { p.intersection_assign(P(y)); }
  void upper_bound_assign(const IProd& y) { p.upper_bound_assign(P(y)); }
  bool upper_bound_assign_if_exact(const IProd& y) { return p.upper_bound_assign_if_exact(P(y)); }
  void difference_assign(const IProd& y) { p.difference_assign(P(y)); }
  void time_elapse_assign(const IProd& y) { p.time_elapse_assign(P(y)); }
  void concatenate_assign(const IProd& y) { p.concatenate_assign(P(y)); }
  void unconstrain(Variable v) { p.unconstrain(v); }
  void topological_closure_assign() { p.topological_closure_assign(); }
  void add_space_dimensions_and_embed(int m) { p.add_space_dimensions_and_embed(m); }
  void add_space_dimensions_and_project(int m) { p.add_space_dimensions_and_project(m); }
  void remove_space_dimensions(const PPL::Variables_Set& v) { p.remove_space_dimensions(v); }
  void remove_higher_space_dimensions(int n) { p.remove_higher_space_dimensions(n); }
  void map_space_dimensions(const PPL::Partial_Function& f) { p.map_space_dimensions(f); }
  void expand_space_dimension(Variable v, int m) { p.expand_space_dimension(v, m); }
  void fold_space_dimensions(const PPL::Variables_Set& vs, Variable v) { p.fold_space_dimensions(vs, v); }
  bool reduce() const { return p.reduce(); }
  bool is_empty() const { return p.is_empty(); }
  bool is_universe() const { return p.is_universe(); }
  bool is_bounded() const { return p.is_bounded(); }
  bool is_topologically_closed() const { return p.is_topologically_closed(); }
  bool is_discrete() const { return p.is_discrete(); }
  bool is_disjoint_from(const IProd& y) const { return p.is_disjoint_from(P(y)); }
  bool contains(const IProd& y) const { return p.contains(P(y)); }
  bool strictly_contains(const IProd& y) const { return p.strictly_contains(P(y)); }
  bool equals(const IProd& y) const { return p == P(y); }
  PPL::Poly_Con_Relation relation_with(const PPL::Constraint& c) const { return p.relation_with(c); }
  PPL::Poly_Con_Relation relation_with(const PPL::Congruence& c) const { return p.relation_with(c); }
  PPL::Poly_Gen_Relation relation_with(const PPL::Generator& g) const { return p.relation_with(g); }
  bool bounds_from_above(const Linear_Expression& e) const { return p.bounds_from_above(e); }
  bool bounds_from_below(const Linear_Expression& e) const { return p.bounds_from_below(e); }
  bool maximize(const Linear_Expression& e, Coefficient& n, Coefficient& d, bool& m) const { return p.maximize(e, n, d, m); }
  bool minimize(const Linear_Expression& e, Coefficient& n, Coefficient& d, bool& m) const { return p.minimize(e, n, d, m); }
  bool constrains(Variable v) const { return p.constrains(v); }
  int affine_dimension() const { return p.affine_dimension(); }
  Gamma domain1() const { return Reader<D1>::read(p.domain1()); }
  Gamma domain2() const { return Reader<D2>::read(p.domain2()); }
  PPL::Constraint_System constraints() const { return p.constraints(); }
  PPL::Constraint_System minimized_constraints() const { return p.minimized_constraints(); }
  PPL::Congruence_System congruences() const { return p.congruences(); }
  Gamma raw1() const { return Reader<D1>::read(p.d1); }
  Gamma raw2() const { return Reader<D2>::read(p.d2); }
  bool reduced_flag() const { return p.reduced; }
  bool OK() const { return p.OK(); }
  bool components_OK() const { return p.d1.OK() && p.d2.OK() && p.d1.space_dimension() == p.d2.space_dimension(); }
  std::string comp_relc(int k, const PPL::Constraint& c) const { PPL::Poly_Con_Relation r = k == 1 ? p.d1.relation_with(c) : p.d2.relation_with(c);
    return std::string(r.implies(PPL::Poly_Con_Relation::is_disjoint()) ? "D" : "") + (r.implies(PPL::Poly_Con_Relation::is_included()) ? "I" : "") + (r.implies(PPL::Poly_Con_Relation::saturates()) ? "S" : ""); }
  std::string comp_rel(int k, const PPL::Congruence& cg) const { PPL::Poly_Con_Relation r = k == 1 ? p.d1.relation_with(cg) : p.d2.relation_with(cg);
    return std::string(r.implies(PPL::Poly_Con_Relation::is_disjoint()) ? "D" : "") + (r.implies(PPL::Poly_Con_Relation::is_included()) ? "I" : ""); }
  std::string dump() const { return dump_of(p); }
};

int RED = 0;     // reduction policy of this run
const char* RED_NAMES[] = {"No_Reduction", "Smash_Reduction", "Constraints_Reduction", "Congruences_Reduction", "Shape_Preserving_Reduction"};
IProd* make_prod(int dim, bool empty) {
  PPL::Degenerate_Element k = empty ? PPL::EMPTY : PPL::UNIVERSE;
  switch (RED) {
    case 0: return new ProdImpl<PPL::Partially_Reduced_Product<D1, D2, PPL::No_Reduction<D1, D2> > >(dim, k);
    case 1: return new ProdImpl<PPL::Partially_Reduced_Product<D1, D2, PPL::Smash_Reduction<D1, D2> > >(dim, k);
    case 2: return new ProdImpl<PPL::Partially_Reduced_Product<D1, D2, PPL::Constraints_Reduction<D1, D2> > >(dim, k);
    case 3: return new ProdImpl<PPL::Partially_Reduced_Product<D1, D2, PPL::Congruences_Reduction<D1, D2> > >(dim, k);
    default: return new ProdImpl<PPL::Partially_Reduced_Product<D1, D2, PPL::Shape_Preserving_Reduction<D1, D2> > >(dim, k);
  }
}
// the finding group does not depend on the instantiation (pair and reduction are part of the input)
std::string site_prefix() { return "Partially_Reduced_Product<D1,D2,R>::"; }

struct Pool2 { std::unique_ptr<IProd> p[2]; };

Val val_of(const IProd& p) {
  Val v; v.dim = p.space_dimension(); v.reduced = p.reduced_flag();
  v.dump = p.dump();
  // OK() of a product also re-runs the reduction when the reduced flag is set and compares: a stale
  // flag / non-idempotent reduction is recorded (informational) but only the components' own
  // invariants count as an invariant violation of the property
  v.ok = p.components_OK();
  v.stale_flag = v.ok && !p.OK();
  v.g1 = p.raw1(); v.g2 = p.raw2();
  if (!kGrid) {
    v.c1 = CT.id(v.g1.cell); v.c2 = CT.id(v.g2.cell);
    v.meet = CT.id(ref::meet(CT[v.c1], CT[v.c2]));
  } else {
    if (v.dim <= 3) { v.w1 = bitmap(v.g1); v.w2 = bitmap(v.g2); }
  }
  return v;
}

// ------------------------------------------------------------------ comparisons of values
struct Pre { Val s[2]; };
std::string vstr(const Val& v) {
  std::string s = "d1=" + ref::cell_str(v.g1.cell) + (v.g1.bot ? "(empty)" : "");
  for (const Cg& c : v.g1.cgs) { s += " cg["; for (long a : c.a) s += std::to_string(a) + ","; s += std::to_string(c.b) + " mod " + std::to_string(c.m) + "]"; }
  s += "  d2=" + ref::cell_str(v.g2.cell) + (v.g2.bot ? "(empty)" : "");
  for (const Cg& c : v.g2.cgs) { s += " cg["; for (long a : c.a) s += std::to_string(a) + ","; s += std::to_string(c.b) + " mod " + std::to_string(c.m) + "]"; }
  s += v.reduced ? "  +reduced" : "  -reduced";
  return s;
}
std::string qstr(const Q& q) { std::ostringstream s; s << q; return s.str(); }
std::string B(bool b) { return b ? "true" : "false"; }
std::string bad(const std::string& clause, const std::string& obs = "", const std::string& exp = "", const std::string& detail = "") {
  return clause + "\x1f" + obs + "\x1f" + exp + "\x1f" + detail;
}
bool wmeet(const Val& v, size_t i) { return v.w1[i] && v.w2[i]; }

// component `which` of `a` is included in the same component of `b` (same dimension)
bool comp_subset(const Val& a, const Val& b, int which, std::string& wit) {
  const Gamma& ga = which == 1 ? a.g1 : a.g2; const Gamma& gb = which == 1 ? b.g1 : b.g2;
  if (ga.cgs.empty() && gb.cgs.empty() && !kGrid) {
    int ia = which == 1 ? a.c1 : a.c2, ib = which == 1 ? b.c1 : b.c2;
    if (csubset(ia, ib)) return true;
    U x(1, ia), y(1, ib); wit = uwitness(x, y); return false;
  }
  const std::vector<char>& wa = which == 1 ? a.w1 : a.w2; const std::vector<char>& wb = which == 1 ? b.w1 : b.w2;
  for (size_t i = 0; i < wa.size(); ++i) if (wa[i] && !wb[i]) { wit = "point " + ref::vec_str(WIN[a.dim][i]) + " is in the component after the call but not before"; return false; }
  if (ga.cgs.empty() && gb.cgs.empty()) { RefGuard g; if (!ref::subset(ga.bot ? Cell::empty(ga.dim) : ga.cell, gb.bot ? Cell::empty(gb.dim) : gb.cell)) { wit = "cells"; return false; } }
  return true;
}
// intersection of a == intersection of b ; on failure a witness point
bool meet_equal(const Val& a, const Val& b, std::string& wit) {
  if (!kGrid) {
    U x(1, a.meet), y(1, b.meet);
    if (uequal(x, y)) return true;
    wit = uwitness(x, y); return false;
  }
  for (size_t i = 0; i < a.w1.size(); ++i) if (wmeet(a, i) != wmeet(b, i)) {
    wit = "point " + ref::vec_str(WIN[a.dim][i]) + (wmeet(b, i) ? " belonged to both components before the call and does not afterwards" : " belongs to both components after the call and did not before");
    return false; }
  return true;
}
bool meet_empty(const Val& v) {
  if (!kGrid) return CT.empty[v.meet];
  for (size_t i = 0; i < v.w1.size(); ++i) if (wmeet(v, i)) return false;
  return true;    // on the window
}
bool meet_subset(const Val& a, const Val& b, std::string& wit) {   // I(a) subseteq I(b)
  if (!kGrid) { U x(1, a.meet), y(1, b.meet); if (usubset(x, y)) return true; wit = uwitness(x, uunion(x, y)).empty() ? uwitness(x, y) : uwitness(x, y); return false; }
  for (size_t i = 0; i < a.w1.size(); ++i) if (wmeet(a, i) && !wmeet(b, i)) { wit = "point " + ref::vec_str(WIN[a.dim][i]); return false; }
  return true;
}

// ------------------------------------------------------------------ menus
CN lin(std::initializer_list<long> a, long b, int k) { return CN(LE(a, b), k); }
std::vector<CN> CONS;
struct CGN { LE e; long m; std::string str() const { return e.str() + "=0 mod " + std::to_string(m); }
  PPL::Congruence ppl() const { return (e.ppl() %= 0) / Coefficient(m); } };
std::vector<CGN> CGS;
struct AF { int var; LE e; long d; };
std::vector<AF> AFF;
bool fits(const LE& e, int dim) { return e.dim() <= dim; }

void build_menus() {
  using ref::EQ; using ref::GE; using ref::GT;
  CONS = {
    lin({1, 0}, 0, GE),       // 0: x >= 0
    lin({-1, 0}, 2, GE),      // 1: x <= 2
    lin({0, 1}, 0, GE),       // 2: y >= 0
    lin({0, -1}, 2, GE),      // 3: y <= 2
    lin({1, -1}, 0, GE),      // 4: x >= y
    lin({-1, -1}, 2, GE),     // 5: x + y <= 2
    lin({-1, -2}, 3, GE),     // 6: x + 2y <= 3
    lin({1, 1}, -5, GE),      // 7: x + y >= 5
    lin({1, 0}, -3, GE),      // 8: x >= 3
    lin({1, 0}, -1, EQ),      // 9: x = 1
    lin({1, 0}, 0, GT),       // 10: x > 0
    lin({2, 0}, -1, GE),      // 11: x >= 1/2
    lin({1, -1}, -1, EQ),     // 12: x - y = 1
    lin({-2, 0}, 3, GE),      // 13: x <= 3/2
    // bounds whose nearest point of a lattice of period 3/2 (2x = 0 or 1 mod 3) lies on the infeasible side
    lin({1, 0}, -2, GE),      // 14: x >= 2
    lin({-1, 0}, 1, GE),      // 15: x <= 1
    lin({1, 0}, 1, GE),       // 16: x >= -1
  };
  CGS = { {LE({1, 0}, 0), 2}, {LE({1, 0}, -1), 0}, {LE({1, 0}, 1), 2}, {LE({1, 1}, 0), 3}, {LE({2, 0}, 1), 2},
          {LE({2, 0}, 0), 3}, {LE({2, 0}, -1), 3} };    // 2x = 0 mod 3, 2x = 1 mod 3: period 3/2 (non-integral frequencies)
  AFF = { {0, LE({1, 0}, 1), 1}, {0, LE({1, 1}, 0), 1}, {0, LE({2, 0}, 0), 1}, {0, LE({1, 0}, 0), 2}, {0, LE({0, 0}, 1), 1}, {1, LE({-1, 0}, 0), 1}, {0, LE({-1, 0}, 3), 1}, {0, LE({3, 0}, 0), 4} };
}

// ------------------------------------------------------------------ operations
struct Op {
  std::string name, method;
  int t; bool builder, constm, binary, assigns;     // constm: const member function (components may only shrink, meet unchanged)
  std::function<bool(const Pre&)> ok;
  std::function<std::string(Pool2&)> apply;
  // exact reference: a cell that must be included in the new intersection (given old intersections of receiver and operand)
  std::function<Cell(const Cell&, const Cell&)> img;
  // window reference: points that must belong to the new intersection, for x in the old one (y ranges over operand points)
  std::function<void(const Vec& x, const Val& recv, const Val& oper, std::vector<Vec>& out)> pts;
  // extra check on return value / exactness: "" or bad(...)
  std::function<std::string(const Pre&, const Val*, const std::string&)> check;
  Op() : t(0), builder(false), constm(false), binary(false), assigns(false) {}
};
std::vector<Op> OPS;
void add(const Op& o) { OPS.push_back(o); }
std::string slot(int t) { return t ? "p1" : "p0"; }
bool same_dim(const Pre& p) { return p.s[0].dim == p.s[1].dim; }
Vec addv(const Vec& a, const Vec& b, const Q& t) { Vec r(a.size()); for (size_t i = 0; i < a.size(); ++i) r[i] = a[i] + t * b[i]; return r; }
Q dot(const LE& e, const Vec& x) { Q v = e.b; for (size_t i = 0; i < x.size() && i < e.a.size(); ++i) v += Q(e.a[i]) * x[i]; return v; }
// a few points of the operand's intersection (window mode, for binary transformers)
std::vector<Vec> some_points(const Val& v, size_t maxn) {
  std::vector<Vec> o; if (v.w1.empty()) return o;
  size_t n = v.w1.size(), step = 7;
  for (size_t i = 0, k = 0; k < n && o.size() < maxn; ++k, i = (i + step) % n) if (wmeet(v, i)) o.push_back(WIN[v.dim][i]);
  return o;
}
std::string rel_flags(const PPL::Poly_Con_Relation& r) {
  std::string s;
  if (r.implies(PPL::Poly_Con_Relation::is_disjoint())) s += "D";
  if (r.implies(PPL::Poly_Con_Relation::strictly_intersects())) s += "X";
  if (r.implies(PPL::Poly_Con_Relation::is_included())) s += "I";
  if (r.implies(PPL::Poly_Con_Relation::saturates())) s += "S";
  return s.empty() ? "-" : s;
}
PPL::Relation_Symbol relsym_ppl(int r) {
  switch (r) { case 0: return PPL::LESS_THAN; case 1: return PPL::LESS_OR_EQUAL; case 2: return PPL::EQUAL; case 3: return PPL::GREATER_OR_EQUAL; default: return PPL::GREATER_THAN; }
}
const char* relsym_name(int r) { static const char* n[] = {"<", "<=", "=", ">=", ">"}; return n[r]; }
bool rel_holds(int r, const Q& a, const Q& b) { switch (r) { case 0: return a < b; case 1: return a <= b; case 2: return a == b; case 3: return a >= b; default: return a > b; } }

void build_ops() {
  typedef const Pre& CP; typedef const Val* VP; typedef const std::string& CS;
  for (int t = 0; t < 2; ++t) {
    int s = 1 - t;
    // ---- refinement with constraints
    for (size_t ci = 0; ci < CONS.size(); ++ci) {
      CN c = CONS[ci];
      bool sub1 = (ci == 1 || ci == 4 || ci == 7 || ci == 8 || ci == 11);
      if (t == 1 && !sub1) continue;
      Op o; o.t = t; o.method = "refine_with_constraint"; o.name = slot(t) + ".refine_with_constraint(" + c.str() + ")"; o.builder = (ci < 14 || kGrid);
      o.ok = [t, c](CP p) { return fits(c.e, p.s[t].dim); };
      o.apply = [t, c](Pool2& P) { P.p[t]->refine_with_constraint(c.ppl()); return std::string(); };
      o.img = [c](const Cell& I, const Cell&) { Cell r = I; if (!r.bot) r.rows.push_back(c.row(I.n)); return r; };
      o.pts = [c](const Vec& x, const Val&, const Val&, std::vector<Vec>& out) { if (ref::sat(c.row(x.size()), x)) out.push_back(x); };
      o.check = [t](CP pre, VP post, CS) -> std::string { std::string w;   // refinement never grows a component
        for (int k = 1; k <= 2; ++k) if (!comp_subset(post[t], pre.s[t], k, w)) return bad("refine:component-grew", vstr(post[t]), vstr(pre.s[t]), w);
        return ""; };
      add(o);
    }
    if (t == 0) for (size_t ci : {0u, 1u, 9u}) {
      CN c = CONS[ci];
      if (kGrid && c.k != ref::EQ) continue;     // Grid::add_constraint accepts equalities only (documented precondition)
      Op o; o.t = t; o.method = "add_constraint"; o.name = slot(t) + ".add_constraint(" + c.str() + ")";
      o.ok = [t, c](CP p) { return fits(c.e, p.s[t].dim); };
      o.apply = [t, c](Pool2& P) { P.p[t]->add_constraint(c.ppl()); return std::string(); };
      o.img = [c](const Cell& I, const Cell&) { Cell r = I; if (!r.bot) r.rows.push_back(c.row(I.n)); return r; };
      o.pts = [c](const Vec& x, const Val&, const Val&, std::vector<Vec>& out) { if (ref::sat(c.row(x.size()), x)) out.push_back(x); };
      o.check = [t, c](CP pre, VP post, CS) -> std::string {   // exact in every component: the new intersection is exactly I /\ c
        if (kGrid) { for (size_t i = 0; i < post[t].w1.size(); ++i) if (wmeet(post[t], i) && !(wmeet(pre.s[t], i) && ref::sat(c.row(pre.s[t].dim), WIN[pre.s[t].dim][i])))
            return bad("add_constraint:intersection-exceeds-I-and-c", vstr(post[t]), "", "point " + ref::vec_str(WIN[pre.s[t].dim][i])); return ""; }
        Cell r = CT[pre.s[t].meet]; if (!r.bot) r.rows.push_back(c.row(r.n)); U want(1, CT.id(r)), got(1, post[t].meet);
        return uequal(got, want) ? "" : bad("add_constraint:intersection!=I-and-c", vstr(post[t]), ustr(want), uwitness(got, want)); };
      add(o);
    }
    if (t == 0) { CN a = CONS[0], b = CONS[5];
      Op o; o.t = t; o.method = "refine_with_constraints"; o.name = slot(t) + ".refine_with_constraints({" + a.str() + ", " + b.str() + "})";
      o.ok = [t](CP p) { return p.s[t].dim == 2; };
      o.apply = [t, a, b](Pool2& P) { PPL::Constraint_System cs; cs.insert(a.ppl()); cs.insert(b.ppl()); P.p[t]->refine_with_constraints(cs); return std::string(); };
      o.img = [a, b](const Cell& I, const Cell&) { Cell r = I; if (!r.bot) { r.rows.push_back(a.row(I.n)); r.rows.push_back(b.row(I.n)); } return r; };
      o.pts = [a, b](const Vec& x, const Val&, const Val&, std::vector<Vec>& out) { if (ref::sat(a.row(x.size()), x) && ref::sat(b.row(x.size()), x)) out.push_back(x); };
      add(o); }
    // ---- congruences
    for (size_t gi = 0; gi < CGS.size(); ++gi) {
      CGN g = CGS[gi];
      if (t == 1 && gi != 0) continue;
      if (!kGrid && gi >= 2) continue;
      for (int addc = 0; addc < 2; ++addc) {
        if (addc && (!kGrid || t == 1)) continue;      // add_congruence throws on components that cannot represent proper congruences
        Op o; o.t = t; o.method = addc ? "add_congruence" : "refine_with_congruence"; o.name = slot(t) + "." + o.method + "(" + g.str() + ")"; o.builder = !addc;
        o.ok = [t, g, addc](CP p) { return fits(g.e, p.s[t].dim) && (!addc || g.m == 0); };
        o.apply = [t, g, addc](Pool2& P) { if (addc) P.p[t]->add_congruence(g.ppl()); else P.p[t]->refine_with_congruence(g.ppl()); return std::string(); };
        auto holds = [g](const Vec& x) { Q v = dot(g.e, x); if (g.m == 0) return v == 0; v /= g.m; return v.get_den() == 1; };
        if (g.m == 0) o.img = [g](const Cell& I, const Cell&) { Cell r = I; if (!r.bot) r.rows.push_back(Row(g.e.vec(I.n), Q(g.e.b), ref::EQ)); return r; };
        else o.img = [](const Cell& I, const Cell&) { return Cell::empty(I.n); };     // no exact cell image: only the window check applies
        o.pts = [holds](const Vec& x, const Val&, const Val&, std::vector<Vec>& out) { if (holds(x)) out.push_back(x); };
        o.check = [t](CP pre, VP post, CS) -> std::string { std::string w;
          for (int k = 1; k <= 2; ++k) if (!comp_subset(post[t], pre.s[t], k, w)) return bad("refine:component-grew", vstr(post[t]), vstr(pre.s[t]), w);
          return ""; };
        add(o);
      }
    }
    // ---- copies
    { Op o; o.t = t; o.method = "operator="; o.name = slot(t) + " = " + slot(s); o.builder = (t == 1); o.assigns = true;
      o.ok = [](CP) { return true; };
      o.apply = [t, s](Pool2& P) { P.p[t]->assign(*P.p[s]); return std::string(); };
      o.check = [t, s](CP pre, VP post, CS) -> std::string { std::string w;
        if (post[t].dim != pre.s[s].dim) return bad("copy:dimension");
        for (int k = 1; k <= 2; ++k) if (!comp_subset(post[t], pre.s[s], k, w) || !comp_subset(pre.s[s], post[t], k, w)) return bad("copy:component-differs-from-source", vstr(post[t]), vstr(pre.s[s]), w);
        if (post[t].reduced != pre.s[s].reduced) return bad("copy:reduced-flag-differs", vstr(post[t]), vstr(pre.s[s]));
        return ""; };
      add(o); }
    { Op o; o.t = t; o.method = "Partially_Reduced_Product(copy)"; o.name = slot(t) + " := new copy of " + slot(s); o.builder = (t == 1); o.assigns = true;
      o.ok = [](CP) { return true; };
      o.apply = [t, s](Pool2& P) { P.p[t].reset(P.p[s]->copy()); return std::string(); };
      o.check = [t, s](CP, VP post, CS) -> std::string { std::string w;
        if (post[t].dim != post[s].dim || !meet_equal(post[t], post[s], w)) return bad("copy:intersection-differs-from-source", vstr(post[t]), vstr(post[s]), w);
        return ""; };
      add(o); }
    // ---- explicit reduction and const observers
    auto cst = [t](const std::string& m, bool builder, std::function<std::string(IProd&)> run, std::function<std::string(CP, VP, CS)> chk,
                   std::function<bool(CP)> ok = std::function<bool(CP)>()) {
      Op o; o.t = t; o.method = m.substr(0, m.find('(')); o.name = slot(t) + "." + m; o.constm = true; o.builder = builder;
      o.ok = ok ? ok : [](CP) { return true; };
      o.apply = [t, run](Pool2& P) { return run(*P.p[t]); };
      o.check = chk; add(o); };
    cst("reduce()", true, [](IProd& p) { return B(p.reduce()); }, [t](CP pre, VP post, CS) -> std::string {
      if (!post[t].reduced) return bad("reduce:flag-not-set"); (void)pre; return ""; });
    if (t == 1) continue;
    cst("is_empty()", true, [](IProd& p) { return B(p.is_empty()); }, [t](CP pre, VP, CS ret) -> std::string {
      bool e = meet_empty(pre.s[t]);
      if (ret == "true" && !e) return bad("is_empty:true-but-intersection-non-empty", ret, "false", vstr(pre.s[t]));
      if (ret == "false" && e && !kGrid && (RED == 2 || RED == 4)) return bad("is_empty:false-after-constraints-reduction-of-an-empty-intersection", ret, "true", vstr(pre.s[t]));
      return ""; });
    cst("is_universe()", false, [](IProd& p) { return B(p.is_universe()); }, [t](CP pre, VP, CS ret) -> std::string {
      if (ret != "true") return "";
      const Val& v = pre.s[t];
      if (!kGrid) { U un(1, CT.id(Cell::universe(v.dim))), m(1, v.meet); if (!usubset(un, m)) return bad("is_universe:true-but-intersection-not-universe", ret, "false", vstr(v)); }
      else for (size_t i = 0; i < v.w1.size(); ++i) if (!wmeet(v, i)) return bad("is_universe:true-but-intersection-not-universe", ret, "false", vstr(v));
      return ""; });
    cst("is_bounded()", false, [](IProd& p) { return B(p.is_bounded()); }, [t](CP pre, VP, CS ret) -> std::string {
      if (ret != "true" || kGrid) return "";
      const Cell& I = CT[pre.s[t].meet]; if (I.bot) return "";
      RefGuard g;
      for (int i = 0; i < I.n; ++i) { Vec v(I.n, Q(0)); v[i] = 1; if (ref::sup(I, v, Q(0)).status == 2 || ref::inf(I, v, Q(0)).status == 2) return bad("is_bounded:true-but-intersection-unbounded", ret, "false", vstr(pre.s[t])); }
      return ""; });
    cst("is_topologically_closed()", false, [](IProd& p) { return B(p.is_topologically_closed()); }, [t](CP pre, VP, CS ret) -> std::string {
      if (ret != "true" || kGrid) return "";
      U m(1, pre.s[t].meet), cl(1, CT.id(ref::closure(CT[pre.s[t].meet])));
      return usubset(cl, m) ? "" : bad("is_topologically_closed:true-but-intersection-not-closed", ret, "false", vstr(pre.s[t])); });
    cst("is_discrete()", false, [](IProd& p) { return B(p.is_discrete()); }, [t](CP pre, VP, CS ret) -> std::string {
      if (ret != "true" || kGrid) return "";
      const Cell& I = CT[pre.s[t].meet]; if (I.bot) return "";
      RefGuard g; return ref::affine_dimension(I) == 0 ? "" : bad("is_discrete:true-but-intersection-not-discrete", ret, "false", vstr(pre.s[t])); });
    cst("affine_dimension()", false, [](IProd& p) { return std::to_string(p.affine_dimension()); }, [t](CP pre, VP, CS ret) -> std::string {
      if (kGrid) return "";
      const Cell& I = CT[pre.s[t].meet]; if (I.bot) return "";
      RefGuard g; int ad = ref::affine_dimension(I);
      return atoi(ret.c_str()) >= ad ? "" : bad("affine_dimension:smaller-than-that-of-the-intersection", ret, ">= " + std::to_string(ad), vstr(pre.s[t])); });
    for (int which = 1; which <= 2; ++which)
      cst(which == 1 ? "domain1()" : "domain2()", which == 1, [which](IProd& p) { Gamma g = which == 1 ? p.domain1() : p.domain2(); (void)g; return std::string(); },
          [](CP, VP, CS) -> std::string { return ""; });
    cst("constraints()", false, [](IProd& p) { PPL::Constraint_System cs = p.constraints(); int d = p.space_dimension(); return std::to_string(CT.id(cell_of(cs, d))); },
        [t](CP pre, VP post, CS ret) -> std::string {
          if (kGrid) { const Cell& c = CT[atoi(ret.c_str())]; for (size_t i = 0; i < pre.s[t].w1.size(); ++i) if (wmeet(pre.s[t], i) && !ref::member(c, WIN[pre.s[t].dim][i]))
              return bad("constraints():exclude-a-point-of-the-intersection", ref::cell_str(c), "", "point " + ref::vec_str(WIN[pre.s[t].dim][i])); return ""; }
          U got(1, atoi(ret.c_str())), want(1, post[t].meet);
          return uequal(got, want) ? "" : bad("constraints():!=intersection-of-components", ustr(got), ustr(want), uwitness(got, want)); });
    cst("minimized_constraints()", false, [](IProd& p) { PPL::Constraint_System cs = p.minimized_constraints(); int d = p.space_dimension(); return std::to_string(CT.id(cell_of(cs, d))); },
        [t](CP pre, VP post, CS ret) -> std::string {
          if (kGrid) { const Cell& c = CT[atoi(ret.c_str())]; for (size_t i = 0; i < pre.s[t].w1.size(); ++i) if (wmeet(pre.s[t], i) && !ref::member(c, WIN[pre.s[t].dim][i]))
              return bad("constraints():exclude-a-point-of-the-intersection", ref::cell_str(c), "", "point " + ref::vec_str(WIN[pre.s[t].dim][i])); return ""; }
          U got(1, atoi(ret.c_str())), want(1, post[t].meet);
          return uequal(got, want) ? "" : bad("constraints():!=intersection-of-components", ustr(got), ustr(want), uwitness(got, want)); });
    // maximize / minimize / bounds
    std::vector<LE> exprs = { LE({1, 0}, 0), LE({1, 1}, 0), LE({-1, 2}, 1) };
    for (const LE& e0 : exprs) for (int maxi = 0; maxi < 2; ++maxi) {
      LE e = e0;
      auto okf = [t, e](CP p) { return fits(e, p.s[t].dim); };
      cst(std::string(maxi ? "maximize(" : "minimize(") + e.str() + ")", false, [e, maxi](IProd& p) {
          Coefficient n, d; bool incl; bool b = maxi ? p.maximize(e.ppl(), n, d, incl) : p.minimize(e.ppl(), n, d, incl);
          if (!b) return std::string("false");
          Q v(to_q(n).get_num(), to_q(d).get_num()); v.canonicalize();
          return "true," + qstr(v) + "," + (incl ? "incl" : "notincl"); },
        [t, e, maxi](CP pre, VP, CS ret) -> std::string {
          if (ret == "false") return "";
          size_t c1 = ret.find(','), c2 = ret.find(',', c1 + 1); Q v(ret.substr(c1 + 1, c2 - c1 - 1)); bool incl = ret.substr(c2 + 1) == "incl";
          const Val& pv = pre.s[t];
          if (kGrid) { for (size_t i = 0; i < pv.w1.size(); ++i) if (wmeet(pv, i)) { Q x = dot(e, WIN[pv.dim][i]);
              if (maxi ? (x > v || (x == v && !incl)) : (x < v || (x == v && !incl))) return bad("maximize:bound-violated-by-a-point-of-the-intersection", ret, "", "point " + ref::vec_str(WIN[pv.dim][i])); } return ""; }
          ref::Sup sp; { RefGuard g; sp = maxi ? ref::sup(CT[pv.meet], e.vec(pv.dim), Q(e.b)) : ref::inf(CT[pv.meet], e.vec(pv.dim), Q(e.b)); }
          if (sp.status == 0) return "";
          if (sp.status == 2) return bad("maximize:true-but-unbounded-on-the-intersection", ret, "false", vstr(pv));
          bool okv = maxi ? (sp.value < v || (sp.value == v && (incl || !sp.attained))) : (sp.value > v || (sp.value == v && (incl || !sp.attained)));
          return okv ? "" : bad("maximize:value-is-not-a-bound-of-the-intersection", ret, std::string(maxi ? "sup " : "inf ") + qstr(sp.value) + (sp.attained ? " attained" : " not attained"), vstr(pv)); }, okf);
      cst(std::string(maxi ? "bounds_from_above(" : "bounds_from_below(") + e.str() + ")", false, [e, maxi](IProd& p) { return B(maxi ? p.bounds_from_above(e.ppl()) : p.bounds_from_below(e.ppl())); },
        [t, e, maxi](CP pre, VP, CS ret) -> std::string {
          if (ret != "true" || kGrid) return "";
          const Val& pv = pre.s[t]; ref::Sup sp; { RefGuard g; sp = maxi ? ref::sup(CT[pv.meet], e.vec(pv.dim), Q(e.b)) : ref::inf(CT[pv.meet], e.vec(pv.dim), Q(e.b)); }
          return sp.status != 2 ? "" : bad("bounds:true-but-unbounded-on-the-intersection", ret, "false", vstr(pv)); }, okf);
    }
    // relation_with
    for (const CN& c0 : CONS) { CN c = c0;
      cst("relation_with(" + c.str() + ")", false, [c](IProd& p) { return rel_flags(p.relation_with(c.ppl())); },
        [t, c](CP pre, VP, CS ret) -> std::string {
          const Val& pv = pre.s[t]; Row r = c.row(pv.dim); Row er = r; er.k = ref::EQ;
          bool I = ret.find('I') != std::string::npos, D = ret.find('D') != std::string::npos, S = ret.find('S') != std::string::npos, X = ret.find('X') != std::string::npos;
          if (kGrid) { for (size_t i = 0; i < pv.w1.size(); ++i) if (wmeet(pv, i)) { const Vec& x = WIN[pv.dim][i];
              if ((I && !ref::sat(r, x)) || (D && ref::sat(r, x)) || (S && !ref::sat(er, x))) return bad("relation_with:definite-answer-unsound", ret, "", "point " + ref::vec_str(x)); } return ""; }
          const Cell& M = CT[pv.meet]; RefGuard g;
          Cell mc = M; if (!mc.bot) mc.rows.push_back(r);
          bool incl = ref::implies(M, r), disj = ref::is_empty(mc), sat = ref::implies(M, er);
          if ((I && !incl) || (D && !disj) || (S && !sat) || (X && (disj || incl))) return bad("relation_with:definite-answer-unsound", ret, std::string(disj ? "D" : "") + (incl ? "I" : "") + (sat ? "S" : ""), vstr(pv));
          return ""; },
        [t, c](CP p) { return fits(c.e, p.s[t].dim); }); }
    for (const CGN& g0 : CGS) { CGN g = g0;
      cst("relation_with(" + g.str() + ")", false, [g](IProd& p) { return rel_flags(p.relation_with(g.ppl())); },
        [t, g](CP pre, VP, CS ret) -> std::string {
          const Val& pv = pre.s[t];
          bool I = ret.find('I') != std::string::npos, D = ret.find('D') != std::string::npos;
          if (!kGrid && pv.dim > 2) return "";
          // window evaluation in both modes (a congruence has no cell form)
          Val tmp; const Val* wv = &pv;
          if (!kGrid) { tmp = pv; tmp.w1 = bitmap(pv.g1); tmp.w2 = bitmap(pv.g2); wv = &tmp; }
          for (size_t i = 0; i < wv->w1.size(); ++i) if (wmeet(*wv, i)) { const Vec& x = WIN[pv.dim][i]; Q v = dot(g.e, x); bool h = g.m == 0 ? v == 0 : Q(v / g.m).get_den() == 1;
            if ((I && !h) || (D && h)) return bad("relation_with(congruence):definite-answer-unsound", ret, "", "point " + ref::vec_str(x) + " of " + vstr(pv)); }
          return ""; },
        [t, g](CP p) { return fits(g.e, p.s[t].dim); }); }
    { std::vector<std::vector<long> > gp = { {0, 0}, {1, 1}, {3, 0}, {1, 2} };
      for (auto& pt : gp) { std::vector<long> v = pt;
        cst("relation_with(point(" + std::to_string(v[0]) + "," + std::to_string(v[1]) + "))", false, [v](IProd& p) {
            Linear_Expression e; int d = p.space_dimension(); for (int j = 0; j < d && j < 2; ++j) e += Coefficient(v[j]) * Variable(j); if (d > 0) e += 0 * Variable(d - 1);
            return B(p.relation_with(PPL::Generator::point(e)) == PPL::Poly_Gen_Relation::subsumes()); },
          [t, v](CP pre, VP, CS ret) -> std::string {
            if (ret != "true") return "";
            Vec x(pre.s[t].dim, Q(0)); for (int j = 0; j < pre.s[t].dim && j < 2; ++j) x[j] = v[j];
            return pre.s[t].in(x) ? "" : bad("relation_with(generator):subsumes-a-point-outside-the-intersection", ret, "false", vstr(pre.s[t])); },
          [t](CP p) { return p.s[t].dim >= 1 && p.s[t].dim <= 2; }); } }
    // binary observers
    auto bin = [t, s](const std::string& m, std::function<std::string(IProd&, IProd&)> run, std::function<std::string(CP, VP, CS)> chk) {
      Op o; o.t = t; o.method = m; o.name = slot(t) + "." + m + "(" + slot(s) + ")"; o.constm = true; o.binary = true;
      o.ok = same_dim; o.apply = [t, s, run](Pool2& P) { return run(*P.p[t], *P.p[s]); }; o.check = chk; add(o); };
    bin("is_disjoint_from", [](IProd& x, IProd& y) { return B(x.is_disjoint_from(y)); }, [t, s](CP pre, VP, CS ret) -> std::string {
      if (ret != "true") return "";
      if (kGrid) { for (size_t i = 0; i < pre.s[t].w1.size(); ++i) if (wmeet(pre.s[t], i) && wmeet(pre.s[s], i)) return bad("is_disjoint_from:true-but-common-point", ret, "false", "point " + ref::vec_str(WIN[pre.s[t].dim][i])); return ""; }
      U a(1, pre.s[t].meet), b(1, pre.s[s].meet); return uempty(umeet(a, b)) ? "" : bad("is_disjoint_from:true-but-common-point", ret, "false", vstr(pre.s[t]) + " / " + vstr(pre.s[s])); });
    for (int strict = 0; strict < 2; ++strict)
      bin(strict ? "strictly_contains" : "contains", [strict](IProd& x, IProd& y) { return B(strict ? x.strictly_contains(y) : x.contains(y)); }, [t, s](CP pre, VP, CS ret) -> std::string {
        if (ret != "true") return ""; std::string w;
        return meet_subset(pre.s[s], pre.s[t], w) ? "" : bad("contains:true-but-not-geometric-containment", ret, "false", w + "  " + vstr(pre.s[t]) + " / " + vstr(pre.s[s])); });
    bin("operator==", [](IProd& x, IProd& y) { return B(x.equals(y)); }, [t, s](CP pre, VP, CS ret) -> std::string {
      if (ret != "true") return ""; std::string w;
      return meet_equal(pre.s[s], pre.s[t], w) ? "" : bad("operator==:true-but-intersections-differ", ret, "false", w); });
  }
}

// ------------------------------------------------------------------ transformers (receiver p0, operand p1)
typedef std::vector<Cell> Cells;
struct Tr {      // reference of a transformer
  std::function<Cells(const Cell&, const Cell&)> img;                                        // cells that must be inside the new intersection
  std::function<void(const Vec&, const Val&, const Val&, std::vector<Vec>&)> pts;            // window: required points for x in the old intersection
  std::function<bool(const Vec&, const Val&, const Val&)> req;                               // window: is window point x' required in the new intersection?
};
std::map<int, Tr> TR;      // op index -> reference

void add_tr(Op o, Tr tr) {
  if (tr.img) { std::function<Cells(const Cell&, const Cell&)> f = tr.img; (void)f; }
  OPS.push_back(o); TR[(int)OPS.size() - 1] = tr;
}
Cells one(const Cell& c) { return Cells(1, c); }

void build_transformers() {
  typedef const Pre& CP; typedef const Val* VP; typedef const std::string& CS;
  // move the img/pts of the refinement ops (stored in the Op) into TR
  for (size_t i = 0; i < OPS.size(); ++i) if (OPS[i].img || OPS[i].pts) {
    Tr tr; std::function<Cell(const Cell&, const Cell&)> f = OPS[i].img;
    if (f) tr.img = [f](const Cell& a, const Cell& b) { return one(f(a, b)); };
    tr.pts = OPS[i].pts; TR[(int)i] = tr;
  }
  const int t = 0, s = 1;
  auto mk = [&](const std::string& method, const std::string& args, bool builder, bool binary, std::function<bool(CP)> ok, std::function<std::string(Pool2&)> apply) {
    Op o; o.t = t; o.method = method; o.name = slot(t) + "." + method + "(" + args + ")"; o.builder = builder; o.binary = binary; o.ok = ok; o.apply = apply; return o; };
  { Op o = mk("intersection_assign", "p1", true, true, same_dim, [](Pool2& P) { P.p[0]->intersection_assign(*P.p[1]); return std::string(); });
    o.check = [](CP pre, VP post, CS) -> std::string {
      if (kGrid) { for (size_t i = 0; i < post[0].w1.size(); ++i) if (wmeet(post[0], i) != (wmeet(pre.s[0], i) && wmeet(pre.s[1], i))) return bad("intersection_assign:intersection!=meet-of-intersections", vstr(post[0]), "", "point " + ref::vec_str(WIN[post[0].dim][i])); return ""; }
      U a(1, pre.s[0].meet), b(1, pre.s[1].meet), got(1, post[0].meet), want = umeet(a, b);
      return uequal(got, want) ? "" : bad("intersection_assign:intersection!=meet-of-intersections", vstr(post[0]), ustr(want), uwitness(got, want)); };
    Tr tr; add_tr(o, tr); }
  { Op o = mk("upper_bound_assign", "p1", true, true, same_dim, [](Pool2& P) { P.p[0]->upper_bound_assign(*P.p[1]); return std::string(); });
    Tr tr; tr.img = [](const Cell& a, const Cell& b) { Cells c; c.push_back(a); c.push_back(b); return c; };
    tr.req = [](const Vec& x, const Val& r, const Val& q) { return r.in(x) || q.in(x); };
    add_tr(o, tr); }
  { Op o = mk("upper_bound_assign_if_exact", "p1", false, true, same_dim, [](Pool2& P) { return B(P.p[0]->upper_bound_assign_if_exact(*P.p[1])); });
    o.check = [](CP pre, VP post, CS ret) -> std::string { std::string w;
      if (ret == "false" && !meet_equal(post[0], pre.s[0], w)) return bad("upper_bound_assign_if_exact:false-but-intersection-changed", vstr(post[0]), vstr(pre.s[0]), w);
      return ""; };
    Tr tr; tr.img = [](const Cell& a, const Cell&) { return one(a); };
    tr.req = [](const Vec& x, const Val& r, const Val&) { return r.in(x); };
    add_tr(o, tr);
    int idx = (int)OPS.size() - 1;
    // when true is returned the operand's intersection must be covered too: handled in the runner through RET_TRUE_IMG
    (void)idx; }
  { Op o = mk("difference_assign", "p1", false, true, same_dim, [](Pool2& P) { P.p[0]->difference_assign(*P.p[1]); return std::string(); });
    Tr tr; tr.img = [](const Cell& a, const Cell& b) { U x(1, CT.id(a)), y(1, CT.id(b)); U d = udiff(x, y); Cells c; for (int i : d) c.push_back(CT[i]); return c; };
    tr.req = [](const Vec& x, const Val& r, const Val& q) { return r.in(x) && !q.in(x); };
    add_tr(o, tr); }
  { Op o = mk("time_elapse_assign", "p1", false, true, same_dim, [](Pool2& P) { P.p[0]->time_elapse_assign(*P.p[1]); return std::string(); });
    Tr tr; tr.img = [](const Cell& a, const Cell& b) { RefGuard g; return one(ref::time_elapse(a, b, true)); };
    // Grid::time_elapse_assign is documented with integer multipliers (discrete time): with a Grid component
    // only the integer-time successors are required
    tr.pts = [](const Vec& x, const Val&, const Val& q, std::vector<Vec>& out) { static const Q tsc[] = {Q(0), Q(1, 2), Q(1), Q(3)}; static const Q tsd[] = {Q(0), Q(1), Q(2), Q(3)};
      const Q* ts = kGrid ? tsd : tsc;
      std::vector<Vec> ys = some_points(q, 12); if (!ys.empty()) out.push_back(x); for (const Vec& y : ys) for (int k = 0; k < 4; ++k) out.push_back(addv(x, y, ts[k])); };
    add_tr(o, tr); }
  { Op o = mk("concatenate_assign", "p1", false, true, [](CP p) { return p.s[0].dim + p.s[1].dim <= 3; }, [](Pool2& P) { P.p[0]->concatenate_assign(*P.p[1]); return std::string(); });
    Tr tr; tr.img = [](const Cell& a, const Cell& b) { return one(ref::concatenate(a, b)); };
    tr.pts = [](const Vec& x, const Val&, const Val& q, std::vector<Vec>& out) { for (const Vec& y : some_points(q, 12)) { Vec z = x; z.insert(z.end(), y.begin(), y.end()); out.push_back(z); } };
    add_tr(o, tr); }
  for (size_t ai = 0; ai < AFF.size(); ++ai) for (int pre_ = 0; pre_ < 2; ++pre_) {
    AF af = AFF[ai];
    Op o = mk(pre_ ? "affine_preimage" : "affine_image", std::string(1, char('A' + af.var)) + ", " + af.e.str() + ", " + std::to_string(af.d), !pre_ && (ai < 2 || (kGrid && ai == 7)), false,
              [af](CP p) { return af.var < p.s[0].dim && fits(af.e, p.s[0].dim); },
              [af, pre_](Pool2& P) { if (pre_) P.p[0]->affine_preimage(Variable(af.var), af.e.ppl(), Coefficient(af.d)); else P.p[0]->affine_image(Variable(af.var), af.e.ppl(), Coefficient(af.d)); return std::string(); });
    Tr tr; tr.img = [af, pre_](const Cell& c, const Cell&) { RefGuard g; Cell rel = ref::rel_affine(c.n, af.var, af.e.vec(c.n), Q(af.e.b), Q(af.d)); return one(pre_ ? ref::preimage(c, rel) : ref::image(c, rel)); };
    if (!pre_) tr.pts = [af](const Vec& x, const Val&, const Val&, std::vector<Vec>& out) { Vec y = x; y[af.var] = dot(af.e, x) / af.d; out.push_back(y); };
    else tr.req = [af](const Vec& x, const Val& r, const Val&) { Vec y = x; y[af.var] = dot(af.e, x) / af.d; return r.in(y); };
    add_tr(o, tr);
  }
  { struct GA { int var; int rel; LE e; long d; };
    std::vector<GA> gas = { {0, 1, LE({1, 0}, 1), 1}, {0, 3, LE({0, 0}, 2), 1}, {1, 3, LE({1, 0}, 0), 2}, {0, 2, LE({0, 1}, 0), 1} };
    for (const GA& g0 : gas) { GA ga = g0;
      Op o = mk("generalized_affine_image", std::string(1, char('A' + ga.var)) + ", " + relsym_name(ga.rel) + ", " + ga.e.str() + ", " + std::to_string(ga.d), false, false,
                [ga](CP p) { return ga.var < p.s[0].dim && fits(ga.e, p.s[0].dim); },
                [ga](Pool2& P) { P.p[0]->generalized_affine_image(Variable(ga.var), relsym_ppl(ga.rel), ga.e.ppl(), Coefficient(ga.d)); return std::string(); });
      Tr tr; tr.img = [ga](const Cell& c, const Cell&) { RefGuard g; return one(ref::image(c, ref::rel_generalized_var(c.n, ga.var, ga.rel, ga.e.vec(c.n), Q(ga.e.b), Q(ga.d)))); };
      tr.pts = [ga](const Vec& x, const Val&, const Val&, std::vector<Vec>& out) { Q v = dot(ga.e, x) / ga.d; static const Q ds[] = {Q(0), Q(1, 2), Q(-1, 2), Q(2), Q(-3)};
        for (const Q& d : ds) if (rel_holds(ga.rel, v + d, v)) { Vec y = x; y[ga.var] = v + d; out.push_back(y); } };
      add_tr(o, tr); } }
  { LE lb({1, 0}, -1), ub({1, 0}, 1);
    Op o = mk("bounded_affine_image", "A, 1*A-1, 1*A+1, 1", false, false, [](CP p) { return p.s[0].dim >= 1; },
              [lb, ub](Pool2& P) { P.p[0]->bounded_affine_image(Variable(0), lb.ppl(), ub.ppl(), Coefficient(1)); return std::string(); });
    Tr tr; tr.img = [lb, ub](const Cell& c, const Cell&) { RefGuard g; return one(ref::image(c, ref::rel_bounded(c.n, 0, lb.vec(c.n), Q(lb.b), ub.vec(c.n), Q(ub.b), Q(1)))); };
    tr.pts = [](const Vec& x, const Val&, const Val&, std::vector<Vec>& out) { static const Q ds[] = {Q(-1), Q(-1, 2), Q(0), Q(1, 3), Q(1)}; for (const Q& d : ds) { Vec y = x; y[0] = x[0] + d; out.push_back(y); } };
    add_tr(o, tr); }
  for (int v = 0; v < 2; ++v) {
    Op o = mk("unconstrain", std::string(1, char('A' + v)), false, false, [v](CP p) { return v < p.s[0].dim; }, [v](Pool2& P) { P.p[0]->unconstrain(Variable(v)); return std::string(); });
    Tr tr; tr.img = [v](const Cell& c, const Cell&) { RefGuard g; return one(ref::unconstrain(c, std::vector<int>(1, v))); };
    tr.pts = [v](const Vec& x, const Val&, const Val&, std::vector<Vec>& out) { static const Q ws[] = {Q(-7), Q(0), Q(1, 2), Q(2), Q(11, 3)}; for (const Q& w : ws) { Vec y = x; y[v] = w; out.push_back(y); } };
    add_tr(o, tr); }
  { Op o = mk("topological_closure_assign", "", false, false, [](CP) { return true; }, [](Pool2& P) { P.p[0]->topological_closure_assign(); return std::string(); });
    Tr tr; tr.img = [](const Cell& c, const Cell&) { return one(ref::closure(c)); };
    tr.pts = [](const Vec& x, const Val&, const Val&, std::vector<Vec>& out) { out.push_back(x); };
    add_tr(o, tr); }
  for (int proj = 0; proj < 2; ++proj) {
    Op o = mk(proj ? "add_space_dimensions_and_project" : "add_space_dimensions_and_embed", "1", false, false, [](CP p) { return p.s[0].dim <= 2; },
              [proj](Pool2& P) { if (proj) P.p[0]->add_space_dimensions_and_project(1); else P.p[0]->add_space_dimensions_and_embed(1); return std::string(); });
    Tr tr; tr.img = [proj](const Cell& c, const Cell&) { return one(proj ? ref::add_dims_project(c, 1) : ref::add_dims_embed(c, 1)); };
    tr.pts = [proj](const Vec& x, const Val&, const Val&, std::vector<Vec>& out) { static const Q ws[] = {Q(0), Q(1, 2), Q(-3)}; for (int k = 0; k < (proj ? 1 : 3); ++k) { Vec y = x; y.push_back(ws[k]); out.push_back(y); } };
    add_tr(o, tr); }
  for (int v = 0; v < 2; ++v) {
    Op o = mk("remove_space_dimensions", std::string("{") + char('A' + v) + "}", false, false, [v](CP p) { return v < p.s[0].dim; },
              [v](Pool2& P) { PPL::Variables_Set vs; vs.insert(Variable(v)); P.p[0]->remove_space_dimensions(vs); return std::string(); });
    Tr tr; tr.img = [v](const Cell& c, const Cell&) { RefGuard g; return one(ref::remove_dims(c, std::vector<int>(1, v))); };
    tr.pts = [v](const Vec& x, const Val&, const Val&, std::vector<Vec>& out) { Vec y = x; y.erase(y.begin() + v); out.push_back(y); };
    add_tr(o, tr); }
  for (int nd = 0; nd < 2; ++nd) {
    Op o = mk("remove_higher_space_dimensions", std::to_string(nd), false, false, [nd](CP p) { return nd < p.s[0].dim; }, [nd](Pool2& P) { P.p[0]->remove_higher_space_dimensions(nd); return std::string(); });
    Tr tr; tr.img = [nd](const Cell& c, const Cell&) { RefGuard g; std::vector<int> vs; for (int i = nd; i < c.n; ++i) vs.push_back(i); return one(ref::remove_dims(c, vs)); };
    tr.pts = [nd](const Vec& x, const Val&, const Val&, std::vector<Vec>& out) { Vec y(x.begin(), x.begin() + nd); out.push_back(y); };
    add_tr(o, tr); }
  { Op o = mk("map_space_dimensions", "A->1, B->0", false, false, [](CP p) { return p.s[0].dim == 2; },
              [](Pool2& P) { PPL::Partial_Function f; f.insert(0, 1); f.insert(1, 0); P.p[0]->map_space_dimensions(f); return std::string(); });
    Tr tr; tr.img = [](const Cell& c, const Cell&) { std::vector<int> pf; pf.push_back(1); pf.push_back(0); return one(ref::map_dims(c, pf)); };
    tr.pts = [](const Vec& x, const Val&, const Val&, std::vector<Vec>& out) { Vec y(2); y[0] = x[1]; y[1] = x[0]; out.push_back(y); };
    add_tr(o, tr); }
  { Op o = mk("expand_space_dimension", "A, 1", false, false, [](CP p) { return p.s[0].dim >= 1 && p.s[0].dim <= 2; }, [](Pool2& P) { P.p[0]->expand_space_dimension(Variable(0), 1); return std::string(); });
    Tr tr; tr.img = [](const Cell& c, const Cell&) { return one(ref::expand_dim(c, 0, 1)); };
    tr.pts = [](const Vec& x, const Val&, const Val&, std::vector<Vec>& out) { Vec y = x; y.push_back(x[0]); out.push_back(y); };
    add_tr(o, tr); }
  { Op o = mk("fold_space_dimensions", "{B}, A", false, false, [](CP p) { return p.s[0].dim == 2; },
              [](Pool2& P) { PPL::Variables_Set vs; vs.insert(Variable(1)); P.p[0]->fold_space_dimensions(vs, Variable(0)); return std::string(); });
    Tr tr; tr.img = [](const Cell& c, const Cell&) { RefGuard g; Cells o; o.push_back(ref::remove_dims(c, std::vector<int>(1, 1))); o.push_back(ref::remove_dims(c, std::vector<int>(1, 0))); return o; };
    tr.pts = [](const Vec& x, const Val&, const Val&, std::vector<Vec>& out) { out.push_back(Vec(1, x[0])); out.push_back(Vec(1, x[1])); };
    add_tr(o, tr); }
  { Op o; o.t = 0; o.method = "swap"; o.name = "swap(p0, p1)"; o.assigns = true; o.ok = [](CP) { return true; };
    o.apply = [](Pool2& P) { P.p[0]->swap_with(*P.p[1]); return std::string(); };
    o.check = [](CP pre, VP post, CS) -> std::string { std::string w;
      for (int a = 0; a < 2; ++a) { const Val& n = post[a]; const Val& o2 = pre.s[1 - a];
        if (n.dim != o2.dim || n.reduced != o2.reduced) return bad("swap:values-not-exchanged", vstr(n), vstr(o2));
        for (int k = 1; k <= 2; ++k) if (!comp_subset(n, o2, k, w) || !comp_subset(o2, n, k, w)) return bad("swap:values-not-exchanged", vstr(n), vstr(o2), w); }
      return ""; };
    OPS.push_back(o); }
}

// ------------------------------------------------------------------ states, replay
struct State { int parent; int op; int depth; int init; };
std::vector<State> ST;
struct Init { int dim; bool empty0; bool box0; int strict0; std::string name; Init() : dim(0), empty0(false), box0(false), strict0(0) {} };
std::vector<Init> INITS;
void make_init(int i, Pool2& P) {
  P.p[0].reset(make_prod(INITS[i].dim, INITS[i].empty0)); P.p[1].reset(make_prod(INITS[i].dim, false));
  if (INITS[i].box0) {     // p0 = [0,2]^dim, built with one refine_with_constraints call
    PPL::Constraint_System cs;
    for (int j = 0; j < INITS[i].dim; ++j) { cs.insert(Variable(j) >= 0); cs.insert(Variable(j) <= 2); }
    P.p[0]->refine_with_constraints(cs);
  }
  // narrow ranges with one STRICT end at a non-multiple of the moduli of the congruence menu, on the negative and on
  // the positive side (a congruence reduction must keep the single hyperplane A = -4 resp. A = 4)
  if (INITS[i].strict0 == 1) { P.p[0]->refine_with_constraint(Variable(0) >= -4); P.p[0]->refine_with_constraint(Variable(0) < -3); }
  if (INITS[i].strict0 == 3) P.p[0]->refine_with_congruence((2 * Variable(0) %= 0) / 3);     // lattice of period 3/2
  if (INITS[i].strict0 == 2) { P.p[0]->refine_with_constraint(Variable(0) > 3); P.p[0]->refine_with_constraint(Variable(0) <= 4); }
}
std::vector<int> ops_of(int s) { std::vector<int> h; while (ST[s].parent >= 0) { h.push_back(ST[s].op); s = ST[s].parent; } std::reverse(h.begin(), h.end()); return h; }
void replay(int s, Pool2& P) { make_init(ST[s].init, P); std::vector<int> h = ops_of(s); for (size_t i = 0; i < h.size(); ++i) OPS[h[i]].apply(P); }
std::string hist_json(int s) { std::vector<int> h = ops_of(s); std::string a = "["; for (size_t i = 0; i < h.size(); ++i) { if (i) a += ","; a += jstr(OPS[h[i]].name); } return a + "]"; }
std::string input_json(int s, const std::string& op, const Pre* pre) {
  J j; j.str("pair", PAIR).str("reduction", RED_NAMES[RED]).str("init", INITS[ST[s].init].name).raw("history", hist_json(s)).str("op", op);
  if (pre) j.str("p0", vstr(pre->s[0])).str("p1", vstr(pre->s[1]));
  return j.done();
}
std::string site_of(const Op& o) { return site_prefix() + o.method; }

struct H2 { uint64_t a, b; bool operator==(const H2& o) const { return a == o.a && b == o.b; } };
struct H2h { size_t operator()(const H2& h) const { return (size_t)(h.a ^ (h.b * 0x9e3779b97f4a7c15ULL)); } };
H2 hash2(const std::string& s) {
  uint64_t a = 1469598103934665603ULL, b = 0x2545F4914F6CDD1DULL;
  for (size_t i = 0; i < s.size(); ++i) { a ^= (unsigned char)s[i]; a *= 1099511628211ULL; b = (b ^ (unsigned char)s[i]) * 0x100000001b3ULL + (b >> 29); }
  H2 h; h.a = a; h.b = b ^ s.size(); return h;
}
std::unordered_set<H2, H2h> SEEN;
long long TRANS_A = 0;
std::string state_key(const Pool2& P) { return P.p[0]->dump() + "\n=====\n" + P.p[1]->dump(); }

void phase_a(int depth_max, const std::vector<int>& dims) {
  for (int d : dims) for (int e = 0; e < 6; ++e) {
    if (e == 4 && d != 1) continue;
    if (e == 5 && !kGrid) continue;
    Init in; in.dim = d; in.empty0 = (e == 1); in.box0 = (e == 2); in.strict0 = e == 3 ? 1 : e == 4 ? 2 : e == 5 ? 3 : 0;
    in.name = "dim " + std::to_string(d) + ": p0 = " + (e == 1 ? "EMPTY" : e == 2 ? "BOX02" : e == 3 ? "NEGSTRICT(-4<=A<-3)" : e == 4 ? "POSSTRICT(3<A<=4)" : e == 5 ? "RATGRID(2A=0 mod 3)" : "UNIVERSE") + ", p1 = UNIVERSE";
    INITS.push_back(in);
    Pool2 P; make_init((int)INITS.size() - 1, P);
    State s; s.parent = -1; s.op = -1; s.depth = 0; s.init = (int)INITS.size() - 1;
    if (SEEN.insert(hash2(state_key(P))).second) ST.push_back(s);
  }
  size_t begin = 0;
  for (int d = 1; d <= depth_max; ++d) {
    size_t end = ST.size();
    for (size_t s = begin; s < end; ++s) {
      int dim = INITS[ST[s].init].dim;
      Pre dummy; dummy.s[0].dim = dummy.s[1].dim = dim;
      for (size_t oi = 0; oi < OPS.size(); ++oi) {
        const Op& op = OPS[oi];
        if (!op.builder || !op.ok(dummy)) continue;
        Pool2 P; replay((int)s, P);
        try { op.apply(P); } catch (const std::exception& ex) {
          if (violcap().admit("exc|" + op.method)) report_violation(site_of(op), "unexpected-exception", "none", input_json((int)s, op.name, 0), ex.what(), "no exception");
          continue; }
        ++TRANS_A;
        if (SEEN.insert(hash2(state_key(P))).second) { State n; n.parent = (int)s; n.op = (int)oi; n.depth = d; n.init = ST[s].init; ST.push_back(n); }
      }
      if (ARGS.left() < ARGS.deadline * 0.6) { fprintf(stderr, "[product] phase A cut by deadline at depth %d\n", d); return; }
    }
    begin = end;
  }
}

// ------------------------------------------------------------------ known-finding trigger (attribution only)
// difference_assign subtracts component-wise: a point of the receiver's intersection that lies outside
// the operand's intersection but inside one of the operand's (reduced) components is lost.
std::string trigger_for(const Op& op, const std::string& clause, const Pre& pre, const Val* post) {
  if (op.method == "difference_assign" && clause == "transformer:loses-points-of-the-exact-image") {
    const Val& x = pre.s[0]; const Val& y = post[1];
    if (!kGrid) {
      U ip(1, x.meet), yc; yc.push_back(y.c1); yc.push_back(y.c2); U iq(1, y.meet);
      if (!uempty(udiff(umeet(ip, yc), iq))) return "point_of_receiver_outside_operand_intersection_but_inside_an_operand_component";
    } else {
      for (size_t i = 0; i < x.w1.size(); ++i) if (wmeet(x, i) && !wmeet(y, i) && (y.w1[i] || y.w2[i])) return "point_of_receiver_outside_operand_intersection_but_inside_an_operand_component";
    }
  }
  return "none";
}
// relation_with(Congruence) of a product is the disjunction of the components' answers: attribute an
// unsound answer to a component whose own answer is unsound for its own point set (base-level defect)
std::string kind_of_component(int k) {
  std::string ts(k == 1 ? typeid(D1).name() : typeid(D2).name());
  if (ts.find("Box") != std::string::npos) return "box";
  if (ts.find("BD_Shape") != std::string::npos || ts.find("Octagonal_Shape") != std::string::npos) return "weakly_relational";
  if (ts.find("Grid") != std::string::npos) return "grid";
  return "";
}
// same for relation_with(Constraint): a component that, asked directly, gives an answer false of its own point set
std::string constraint_trigger(int state, const CN& c) {
  Pool2 P; replay(state, P);
  P.p[0]->reduce();
  Gamma gs[2]; gs[0] = P.p[0]->raw1(); gs[1] = P.p[0]->raw2();
  for (int k = 1; k <= 2; ++k) {
    std::string f = P.p[0]->comp_relc(k, c.ppl());
    const Gamma& gm = gs[k - 1]; if (gm.dim > 2) continue;
    Row r = c.row(gm.dim); Row er = r; er.k = ref::EQ;
    std::vector<char> w = bitmap(gm);
    for (size_t i = 0; i < w.size(); ++i) if (w[i]) { const Vec& x = WIN[gm.dim][i];
      if ((f.find('D') != std::string::npos && ref::sat(r, x)) || (f.find('I') != std::string::npos && !ref::sat(r, x)) || (f.find('S') != std::string::npos && !ref::sat(er, x))) {
        std::string kd = kind_of_component(k);
        return kd.empty() ? "none" : kd + "_component_alone_answers_unsoundly"; } }
  }
  return "none";
}
std::string congruence_trigger(int state, const CGN& g) {
  Pool2 P; replay(state, P);
  P.p[0]->reduce();
  Gamma gs[2]; gs[0] = P.p[0]->raw1(); gs[1] = P.p[0]->raw2();
  for (int k = 1; k <= 2; ++k) {
    std::string f = P.p[0]->comp_rel(k, g.ppl());
    const Gamma& gm = gs[k - 1]; if (gm.dim > 2) continue;
    std::vector<char> w = bitmap(gm);
    for (size_t i = 0; i < w.size(); ++i) if (w[i]) { Q v = dot(g.e, WIN[gm.dim][i]); bool h = g.m == 0 ? v == 0 : Q(v / g.m).get_den() == 1;
      if ((f.find('D') != std::string::npos && h) || (f.find('I') != std::string::npos && !h)) {
        const char* tn = k == 1 ? typeid(D1).name() : typeid(D2).name();
        std::string ts(tn);
        if (ts.find("Box") != std::string::npos) return "box_component_alone_answers_unsoundly";
        if (ts.find("BD_Shape") != std::string::npos || ts.find("Octagonal_Shape") != std::string::npos) return "weakly_relational_component_alone_answers_unsoundly";
        return "none"; } }
  }
  return "none";
}

// ------------------------------------------------------------------ phase B
struct Outcome { std::string site, clause, trigger, observed, expected, detail; };

std::vector<Outcome> run_once(int s, int oi, const Pre& pre) {
  std::vector<Outcome> out;
  const Op& op = OPS[oi];
  Pool2 P; replay(s, P);
  std::string ret;
  try { ret = op.apply(P); }
  catch (const std::exception& ex) { Outcome o; o.site = site_of(op); o.clause = "unexpected-exception"; o.trigger = "none"; o.observed = ex.what(); o.expected = "no exception"; out.push_back(o); return out; }
  Val post[2]; post[0] = val_of(*P.p[0]); post[1] = val_of(*P.p[1]);
  auto fail = [&](const std::string& clause, const std::string& obs, const std::string& exp, const std::string& det) {
    Outcome o; o.site = site_of(op); o.clause = clause; o.trigger = trigger_for(op, clause, pre, post);
    if (clause == "relation_with:definite-answer-unsound") for (const CN& c : CONS) if (op.name == slot(op.t) + ".relation_with(" + c.str() + ")") o.trigger = constraint_trigger(s, c);
    if (clause.find("invariant:OK()-false-on-receiver") == 0 && op.method == "concatenate_assign") {
      // BD_Shape / Octagonal_Shape::concatenate_assign(y) with y found empty (marked empty, matrix not reset) copies y's matrix and the flag
      if ((kind_of_component(1) == "weakly_relational" && (pre.s[1].g1.bot || ref::is_empty(pre.s[1].g1.cell))) || (kind_of_component(2) == "weakly_relational" && (pre.s[1].g2.bot || ref::is_empty(pre.s[1].g2.cell))))
        o.trigger = "weakly_relational_component_concatenated_with_empty_operand";
    }
    if (clause == "relation_with(congruence):definite-answer-unsound") for (const CGN& g : CGS) if (op.name == slot(op.t) + ".relation_with(" + g.str() + ")") o.trigger = congruence_trigger(s, g); o.observed = obs; o.expected = exp; o.detail = det; out.push_back(o); };
  for (int k = 0; k < 2; ++k) if (!post[k].ok && pre.s[k].ok)
    fail(std::string("invariant:OK()-false-on-") + (k == op.t ? "receiver" : "operand"), "OK() false", "OK() true", vstr(post[k]));
  count(CNT_CHECKS);
  if (post[0].stale_flag || post[1].stale_flag) count(CNT_USER);
  // products that were only read (const receiver, const operand): components may only shrink, intersection unchanged
  for (int k = 0; k < 2; ++k) {
    bool readonly = (k == op.t) ? op.constm : (op.method != "swap");
    if (!readonly || post[k].dim != pre.s[k].dim) { if (readonly) fail("const:dimension-changed", std::to_string(post[k].dim), std::to_string(pre.s[k].dim), ""); continue; }
    std::string w;
    for (int c = 1; c <= 2; ++c) if (!comp_subset(post[k], pre.s[k], c, w))
      fail(std::string("reduction:component-") + std::to_string(c) + "-grew", vstr(post[k]), vstr(pre.s[k]), w);
    if (!meet_equal(post[k], pre.s[k], w)) fail("reduction:intersection-changed", vstr(post[k]), vstr(pre.s[k]), w);
  }
  // transformers: the new intersection contains the exact image of the old one
  std::map<int, Tr>::const_iterator ti = TR.find(oi);
  if (ti != TR.end()) {
    const Tr& tr = ti->second; const Val& x = pre.s[op.t]; const Val& y = pre.s[1 - op.t];
    if (!kGrid) {
      if (tr.img) {
        Cells cs = tr.img(CT[x.meet], CT[y.meet]);
        U want; for (const Cell& c : cs) want.push_back(CT.id(c));
        U got(1, post[op.t].meet);
        bool dimok = true; for (int w : want) if (CT[w].n != post[op.t].dim) dimok = false;
        if (!dimok) fail("transformer:dimension", std::to_string(post[op.t].dim), "", "");
        else if (!usubset(want, got)) fail("transformer:loses-points-of-the-exact-image", vstr(post[op.t]), "intersection containing " + ustr(want), uwitness(got, uunion(got, want)));
      }
    } else {
      const Val& np = post[op.t];
      bool lost = false; Vec wp;
      if (tr.pts) for (size_t i = 0; i < x.w1.size() && !lost; ++i) if (wmeet(x, i)) {
        std::vector<Vec> req; tr.pts(WIN[x.dim][i], x, y, req);
        for (const Vec& r : req) if ((int)r.size() != np.dim || !np.in(r)) { lost = true; wp = r; break; }
      }
      if (tr.req && !lost) for (size_t i = 0; i < np.w1.size(); ++i) if (!wmeet(np, i) && tr.req(WIN[np.dim][i], x, y)) { lost = true; wp = WIN[np.dim][i]; break; }
      if (lost) fail("transformer:loses-points-of-the-exact-image", vstr(np), "", "point " + ref::vec_str(wp) + " belongs to the exact image of the old intersection(s) but not to both new components");
    }
  }
  if (op.method == "upper_bound_assign_if_exact" && ret == "true") { std::string w; if (!meet_subset(pre.s[1], post[0], w)) fail("transformer:loses-points-of-the-exact-image", vstr(post[0]), "", w); }
  if (op.check) {
    std::string r = op.check(pre, post, ret);
    if (!r.empty()) { std::vector<std::string> f; size_t pos = 0; for (int k = 0; k < 3; ++k) { size_t b = r.find('\x1f', pos); f.push_back(r.substr(pos, b - pos)); pos = b + 1; } f.push_back(r.substr(pos));
      fail(f[0], f[1], f[2], f[3]); }
  }
  return out;
}

void run_state(int s, long long sub_start) {
  Pre pre; bool have_pre = false;
  for (size_t oi = 0; oi < OPS.size(); ++oi) {
    long long my = (long long)oi;
    if (!pool().want(my, sub_start)) continue;
    if (!have_pre) {
      pool().step(my);
      Pool2 P; replay(s, P);
      pre.s[0] = val_of(*P.p[0]); pre.s[1] = val_of(*P.p[1]);
      have_pre = true;
      for (int k = 0; k < 2; ++k) if (!pre.s[k].ok && ST[s].parent >= 0) {
        const Op& last = OPS[ST[s].op];
        if (violcap().admit("stateOK|" + last.method)) report_violation(site_of(last), "invariant:OK()-false-after-history", "none", input_json(s, "(none)", &pre), "OK() false on " + slot(k), "OK() true");
      }
    }
    const Op& op = OPS[oi];
    if (!op.ok(pre)) continue;
    pool().step(my);
    std::vector<Outcome> o1 = run_once(s, (int)oi, pre);
    count(CNT_TRANS);
    if (o1.empty()) continue;
    std::vector<Outcome> o2 = run_once(s, (int)oi, pre);
    bool same = o1.size() == o2.size();
    for (size_t i = 0; same && i < o1.size(); ++i) same = o1[i].clause == o2[i].clause && o1[i].observed == o2[i].observed;
    if (!same) { sink().line(J().str("t", "error").str("msg", "non-deterministic outcome for " + input_json(s, op.name, &pre)).done()); continue; }
    for (const Outcome& o : o1) if (violcap().admit(o.site + "|" + o.clause + "|" + o.trigger)) report_violation(o.site, o.clause, o.trigger, input_json(s, op.name, &pre), o.observed, o.expected, o.detail);
  }
}

int run_main(int argc, char** argv) {
  ARGS = parse_args(argc, argv);
  sink().open(ARGS.out);
  double t0 = now_s();
  int depth = atoi(ARGS.opt("--depth", "2").c_str());
  RED = atoi(ARGS.opt("--red", "0").c_str());
  std::string dims_s = ARGS.opt("--dims", "1,2");
  std::vector<int> dims; for (char c : dims_s) if (c == '1' || c == '2') dims.push_back(c - '0');
  build_window(); build_menus(); build_ops(); build_transformers();

  if (!ARGS.replay.empty() || ARGS.has("--history")) {
    std::string hs = ARGS.opt("--history", ""), opn = ARGS.opt("--op", "");
    Init i0; i0.dim = atoi(ARGS.opt("--dim", "2").c_str()); i0.empty0 = ARGS.has("--empty0"); i0.box0 = ARGS.has("--box0"); i0.strict0 = atoi(ARGS.opt("--strict0", "0").c_str()); i0.name = "cmdline";
    if (!ARGS.replay.empty()) {
      std::ifstream f(ARGS.replay.c_str()); std::stringstream ss; ss << f.rdbuf(); std::string txt = ss.str();
      auto field = [&](const std::string& k) { size_t p = txt.find("\"" + k + "\""); if (p == std::string::npos) return std::string(); p = txt.find(':', p); size_t a = txt.find('"', p); size_t b = a + 1; while (b < txt.size() && txt[b] != '"') ++b; return txt.substr(a + 1, b - a - 1); };
      opn = field("op");
      size_t p = txt.find("\"history\""); size_t a = txt.find('[', p), b = txt.find(']', a);
      std::string arr = txt.substr(a + 1, b - a - 1); hs.clear();
      size_t pos = 0; while ((pos = arr.find('"', pos)) != std::string::npos) { size_t e = arr.find('"', pos + 1); if (!hs.empty()) hs += ";"; hs += arr.substr(pos + 1, e - pos - 1); pos = e + 1; }
      std::string in = field("init"); i0.dim = in.find("dim 2") != std::string::npos ? 2 : 1; i0.empty0 = in.find("p0 = EMPTY") != std::string::npos; i0.box0 = in.find("p0 = BOX02") != std::string::npos; i0.strict0 = in.find("NEGSTRICT") != std::string::npos ? 1 : in.find("POSSTRICT") != std::string::npos ? 2 : in.find("RATGRID") != std::string::npos ? 3 : 0; i0.name = in;
      std::string rd = field("reduction"); for (int k = 0; k < 5; ++k) if (rd == RED_NAMES[k]) RED = k;
    }
    INITS.push_back(i0);
    State root; root.parent = -1; root.op = -1; root.depth = 0; root.init = 0; ST.push_back(root);
    size_t pos = 0; int cur = 0;
    while (pos < hs.size()) { size_t e = hs.find(';', pos); if (e == std::string::npos) e = hs.size(); std::string nm = hs.substr(pos, e - pos); pos = e + 1;
      int oi = -1; for (size_t i = 0; i < OPS.size(); ++i) if (OPS[i].name == nm) oi = (int)i;
      if (oi < 0) { fprintf(stderr, "unknown operation '%s'\n", nm.c_str()); return 2; }
      State n; n.parent = cur; n.op = oi; n.depth = ST[cur].depth + 1; n.init = 0; ST.push_back(n); cur = (int)ST.size() - 1; }
    Pool2 P; replay(cur, P); Pre pre; pre.s[0] = val_of(*P.p[0]); pre.s[1] = val_of(*P.p[1]);
    printf("state: p0: %s\n       p1: %s\n", vstr(pre.s[0]).c_str(), vstr(pre.s[1]).c_str());
    int oi = -1; for (size_t i = 0; i < OPS.size(); ++i) if (OPS[i].name == opn) oi = (int)i;
    if (oi < 0) { fprintf(stderr, "unknown operation '%s'\n", opn.c_str()); return 2; }
    std::vector<Outcome> o = run_once(cur, oi, pre);
    for (const Outcome& x : o) printf("VIOLATED %s %s [%s]\n  observed: %s\n  expected: %s\n  %s\n", x.site.c_str(), x.clause.c_str(), x.trigger.c_str(), x.observed.c_str(), x.expected.c_str(), x.detail.c_str());
    if (o.empty()) printf("no violation\n");
    return 0;
  }

  phase_a(depth, dims);
  size_t nb = 0; for (const Op& o : OPS) if (o.builder) ++nb;
  fprintf(stderr, "[product %s %s] phase A: depth=%d states=%zu transitions=%lld builders=%zu ops=%zu in %.1fs\n", PAIR, RED_NAMES[RED], depth, ST.size(), TRANS_A, nb, OPS.size(), now_s() - t0);
  Pool::Fn fn = [&](long long item, long long sub_start) { run_state((int)item, sub_start); count(CNT_STATES); };
  Pool::CrashFn cf = [&](long long item, long long sub, int sig, bool confirmed) {
    if (!confirmed) return;
    if (sub < 0 || sub >= (long long)OPS.size()) { sink().line(J().str("t", "error").str("msg", "crash at unknown sub-step").done()); return; }
    report_violation(site_of(OPS[sub]), std::string("crash:") + signame(sig), "none", input_json((int)item, OPS[sub].name, 0), signame(sig), "normal return");
  };
  limit_memory(6ULL << 30);
  pool().run((long long)ST.size(), ARGS.jobs, fn, cf, ARGS, 60);
  bool complete = counter(CNT_SKIPPED) == 0 && counter(CNT_REFCRASH) == 0;
  std::vector<std::string> samples;
  for (size_t i = 0; i < 3 && !ST.empty(); ++i) { size_t k = ST.size() - 1 - i * (ST.size() / 3); samples.push_back(J().str("pair", PAIR).str("reduction", RED_NAMES[RED]).raw("history", hist_json((int)k)).done()); }
  J extra; extra.str("pair", PAIR).str("reduction", RED_NAMES[RED]).str("oracle", kGrid ? "point window (sixths), direct evaluation" : "exact cells (Fourier-Motzkin)")
    .num("phaseA_states", ST.size()).num("phaseA_transitions", TRANS_A).num("builder_ops", nb).num("all_ops", OPS.size())
    .num("phaseB_transitions", counter(CNT_TRANS)).num("oracle_comparisons", counter(CNT_CHECKS))
    .num("info_transitions_leaving_OK_false_only_because_reduced_flag_is_stale_or_reduction_not_idempotent", counter(CNT_USER)).num("items_skipped_by_deadline", counter(CNT_SKIPPED)).num("cases_skipped_oracle_resource_limit", counter(CNT_REFCRASH));
  J st; st.str("t", "stats").num("states", ST.size()).num("transitions", TRANS_A + counter(CNT_TRANS))
    .num("traces_validated_against_impl", counter(CNT_TRANS)).boolean("exhaustive", complete)
    .str("bound", std::string("Partially_Reduced_Product<") + PAIR + "," + RED_NAMES[RED] + ">, pool of two, dims " + dims_s + ": builder histories of depth <= " + std::to_string(depth) +
         ", then every operation of the alphabet (" + std::to_string(OPS.size()) + ")")
    .arr("samples", samples).raw("extra", extra.done()).dbl("wall_s", now_s() - t0);
  sink().line(st.done());
  return 0;
}
} // namespace
#define PR_CAT2(a, b) a##b
#define PR_CAT(a, b) PR_CAT2(a, b)
int PR_CAT(pr_run_, PR_PAIR)(int argc, char** argv) { return run_main(argc, argv); }
#endif


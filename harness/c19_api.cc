// C19: the only harness code that is compiled WITH load/store instrumentation.  It instantiates the
// inline constructors / destructors of Watchdog and Threshold_Watcher<Weightwatch_Traits> exactly as a
// client translation unit would, so that every memory access they perform is a scheduling point.
#include "ppl-config.h"
#include "globals_defs.hh"
#include "Watchdog_defs.hh"
#include "Threshold_Watcher_defs.hh"
#include "harness/c19_api.hh"

namespace PPL = Parma_Polyhedra_Library;

namespace c19 {

typedef PPL::Threshold_Watcher<PPL::Weightwatch_Traits> Weightwatch;

void* wd_new_fn(long csecs, void (*fn)()) { return new PPL::Watchdog(csecs, fn); }
void* wd_new_flag(long csecs, const FlagBase* volatile& holder, Flag& flag) {
  return new PPL::Watchdog(csecs, holder, flag);
}
void wd_delete(void* w) { delete static_cast<PPL::Watchdog*>(w); }

void* tw_new_fn(unsigned long long delta, void (*fn)()) { return new Weightwatch(delta, fn); }
void* tw_new_flag(unsigned long long delta, const FlagBase* volatile& holder, Flag& flag) {
  return new Weightwatch(delta, holder, flag);
}
void tw_delete(void* w) { delete static_cast<Weightwatch*>(w); }
void tw_maybe_abandon() { PPL::maybe_abandon(); }

} // namespace c19

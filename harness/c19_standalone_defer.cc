// Stand-alone reproduction (no harness): a SIGPROF that arrives while Watchdog::in_critical_section is
// true makes reschedule() overwrite last_time_requested; the next watchdog then fires EARLY.
// Deterministic: setitimer/getitimer/sigaction are a 1-timer virtual clock; the "signal" is delivered by
// the setitimer stub itself right after the constructor armed the timer (i.e. still inside the critical section).
#include "ppl-config.h"
#include "Watchdog_defs.hh"
#include <cstdio>
#include <csignal>
static long long now_us, expiry_us; static bool armed, inject; static void (*handler)(int);
extern "C" int sigaction(int, const struct sigaction* a, struct sigaction*) noexcept { if (a) handler = a->sa_handler; return 0; }
static void pass(long long us) {                      // time passes; deliver SIGPROF at each expiry
  long long end = now_us + us;
  while (armed && expiry_us <= end) { now_us = expiry_us; armed = false; handler(SIGPROF); }
  now_us = end;
}
extern "C" int setitimer(__itimer_which_t, const struct itimerval* v, struct itimerval*) noexcept {
  long long us = v->it_value.tv_sec * 1000000LL + v->it_value.tv_usec;
  armed = us != 0; expiry_us = now_us + us;
  if (inject) { inject = false; pass(30000); }        // 3 cs pass before the constructor leaves its critical section
  return 0;
}
extern "C" int getitimer(__itimer_which_t, struct itimerval* v) noexcept {
  long long us = armed ? expiry_us - now_us : 0; v->it_value.tv_sec = us / 1000000; v->it_value.tv_usec = us % 1000000; return 0;
}
static long long t1 = -1; static void f0() { printf("watchdog A (3cs, created at 0) fired at %lld us\n", now_us); }
static void f1() { t1 = now_us; }
int main() {
  using Parma_Polyhedra_Library::Watchdog;
  Watchdog::initialize();
  inject = true;  Watchdog a(3, f0);                  // SIGPROF deferred inside a's constructor -> reschedule()
  long long created = now_us; Watchdog b(2, f1);      // created at 3 cs with a 2 cs delay
  pass(400000);
  printf("watchdog B (2cs) created at %lld us fired at %lld us: %s\n", created, t1, t1 - created < 20000 ? "EARLY" : "ok");
  return t1 - created < 20000;
}

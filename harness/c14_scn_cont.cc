// C14 part 2 scenarios: the row / tree / matrix containers used directly.
#include "harness/c14_oom.hh"

namespace c14 {

static Dense_Row mk_dense(dimension_type n, long seed = 3) {
  Dense_Row d(n);
  for (dimension_type i = 0; i < n; ++i) d[i] = K((long)((i * 7 + seed) % 11) - 4);
  return d;
}
static Sparse_Row mk_sparse(dimension_type n, dimension_type step = 2, long seed = 5) {
  Sparse_Row s(n);
  for (dimension_type i = 0; i < n; i += step) s.insert(i, K((long)((i * 5 + seed) % 13) - 6 == 0 ? 1 : (long)((i * 5 + seed) % 13) - 6));
  return s;
}
static CO_Tree mk_tree(dimension_type n, dimension_type step = 3) {
  CO_Tree t;
  for (dimension_type i = 0; i < n; ++i) t.insert(i * step + 1, K((long)i - 4 == 0 ? 9 : (long)i - 4));
  return t;
}
template <typename Row> static Matrix<Row> mk_matrix(dimension_type rows, dimension_type cols) {
  Matrix<Row> m(rows, cols);
  for (dimension_type i = 0; i < rows; ++i)
    for (dimension_type j = (i % 2); j < cols; j += 2) m[i].insert(j, K((long)(i * 3 + j) % 7 + 1));
  return m;
}
template <> Matrix<Dense_Row> mk_matrix<Dense_Row>(dimension_type rows, dimension_type cols) {
  Matrix<Dense_Row> m(rows, cols);
  for (dimension_type i = 0; i < rows; ++i)
    for (dimension_type j = (i % 2); j < cols; j += 2) m[i][j] = K((long)(i * 3 + j) % 7 + 1);
  return m;
}

// ---- CO_Tree --------------------------------------------------------------------------------
SCN("CO_Tree::CO_Tree(Iterator,n)/13", "CO_Tree::CO_Tree(Iterator,n)", 0) {
  CO_Tree src = mk_tree(13); CO_Tree fresh(src);
  faulted(r, [&] { CO_Tree t(src.begin(), src.size()); if (!t.OK()) r.problem("not_ok", "constructed tree"); });
  untouched(r, src, fresh, "src");
}
SCN("CO_Tree::CO_Tree(Iterator,n)/40", "CO_Tree::CO_Tree(Iterator,n)", 1) {
  CO_Tree src = mk_tree(40); CO_Tree fresh(src);
  faulted(r, [&] { CO_Tree t(src.begin(), src.size()); if (!t.OK()) r.problem("not_ok", "constructed tree"); });
  untouched(r, src, fresh, "src");
}
SCN("CO_Tree::CO_Tree(copy)/13", "CO_Tree::CO_Tree(copy)", 0) {
  CO_Tree src = mk_tree(13); CO_Tree fresh(src);
  faulted(r, [&] { CO_Tree t(src); if (!t.OK()) r.problem("not_ok", "constructed tree"); });
  untouched(r, src, fresh, "src");
}
SCN("CO_Tree::operator=/13", "CO_Tree::operator=", 0) {
  CO_Tree src = mk_tree(13), x = mk_tree(5, 2); CO_Tree fresh(src), xf(x);
  faulted(r, [&] { x = src; });
  usable_c(r, x, xf, "x"); untouched(r, src, fresh, "src");
}
SCN("CO_Tree::insert/growth", "CO_Tree::insert", 0) {
  CO_Tree x = mk_tree(3); CO_Tree xf(x);
  faulted(r, [&] { for (dimension_type i = 0; i < 20; ++i) x.insert(100 - 4 * i, K((long)i + 1)); });
  usable_c(r, x, xf, "x");
}
SCN("CO_Tree::insert(hint)/growth", "CO_Tree::insert", 1) {
  CO_Tree x = mk_tree(3); CO_Tree xf(x);
  faulted(r, [&] { CO_Tree::iterator it = x.end(); for (dimension_type i = 0; i < 20; ++i) it = x.insert(it, 50 + 2 * i, K((long)i + 1)); });
  usable_c(r, x, xf, "x");
}
SCN("CO_Tree::erase/shrink", "CO_Tree::erase", 0) {
  CO_Tree x = mk_tree(24); CO_Tree xf(x);
  faulted(r, [&] { for (dimension_type i = 0; i < 22; ++i) x.erase(i * 3 + 1); });
  usable_c(r, x, xf, "x");
}

// ---- Sparse_Row -----------------------------------------------------------------------------
SCN("Sparse_Row::Sparse_Row(Dense_Row)/12", "Sparse_Row::Sparse_Row(Dense_Row)", 0) {
  Dense_Row d = mk_dense(12); Dense_Row df(d);
  faulted(r, [&] { Sparse_Row s(d); if (!s.OK()) r.problem("not_ok", "constructed row"); });
  untouched(r, d, df, "d");
}
SCN("Sparse_Row::Sparse_Row(copy)/20", "Sparse_Row::Sparse_Row(copy)", 0) {
  Sparse_Row s = mk_sparse(20); Sparse_Row sf(s);
  faulted(r, [&] { Sparse_Row t(s); if (!t.OK()) r.problem("not_ok", "constructed row"); });
  untouched(r, s, sf, "s");
}
SCN("Sparse_Row::operator=(Dense_Row)/12", "Sparse_Row::operator=(Dense_Row)", 0) {
  Dense_Row d = mk_dense(12); Dense_Row df(d); Sparse_Row x = mk_sparse(6); Sparse_Row xf(x);
  faulted(r, [&] { x = d; });
  usable_c(r, x, xf, "x"); untouched(r, d, df, "d");
}
SCN("Sparse_Row::resize/grow+shrink", "Sparse_Row::resize", 0) {
  Sparse_Row x = mk_sparse(20); Sparse_Row xf(x);
  faulted(r, [&] { x.resize(40); x.insert(35, K(3)); x.resize(7); });
  usable_c(r, x, xf, "x");
}
SCN("Sparse_Row::insert/growth", "Sparse_Row::insert", 0) {
  Sparse_Row x(64); Sparse_Row xf(x);
  faulted(r, [&] { for (dimension_type i = 0; i < 64; i += 3) x.insert(63 - i, K((long)i + 1)); });
  usable_c(r, x, xf, "x");
}
SCN("Sparse_Row::linear_combine(Sparse_Row)", "Sparse_Row::linear_combine", 0) {
  Sparse_Row x = mk_sparse(24, 2), y = mk_sparse(24, 3, 2); Sparse_Row xf(x), yf(y);
  Coefficient c1 = K(3), c2 = K(-2);
  faulted(r, [&] { x.linear_combine(y, c1, c2); });
  usable_c(r, x, xf, "x"); untouched(r, y, yf, "y");
}
SCN("Sparse_Row::linear_combine(Sparse_Row,start,end)", "Sparse_Row::linear_combine", 0) {
  Sparse_Row x = mk_sparse(24, 2), y = mk_sparse(24, 3, 2); Sparse_Row xf(x), yf(y);
  Coefficient c1 = K(1), c2 = K(-1);
  faulted(r, [&] { x.linear_combine(y, c1, c2, 2, 20); });
  usable_c(r, x, xf, "x"); untouched(r, y, yf, "y");
}
SCN("linear_combine(Sparse_Row,Dense_Row)", "Sparse_Row::linear_combine(Dense_Row)", 0) {
  Sparse_Row x = mk_sparse(16, 4); Dense_Row y = mk_dense(16); Sparse_Row xf(x); Dense_Row yf(y);
  Coefficient c1 = K(2), c2 = K(5);
  faulted(r, [&] { linear_combine(x, y, c1, c2); });
  usable_c(r, x, xf, "x"); untouched(r, y, yf, "y");
}
SCN("linear_combine(Dense_Row,Sparse_Row)", "Dense_Row::linear_combine(Sparse_Row)", 0) {
  Dense_Row x = mk_dense(16); Sparse_Row y = mk_sparse(16, 3); Dense_Row xf(x); Sparse_Row yf(y);
  Coefficient c1 = K(2), c2 = K(5);
  faulted(r, [&] { linear_combine(x, y, c1, c2); });
  usable_c(r, x, xf, "x"); untouched(r, y, yf, "y");
}
SCN("Sparse_Row::add_zeroes_and_shift", "Sparse_Row::add_zeroes_and_shift", 1) {
  Sparse_Row x = mk_sparse(20); Sparse_Row xf(x);
  faulted(r, [&] { x.add_zeroes_and_shift(5, 4); x.delete_element_and_shift(2); });
  usable_c(r, x, xf, "x");
}
SCN("Sparse_Row::normalize", "Sparse_Row::normalize", 1) {
  Sparse_Row x(12); for (dimension_type i = 0; i < 12; i += 2) x.insert(i, K(6 * (long)(i + 1))); Sparse_Row xf(x);
  faulted(r, [&] { x.normalize(); });
  usable_c(r, x, xf, "x");
}

// ---- Dense_Row ------------------------------------------------------------------------------
SCN("Dense_Row::Dense_Row(sz,capacity)", "Dense_Row::Dense_Row", 0) {
  faulted(r, [&] { Dense_Row x(9, 20); x[3] = K(7); if (!x.OK()) r.problem("not_ok", "constructed row"); });
}
SCN("Dense_Row::Dense_Row(copy)/12", "Dense_Row::Dense_Row(copy)", 0) {
  Dense_Row d = mk_dense(12); Dense_Row df(d);
  faulted(r, [&] { Dense_Row x(d); if (!x.OK()) r.problem("not_ok", "constructed row"); });
  untouched(r, d, df, "d");
}
SCN("Dense_Row::Dense_Row(Sparse_Row)/20", "Dense_Row::Dense_Row(Sparse_Row)", 0) {
  Sparse_Row s = mk_sparse(20); Sparse_Row sf(s);
  faulted(r, [&] { Dense_Row x(s, 20, 24); if (!x.OK()) r.problem("not_ok", "constructed row"); });
  untouched(r, s, sf, "s");
}
SCN("Dense_Row::operator=/12", "Dense_Row::operator=", 0) {
  Dense_Row d = mk_dense(12), x = mk_dense(4, 1); Dense_Row df(d), xf(x);
  faulted(r, [&] { x = d; });
  usable_c(r, x, xf, "x"); untouched(r, d, df, "d");
}
SCN("Dense_Row::resize/grow", "Dense_Row::resize", 0) {
  Dense_Row x = mk_dense(6); Dense_Row xf(x);
  faulted(r, [&] { x.resize(40); x[39] = K(5); x.resize(3); x.resize(12, 50); x.resize(2, 4); });
  usable_c(r, x, xf, "x");
}
SCN("Dense_Row::add_zeroes_and_shift", "Dense_Row::add_zeroes_and_shift", 0) {
  Dense_Row x = mk_dense(10); Dense_Row xf(x);
  faulted(r, [&] { x.add_zeroes_and_shift(12, 3); });
  usable_c(r, x, xf, "x");
}
SCN("Dense_Row::linear_combine(Dense_Row)", "Dense_Row::linear_combine", 0) {
  Dense_Row x = mk_dense(16), y = mk_dense(16, 8); Dense_Row xf(x), yf(y);
  Coefficient c1 = K(3), c2 = K(-7);
  faulted(r, [&] { x.linear_combine(y, c1, c2); });
  usable_c(r, x, xf, "x"); untouched(r, y, yf, "y");
}
SCN("Dense_Row::linear_combine(Dense_Row,start,end)", "Dense_Row::linear_combine", 1) {
  Dense_Row x = mk_dense(16), y = mk_dense(16, 8); Dense_Row xf(x), yf(y);
  Coefficient c1 = K(1), c2 = K(-1);
  faulted(r, [&] { x.linear_combine(y, c1, c2, 1, 15); });
  usable_c(r, x, xf, "x"); untouched(r, y, yf, "y");
}
SCN("Dense_Row::normalize", "Dense_Row::normalize", 1) {
  Dense_Row x(10); for (dimension_type i = 0; i < 10; ++i) x[i] = K(4 * (long)(i + 1)); Dense_Row xf(x);
  faulted(r, [&] { x.normalize(); });
  usable_c(r, x, xf, "x");
}

// ---- Swapping_Vector ------------------------------------------------------------------------
SCN("Swapping_Vector<Dense_Row>::push_back/growth", "Swapping_Vector::push_back", 0) {
  Swapping_Vector<Dense_Row> v; Swapping_Vector<Dense_Row> vf; Dense_Row d = mk_dense(5);
  faulted(r, [&] { for (int i = 0; i < 9; ++i) v.push_back(d); });
  usable_c(r, v, vf, "v");
}
SCN("Swapping_Vector<Sparse_Row>::push_back/growth", "Swapping_Vector::push_back", 0) {
  Swapping_Vector<Sparse_Row> v; Swapping_Vector<Sparse_Row> vf; Sparse_Row d = mk_sparse(9);
  faulted(r, [&] { for (int i = 0; i < 9; ++i) v.push_back(d); });
  usable_c(r, v, vf, "v");
}
SCN("Swapping_Vector<Dense_Row>::resize+reserve", "Swapping_Vector::resize", 0) {
  Swapping_Vector<Dense_Row> v(3, mk_dense(4)); Swapping_Vector<Dense_Row> vf(3, mk_dense(4));
  Dense_Row d = mk_dense(6);
  faulted(r, [&] { v.resize(11, d); v.reserve(40); v.resize(2); v.resize(7); });
  usable_c(r, v, vf, "v");
}
SCN("Swapping_Vector<Sparse_Row>::Swapping_Vector(n,x)", "Swapping_Vector::Swapping_Vector", 1) {
  Sparse_Row d = mk_sparse(9);
  faulted(r, [&] { Swapping_Vector<Sparse_Row> v(7, d); (void) v.size(); });
}
SCN("Swapping_Vector<Dense_Row>::erase", "Swapping_Vector::erase", 1) {
  Swapping_Vector<Dense_Row> v(6, mk_dense(4)); Swapping_Vector<Dense_Row> vf(6, mk_dense(4));
  faulted(r, [&] { v.erase(v.begin() + 1, v.begin() + 3); });   // erase(iterator) never terminates (missing ++i): not used
  usable_c(r, v, vf, "v");
}

// ---- Matrix ---------------------------------------------------------------------------------
SCN("Matrix<Dense_Row>::Matrix(rows,cols)", "Matrix::Matrix", 0) {
  faulted(r, [&] { Matrix<Dense_Row> m(2, 5); m[1][2] = K(3); if (!m.OK()) r.problem("not_ok", "constructed matrix"); });
}
SCN("Matrix<Sparse_Row>::Matrix(rows,cols)", "Matrix::Matrix", 0) {
  faulted(r, [&] { Matrix<Sparse_Row> m(4, 5); m[1].insert(2, K(3)); if (!m.OK()) r.problem("not_ok", "constructed matrix"); });
}
SCN("Matrix<Dense_Row>::resize", "Matrix::resize", 0) {
  Matrix<Dense_Row> m = mk_matrix<Dense_Row>(3, 4); Matrix<Dense_Row> mf(m);
  faulted(r, [&] { m.resize(7, 9); m.resize(2, 3); m.resize(5); });
  usable_c(r, m, mf, "m");
}
SCN("Matrix<Sparse_Row>::resize", "Matrix::resize", 0) {
  Matrix<Sparse_Row> m = mk_matrix<Sparse_Row>(3, 4); Matrix<Sparse_Row> mf(m);
  faulted(r, [&] { m.resize(7, 9); m.resize(2, 3); m.resize(5); });
  usable_c(r, m, mf, "m");
}
SCN("Matrix<Dense_Row>::Matrix(copy)+operator=", "Matrix::Matrix(copy)", 0) {
  Matrix<Dense_Row> m = mk_matrix<Dense_Row>(4, 5), x = mk_matrix<Dense_Row>(2, 2); Matrix<Dense_Row> mf(m), xf(x);
  faulted(r, [&] { Matrix<Dense_Row> c(m); x = c; });
  usable_c(r, x, xf, "x"); untouched(r, m, mf, "m");
}
SCN("Matrix<Sparse_Row>::Matrix(copy)+operator=", "Matrix::Matrix(copy)", 0) {
  Matrix<Sparse_Row> m = mk_matrix<Sparse_Row>(4, 8), x = mk_matrix<Sparse_Row>(2, 2); Matrix<Sparse_Row> mf(m), xf(x);
  faulted(r, [&] { Matrix<Sparse_Row> c(m); x = c; });
  usable_c(r, x, xf, "x"); untouched(r, m, mf, "m");
}
SCN("Matrix<Dense_Row>::add_zero_rows_and_columns", "Matrix::add_zero_rows_and_columns", 0) {
  Matrix<Dense_Row> m = mk_matrix<Dense_Row>(3, 4); Matrix<Dense_Row> mf(m);
  faulted(r, [&] { m.add_zero_rows_and_columns(3, 2); m.add_zero_rows(2); m.add_zero_columns(3); m.add_zero_columns(2, 1); });
  usable_c(r, m, mf, "m");
}
SCN("Matrix<Sparse_Row>::add_zero_rows_and_columns", "Matrix::add_zero_rows_and_columns", 0) {
  Matrix<Sparse_Row> m = mk_matrix<Sparse_Row>(3, 4); Matrix<Sparse_Row> mf(m);
  faulted(r, [&] { m.add_zero_rows_and_columns(3, 2); m.add_zero_rows(2); m.add_zero_columns(3); m.add_zero_columns(2, 1); });
  usable_c(r, m, mf, "m");
}
SCN("Matrix<Dense_Row>::add_row", "Matrix::add_row", 0) {
  Matrix<Dense_Row> m = mk_matrix<Dense_Row>(2, 6); Matrix<Dense_Row> mf(m); Dense_Row d = mk_dense(6);
  faulted(r, [&] { for (int i = 0; i < 6; ++i) m.add_row(d); });
  usable_c(r, m, mf, "m");
}
SCN("Matrix<Sparse_Row>::add_row", "Matrix::add_row", 0) {
  Matrix<Sparse_Row> m = mk_matrix<Sparse_Row>(2, 6); Matrix<Sparse_Row> mf(m); Sparse_Row d = mk_sparse(6);
  faulted(r, [&] { for (int i = 0; i < 6; ++i) m.add_row(d); });
  usable_c(r, m, mf, "m");
}
SCN("Matrix<Sparse_Row>::remove_column+permute_columns", "Matrix::remove_column", 1) {
  Matrix<Sparse_Row> m = mk_matrix<Sparse_Row>(4, 8); Matrix<Sparse_Row> mf(m);
  std::vector<dimension_type> cyc; cyc.push_back(1); cyc.push_back(3); cyc.push_back(5); cyc.push_back(0);
  faulted(r, [&] { m.remove_column(2); m.permute_columns(cyc); m.swap_columns(0, 6); m.remove_trailing_columns(2); m.remove_trailing_rows(1); });
  usable_c(r, m, mf, "m");
}
SCN("Matrix<Dense_Row>::permute_columns", "Matrix::permute_columns", 1) {
  Matrix<Dense_Row> m = mk_matrix<Dense_Row>(4, 8); Matrix<Dense_Row> mf(m);
  std::vector<dimension_type> cyc; cyc.push_back(1); cyc.push_back(3); cyc.push_back(5); cyc.push_back(0);
  faulted(r, [&] { m.permute_columns(cyc); m.swap_columns(0, 6); m.remove_trailing_columns(2); m.remove_trailing_rows(1); });
  usable_c(r, m, mf, "m");
}

// ---- bit matrices ---------------------------------------------------------------------------
SCN("Bit_Matrix::resize+transpose", "Bit_Matrix::resize", 0) {
  Bit_Matrix m(3, 70); m[0].set(65); m[2].set(1); Bit_Matrix mf(m);
  faulted(r, [&] { m.resize(9, 200); m[8].set(199); m.transpose(); Bit_Matrix c(m); m.transpose_assign(c); m.sort_rows(); });
  usable_c(r, m, mf, "m");
}
SCN("Bit_Row::set+union_assign", "Bit_Row::set", 1) {
  Bit_Row a, b; a.set(3); b.set(300); Bit_Row af(a), bf(b);
  faulted(r, [&] { a.set(1000); Bit_Row c(a, b); a.union_assign(c, b); a.set_until(2000); });
  usable_c(r, a, af, "a"); untouched(r, b, bf, "b");
}

// ---- linear expressions and systems ---------------------------------------------------------
SCN("Linear_Expression(DENSE)::arithmetic", "Linear_Expression::operator+=", 0) {
  Linear_Expression e(DENSE); e += K(3) * Variable(1); Linear_Expression ef(e);
  Linear_Expression f(DENSE); f += K(5) * Variable(6); f += K(2); Linear_Expression ff(f);
  faulted(r, [&] { e += f; e -= K(4) * Variable(9); e *= K(3); add_mul_assign(e, K(2), Variable(12)); e.linear_combine(f, K(2), K(-3)); Linear_Expression g(e); neg_assign(g); });
  usable(r, e, ef, "e"); untouched(r, f, ff, "f");
}
SCN("Linear_Expression(SPARSE)::arithmetic", "Linear_Expression::operator+=", 0) {
  Linear_Expression e(SPARSE); e += K(3) * Variable(1); Linear_Expression ef(e);
  Linear_Expression f(SPARSE); f += K(5) * Variable(6); f += K(2); Linear_Expression ff(f);
  faulted(r, [&] { e += f; e -= K(4) * Variable(9); e *= K(3); add_mul_assign(e, K(2), Variable(12)); e.linear_combine(f, K(2), K(-3)); Linear_Expression g(e); neg_assign(g); });
  usable(r, e, ef, "e"); untouched(r, f, ff, "f");
}
SCN("Linear_Expression::Linear_Expression(e,representation)", "Linear_Expression::Linear_Expression", 1) {
  Linear_Expression e(DENSE); e += K(3) * Variable(1); e += K(-2) * Variable(7); Linear_Expression ef(e);
  faulted(r, [&] { Linear_Expression s(e, SPARSE); Linear_Expression d(s, DENSE); d.set_space_dimension(20); s.set_space_dimension(3); });
  untouched(r, e, ef, "e");
}
SCN("Constraint_System::insert/growth", "Constraint_System::insert", 0) {
  Constraint_System cs; Constraint_System csf;
  faulted(r, [&] { for (int i = 0; i < 9; ++i) cs.insert(K(i + 1) * Variable(i) - K(2) * Variable((i + 3) % 9) >= K(i - 4)); Constraint_System c2(cs); cs.insert(Variable(11) == 0); });
  usable(r, cs, csf, "cs");
}
SCN("Generator_System::insert/growth", "Generator_System::insert", 0) {
  Generator_System gs; Generator_System gsf;
  faulted(r, [&] { for (int i = 0; i < 9; ++i) gs.insert(point(K(i + 1) * Variable(i) - K(2) * Variable((i + 3) % 9), K(i + 1) == 0 ? Coefficient(1) : (i % 2 ? K(i + 1) : Coefficient(i + 1)))); gs.insert(ray(Variable(11))); Generator_System g2(gs); });
  usable(r, gs, gsf, "gs");
}
SCN("Congruence_System::insert/growth", "Congruence_System::insert", 0) {
  Congruence_System cs; Congruence_System csf;
  faulted(r, [&] { for (int i = 0; i < 7; ++i) cs.insert((K(i + 1) * Variable(i) - K(2) * Variable((i + 3) % 7) %= K(i - 4)) / (i + 2)); Congruence_System c2(cs); cs.insert(Variable(9) == 0); });
  usable(r, cs, csf, "cs");
}

} // namespace c14

// Stand-alone reproducers for the C14 known findings (no /verif framework involved).
//   g++ -std=gnu++11 -w -DHAVE_CONFIG_H -frounding-math -O1 -DNDEBUG=1 -fno-access-control \
//       -I/verif/build/cfg-prod -I/repo -I/repo/src /verif/harness/c14_repro.cc /verif/build/lib-prod/libppl.a -lgmpxx -lgmp -o /tmp/c14_repro
//   /tmp/c14_repro            runs every case and prints one line per case ("REPRODUCED ..." / "not reproduced ...")
//   /tmp/c14_repro <case>     runs one case
#include "ppl-config.h"
#include "version.hh"
#include "ppl_include_files.hh"
#include <new>
#include <cstdio>
#include <cstdlib>
#include <sstream>
#include <gmp.h>
using namespace Parma_Polyhedra_Library;

// ---- k-th allocation fails; balance of live blocks ------------------------------------------------
static long g_count, g_fail_at, g_live; static bool g_armed;
static void* gate_alloc(size_t n) { if (g_armed && ++g_count == g_fail_at) throw std::bad_alloc(); void* p = malloc(n ? n : 1); if (!p) throw std::bad_alloc(); ++g_live; return p; }
static void gate_free(void* p) { if (p) { --g_live; free(p); } }
void* operator new(size_t n) { return gate_alloc(n); }
void* operator new[](size_t n) { return gate_alloc(n); }
void operator delete(void* p) noexcept { gate_free(p); }
void operator delete[](void* p) noexcept { gate_free(p); }
void operator delete(void* p, size_t) noexcept { gate_free(p); }
void operator delete[](void* p, size_t) noexcept { gate_free(p); }
extern "C" void* r_alloc(size_t n) { return gate_alloc(n); }
extern "C" void r_free(void* p, size_t) { gate_free(p); }
extern "C" void* r_realloc(void* q, size_t o, size_t n) { if (!q) return gate_alloc(n); if (n > o && g_armed && ++g_count == g_fail_at) throw std::bad_alloc(); void* p = realloc(q, n); if (!p) abort(); return p; }
extern "C" void ppl_set_GMP_memory_allocation_functions(void) { mp_set_memory_functions(r_alloc, r_realloc, r_free); }

// runs body(k) for k = 1, 2, ... until the fault is no longer reached; body returns a verdict string ("" = fine)
template <typename F> static void every_k(const char* name, F body) {
  for (int warm = 0; warm < 3; ++warm) { g_fail_at = 0; body(); }           // warm the caches of temporaries
  int bad = 0, total = 0; long first_bad = 0; std::string first_msg;
  for (long k = 1; k < 100000; ++k) {
    std::string v1, v2; long b1, b2;
    g_fail_at = k; long l0 = g_live; v1 = body(); b1 = g_live - l0; bool reached = g_count >= k;
    g_fail_at = k; l0 = g_live; v2 = body(); b2 = g_live - l0;                 // a leak repeats, cache growth does not
    if (!reached) break;
    ++total;
    std::string msg = !v1.empty() ? v1 : (b1 > 0 && b2 > 0) ? "leak: " + std::to_string(b2) + " blocks stay live (twice)" : "";
    if (!msg.empty()) { if (!bad) { first_bad = k; first_msg = msg; } ++bad; }
  }
  g_fail_at = 0;
  if (bad) printf("REPRODUCED %-46s %d of %d allocation indices; first k=%ld: %s\n", name, bad, total, first_bad, first_msg.c_str());
  else printf("not reproduced %-42s (%d allocation indices tried)\n", name, total);
}
#define FAULTED(stmts) g_count = 0; g_armed = true; try { stmts; g_armed = false; } catch (const std::bad_alloc&) { g_armed = false; }

static const Variable A(0), B(1), C(2);

// 1. CO_Tree(Iterator, n): elements already copied and both arrays are lost when an element copy throws
static std::string case_cotree_ctor() {
  Dense_Row d(12); for (dimension_type i = 0; i < 12; ++i) d[i] = Coefficient(i + 1);
  FAULTED(Sparse_Row s(d); (void) s.size());
  return "";
}
// 2. MIP_Problem(const MIP_Problem&) / MIP_Problem(dim, cs, obj, mode): constraints already copied are lost
static std::string case_mip_copy() {
  Constraint_System cs; cs.insert(A >= 0); cs.insert(B >= 0); cs.insert(A + B <= 4);
  MIP_Problem m(2, cs, A + B, MAXIMIZATION);
  FAULTED(MIP_Problem c(m); MIP_Problem d(2, cs, A, MINIMIZATION); (void) c.space_dimension(); (void) d.space_dimension());
  return "";
}
// 3. C_Polyhedron interrupted inside minimization: the object left behind fails OK()
static std::string case_poly_invalid() {
  C_Polyhedron ph(3); ph.add_constraint(A >= 0); ph.add_constraint(B >= 0); ph.add_constraint(C >= 0); ph.add_constraint(A + B + C <= 4);
  (void) ph.minimized_generators();
  FAULTED(ph.add_constraint(A + 2 * B <= 5); ph.add_constraint(B - C >= -1); (void) ph.minimized_generators());
  return ph.OK() ? "" : "C_Polyhedron::OK() is false after std::bad_alloc";
}
// 4. MIP_Problem interrupted inside solve(): OK() false
static std::string case_mip_invalid() {
  Constraint_System cs; cs.insert(A >= 0); cs.insert(B >= 0); cs.insert(2 * A + B <= 9); cs.insert(A + 3 * B <= 8);
  MIP_Problem m(2, cs, 3 * A + 2 * B, MAXIMIZATION);
  FAULTED((void) m.solve());
  bool ok; try { ok = m.OK(); } catch (const std::exception&) { ok = false; }
  return ok ? "" : "MIP_Problem::OK() is false (or throws) after std::bad_alloc";
}
// 5. Linear_Expression (sparse): an explicit zero stays stored
static std::string case_linexpr_sparse() {
  Linear_Expression e(SPARSE); e += 3 * B;
  FAULTED(e -= 4 * Variable(9));
  return e.OK() ? "" : "Linear_Expression::OK() is false after std::bad_alloc";
}

int main(int argc, char** argv) {
  std::string only = argc > 1 ? argv[1] : "";
#define CASE(n, f) if (only.empty() || only == n) every_k(n, f)
  CASE("CO_Tree::CO_Tree(Iterator,n) leak", case_cotree_ctor);
  CASE("MIP_Problem copy/cs constructors leak", case_mip_copy);
  CASE("C_Polyhedron invalid after bad_alloc", case_poly_invalid);
  CASE("MIP_Problem invalid after bad_alloc", case_mip_invalid);
  CASE("Linear_Expression(SPARSE) invalid after bad_alloc", case_linexpr_sparse);

  // ---- no fault needed -------------------------------------------------------------------------
  if (only.empty() || only == "pip_assign") {
    PIP_Problem p(3); p.add_to_parameter_space_dimensions(Variables_Set(C)); p.add_constraint(A >= 0); p.add_constraint(B >= 0); p.add_constraint(A + B <= C);
    (void) p.solve();
    PIP_Problem q(1); q = p;
    printf("%s PIP_Problem::operator= from a solved problem: q.OK() == %d (the solution tree still names the temporary as its owner)\n", q.OK() ? "not reproduced" : "REPRODUCED", (int)q.OK());
  }
  if (only.empty() || only == "bds_add_constraints") {
    BD_Shape<mpq_class> x(2); Constraint_System cs; cs.insert(A >= 0); cs.insert(2 * A - 3 * B <= 1);
    bool threw = false; try { x.add_constraints(cs); } catch (const std::invalid_argument&) { threw = true; }
    printf("%s BD_Shape::add_constraints({A>=0, 2A-3B<=1}) on the universe: threw=%d, receiver still universe=%d\n", (threw && !x.is_universe()) ? "REPRODUCED" : "not reproduced", threw, (int)x.is_universe());
  }
  if (only.empty() || only == "powerset_difference") {
    Pointset_Powerset<C_Polyhedron> x(2), y(3);
    bool threw = false; try { x.difference_assign(y); } catch (const std::invalid_argument&) { threw = true; }
    printf("%s Pointset_Powerset::difference_assign(y), y of another dimension: threw=%d, x.is_empty()=%d\n", threw ? "not reproduced" : "REPRODUCED", threw, (int)x.is_empty());
  }
  if (only.empty() || only == "bds_overflow") {
    BD_Shape<mpq_class> x(2); const char* what = "nothing";
    try { x.add_space_dimensions_and_embed(BD_Shape<mpq_class>::max_space_dimension()); } catch (const std::length_error&) { what = "std::length_error"; } catch (const std::bad_alloc&) { what = "std::bad_alloc"; } catch (const std::exception&) { what = "another exception"; }
    printf("%s BD_Shape::add_space_dimensions_and_embed(max_space_dimension()): %s thrown (documented: std::length_error)\n", std::string(what) == "std::length_error" ? "not reproduced" : "REPRODUCED", what);
  }
  if (only.empty() || only == "box_limited_strict") {
    Rational_Box x(2), y(2, EMPTY); Constraint_System cs; cs.insert(A >= 0); cs.insert(A < 7);
    bool threw = false; try { x.limited_CC76_extrapolation_assign(y, cs); } catch (const std::invalid_argument&) { threw = true; }
    printf("%s Box::limited_CC76_extrapolation_assign(y, {A>=0, A<7}): threw=%d (documented: std::invalid_argument for a strict inequality)\n", threw ? "not reproduced" : "REPRODUCED", threw);
  }
  if (only == "grid_crash") {   // crashes: not part of the default sequence
    Grid x(2); x.add_congruence((A %= 0) / 2); x.add_congruence((A %= 1) / 2);   // empty, not yet known to be
    Grid_Generator_System gs(grid_line(A));
    try { x.add_grid_generators(gs); puts("not reproduced (no exception)"); } catch (const std::invalid_argument&) { puts("not reproduced: std::invalid_argument"); }
  }
  return 0;
}

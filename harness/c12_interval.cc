// C12 part 1: bounded exhaustive enumeration of ALL PAIRS of intervals over a bound alphabet, for every interval
// type / policy, every operation, against an exact rational reference (harness/c12_ref.hh).
//   oracle (i)  exact interval arithmetic over Q without sign cases
//   oracle (ii) membership of a dense finite set of member pairs: a in I, b in J  =>  a o b in result
#include "engine/common.hh"
#include "ppl-config.h"
#include "version.hh"
#include "ppl_include_files.hh"
#include "interfaces/interfaced_boxes.hh"
#include "harness/c12_ref.hh"
#include <cmath>
#include <limits>
#include <stdint.h>

namespace PPL = Parma_Polyhedra_Library;
namespace R = c12;
using R::Q; using R::RI; using R::RB;

enum { CNT_PAIRS = vf::CNT_USER, CNT_MULTRIG_FAIL, CNT_MULTRIG_PASS, CNT_MUL_FAIL_NOTRIG, CNT_ORACLE_SELF, CNT_WRAP_PAIRS,
       CNT_DIV_STRADDLE, CNT_DIV_SD_EXACT, CNT_DIV_SD_INEXACT, CNT_CALLS_EXACT, CNT_FAILCALLS, CNT_RUT_FAIL, CNT_RUT_PASS, CNT_D3_FAIL, CNT_D3_PASS, CNT_RUNE_FAIL, CNT_RUNE_PASS, CNT_IDIV_FAIL, CNT_IDIV_PASS, CNT_WRAPT_FAIL, CNT_WRAPT_PASS };

static std::string g_dump;   // optional: file receiving one line per failing call (uncapped)
static bool g_replay_mode = false;

// ------------------------------------------------------------------------------------------------
// numeric traits: exact conversion to Q, classification, representability
// ------------------------------------------------------------------------------------------------
static Q ld_to_q(long double x) {
  if (x == 0) return Q(0);
  int e; long double m = frexpl(x, &e);
  long double s = ldexpl(m, 64);
  bool ng = s < 0; if (ng) s = -s;
  unsigned long long u = (unsigned long long)s;
  mpz_class z; mpz_import(z.get_mpz_t(), 1, 1, sizeof u, 0, 0, &u);
  Q q(z); if (ng) q = -q;
  e -= 64;
  if (e >= 0) mpq_mul_2exp(q.get_mpq_t(), q.get_mpq_t(), (unsigned long)e);
  else mpq_div_2exp(q.get_mpq_t(), q.get_mpq_t(), (unsigned long)(-e));
  return q;
}
// is q = odd * 2^e representable with p mantissa bits, minimum exponent emin (of the lsb), top bit <= etop
static bool fp_representable(const Q& q, int p, long emin, long etop) {
  if (q == 0) return true;
  const mpz_class& d = q.get_den();
  if (mpz_popcount(d.get_mpz_t()) != 1) return false;
  long e = -(long)mpz_scan1(d.get_mpz_t(), 0);
  mpz_class n = abs(q.get_num());
  unsigned long tz = mpz_scan1(n.get_mpz_t(), 0);
  n >>= tz; e += (long)tz;
  long bits = (long)mpz_sizeinbase(n.get_mpz_t(), 2);
  if (bits > p) return false;
  if (e + bits - 1 > etop) return false;
  // lsb exponent must be >= emin (denormals have lsb exponent emin); normal numbers: top-p+1 >= emin automatically if e>=emin
  return e >= emin;
}

template <typename T> struct NT;
template <> struct NT<mpq_class> {
  static const char* name() { return "mpq"; }
  enum { is_fp = 0, exact_ring = 1, exact_field = 1, bounded_int = 0 };
  static Q toq(const mpq_class& x) { return x; }
  static int cls(const mpq_class&) { return 0; }
  static bool repr(const Q&) { return true; }
};
template <> struct NT<mpz_class> {
  static const char* name() { return "mpz"; }
  enum { is_fp = 0, exact_ring = 1, exact_field = 0, bounded_int = 0 };
  static Q toq(const mpz_class& x) { return Q(x); }
  static int cls(const mpz_class&) { return 0; }
  static bool repr(const Q& q) { return q.get_den() == 1; }
};
template <typename I> struct NT_int {
  enum { is_fp = 0, exact_ring = 0, exact_field = 0, bounded_int = 1 };
  static Q toq(const I& x) { return Q((long)x); }
  static int cls(const I&) { return 0; }
  static bool repr(const Q& q) { return q.get_den() == 1 && q >= Q((long)std::numeric_limits<I>::min()) && q <= Q((long)std::numeric_limits<I>::max()); }
};
template <> struct NT<int8_t> : NT_int<int8_t> { static const char* name() { return "int8"; } };
template <> struct NT<int32_t> : NT_int<int32_t> { static const char* name() { return "int32"; } };
template <typename F> struct NT_fp {
  enum { is_fp = 1, exact_ring = 0, exact_field = 0, bounded_int = 0 };
  static int cls(const F& x) { if (x != x) return 2; if (x == std::numeric_limits<F>::infinity()) return 1; if (x == -std::numeric_limits<F>::infinity()) return -1; return 0; }
};
template <> struct NT<float> : NT_fp<float> {
  static const char* name() { return "float"; }
  static Q toq(const float& x) { return Q((double)x); }
  static bool repr(const Q& q) { return fp_representable(q, 24, -149, 127); }
};
template <> struct NT<double> : NT_fp<double> {
  static const char* name() { return "double"; }
  static Q toq(const double& x) { return Q(x); }
  static bool repr(const Q& q) { return fp_representable(q, 53, -1074, 1023); }
};
template <> struct NT<long double> : NT_fp<long double> {
  static const char* name() { return "long_double"; }
  static Q toq(const long double& x) { return ld_to_q(x); }
  static bool repr(const Q& q) { return fp_representable(q, 64, -16445, 16383); }
};

// ------------------------------------------------------------------------------------------------
// operands
// ------------------------------------------------------------------------------------------------
template <typename T> struct Opnd {
  RI ref; T lo, hi; std::string s; std::vector<Q> mem;
  Opnd() : lo(0), hi(0) {}
};

template <typename ITV> static void make_itv(ITV& z, const Opnd<typename ITV::boundary_type>& o) {
  typedef typename ITV::boundary_type T;
  using namespace PPL;
  if (o.ref.empty) { z.assign(EMPTY); return; }
  T lo = o.lo, hi = o.hi;
  if (o.ref.lo.inf && o.ref.hi.inf) { z.assign(UNIVERSE); return; }
  if (o.ref.lo.inf) { z.build(i_constraint(o.ref.hi.open ? LESS_THAN : LESS_OR_EQUAL, hi)); return; }
  if (o.ref.hi.inf) { z.build(i_constraint(o.ref.lo.open ? GREATER_THAN : GREATER_OR_EQUAL, lo)); return; }
  z.build(i_constraint(o.ref.lo.open ? GREATER_THAN : GREATER_OR_EQUAL, lo),
          i_constraint(o.ref.hi.open ? LESS_THAN : LESS_OR_EQUAL, hi));
}

struct Raw {
  RI ri; bool nan, ppl_empty, ok, closed_inf; std::string rawtxt;
  Raw() : nan(false), ppl_empty(false), ok(true), closed_inf(false) {}
};
template <typename ITV> static Raw read_itv(const ITV& z) {
  typedef typename ITV::boundary_type T;
  Raw r;
  r.ppl_empty = z.is_empty();
  r.ok = z.OK();
  RB lo, hi;
  if (z.lower_is_boundary_infinity()) { lo = R::minf(); if (!z.lower_is_open()) r.closed_inf = true; }
  else {
    int c = NT<T>::cls(z.lower());
    if (c == 2) r.nan = true;
    else if (c == 1) lo = R::pinf();
    else if (c == -1) lo = R::minf();
    else lo = R::fin(NT<T>::toq(z.lower()), z.lower_is_open());
  }
  if (z.upper_is_boundary_infinity()) { hi = R::pinf(); if (!z.upper_is_open()) r.closed_inf = true; }
  else {
    int c = NT<T>::cls(z.upper());
    if (c == 2) r.nan = true;
    else if (c == -1) hi = R::minf();
    else if (c == 1) hi = R::pinf();
    else hi = R::fin(NT<T>::toq(z.upper()), z.upper_is_open());
  }
  if (r.ppl_empty || r.nan) r.ri = R::empty_ri(); else r.ri = R::mk(lo, hi);
  if (r.ppl_empty) { r.closed_inf = false; }
  if (!r.ppl_empty && !r.nan) { RI t = R::mk(lo, hi); if (t.empty) { r.ri = t; } }
  r.rawtxt = R::str(r.ri);
  return r;
}

// ------------------------------------------------------------------------------------------------
// context / reporting
// ------------------------------------------------------------------------------------------------
struct Ctx {
  std::string type, op, variant, xs, ys, alpha; long long i, j; int mode; // mode 0 = pair, 1 = wrap
  std::string trigger;
  std::string extra;  // e.g. rel / wrap parameters
};
static std::string input_json(const Ctx& c) {
  vf::J j; j.str("type", c.type).str("op", c.op).str("variant", c.variant).str("x", c.xs).str("y", c.ys)
    .num("i", c.i).num("j", c.j).num("mode", c.mode).str("alpha", c.alpha);
  if (!c.extra.empty()) j.str("param", c.extra);
  return j.done();
}
static void viol(const Ctx& c, const std::string& clause, const std::string& observed, const std::string& expected, const std::string& detail) {
  vf::count(vf::CNT_VIOL);
  std::string site = c.type + "::" + c.op;
  if (!g_dump.empty()) {
    FILE* f = fopen(g_dump.c_str(), "a");
    if (f) { fprintf(f, "%s\t%s\t%s\t%s\t%s\t%s\t%s\t%s\t%s\n", site.c_str(), clause.c_str(), c.trigger.c_str(), c.variant.c_str(), c.xs.c_str(), c.ys.c_str(), c.extra.c_str(), observed.c_str(), expected.c_str()); fclose(f); }
  }
  if (g_replay_mode) { printf("VIOLATION %s clause=%s trigger=%s variant=%s x=%s y=%s %s\n  observed=%s\n  expected=%s\n  %s\n", site.c_str(), clause.c_str(), c.trigger.c_str(), c.variant.c_str(), c.xs.c_str(), c.ys.c_str(), c.extra.c_str(), observed.c_str(), expected.c_str(), detail.c_str()); return; }
  if (!vf::violcap().admit(site + "|" + clause + "|" + c.trigger)) return;
  vf::report_violation(site, clause, c.trigger, input_json(c), observed, expected, detail);
}
static void oracle_error(const Ctx& c, const std::string& msg) {
  vf::count(CNT_ORACLE_SELF);
  if (!vf::violcap().admit("ORACLE|" + c.op)) return;
  vf::J j; j.str("t", "error").str("msg", "oracle self-check failed: " + c.type + "::" + c.op + " x=" + c.xs + " y=" + c.ys + " " + msg);
  vf::sink().line(j.done());
}

enum Want { W_SUPERSET = 0, W_EXACT = 1 };

// judge one implementation result against the exact reference E and the member values V
static bool same_raw(const Raw& a, const Raw& b) {
  if (a.nan != b.nan || a.ppl_empty != b.ppl_empty || a.ok != b.ok || a.closed_inf != b.closed_inf || a.ri.empty != b.ri.empty) return false;
  if (a.ri.empty) return true;
  return a.ri.lo.inf == b.ri.lo.inf && a.ri.hi.inf == b.ri.hi.inf && a.ri.lo.open == b.ri.lo.open && a.ri.hi.open == b.ri.hi.open
    && (a.ri.lo.inf || a.ri.lo.v == b.ri.lo.v) && (a.ri.hi.inf || a.ri.hi.v == b.ri.hi.v);
}
// prev_ok: a result already judged correct for the same (operands, operation): an identical result needs no new oracle work
static bool judge(const Ctx& c, const Raw& got, const RI& E, int want, const std::vector<Q>* V, bool check_empty = true, const Raw* prev_ok = 0) {
  vf::count(vf::CNT_TRANS);
  if (prev_ok && same_raw(*prev_ok, got)) { if (want == W_EXACT) vf::count(CNT_CALLS_EXACT); return true; }
  bool bad = false;
  if (got.nan) { viol(c, "invariant", "NaN bound", R::str(E), "a bound of the result is not a number"); bad = true; }
  bool enc = true;
  if (!R::subset(E, got.ri)) {
    enc = false; bad = true;
    viol(c, "enclosure", got.rawtxt, R::str(E), "oracle(i): result does not contain the exact result interval");
  }
  else if (V) {
    for (size_t k = 0; k < V->size(); ++k) if (!R::has(got.ri, (*V)[k])) {
      enc = false; bad = true;
      viol(c, "enclosure", got.rawtxt, R::str(E), "oracle(ii): member value " + R::qstr((*V)[k]) + " obtained from members of the operands is not in the result");
      break;
    }
  }
  if (enc) {
    if (want == W_EXACT) {
      vf::count(CNT_CALLS_EXACT);
      if (!R::equal(E, got.ri)) { viol(c, "exact", got.rawtxt, R::str(E), "exact bound type: result is a strict superset of the reference interval"); bad = true; }
    }
    else if (check_empty && E.empty && !got.ri.empty) { viol(c, "emptiness", got.rawtxt, "[]", "reference result is empty, implementation result is not"); bad = true; }
  }
  if (!got.nan && got.ri.empty != got.ppl_empty) { viol(c, "invariant", std::string("is_empty()=") + (got.ppl_empty ? "true" : "false") + " bounds=" + got.rawtxt, "consistent", "is_empty() disagrees with the stored bounds"); bad = true; }
  if (!got.ok || got.closed_inf) { viol(c, "invariant", std::string("OK()=") + (got.ok ? "true" : "false") + (got.closed_inf ? " closed infinite bound " : " ") + got.rawtxt, "OK()", "class invariant of the result violated"); bad = true; }
  if (bad) vf::count(CNT_FAILCALLS);
  return !bad;
}
static bool judge_bool(const Ctx& c, bool got, bool expected, const std::string& what) {
  vf::count(vf::CNT_TRANS);
  if (got != expected) { viol(c, "predicate", what + "=" + (got ? "true" : "false"), expected ? "true" : "false", "boolean query disagrees with the reference"); vf::count(CNT_FAILCALLS); return false; }
  return true;
}

static RI closure(const RI& e) { if (e.empty) return e; RB l = e.lo, h = e.hi; if (!l.inf) l.open = false; if (!h.inf) h.open = false; return R::mk(l, h); }
// enclosure against the true set E, exactness against the best interval Eimpl the policy can store
static bool judge2(const Ctx& c, const Raw& got, const RI& E, const RI& Eimpl, const std::vector<Q>* V) {
  bool ok = judge(c, got, E, W_SUPERSET, V, false);
  if (ok) {
    vf::count(CNT_CALLS_EXACT);
    // E <= got is already established; got <= Eimpl makes got equal to E when the policy can store E
    if (!R::subset(got.ri, Eimpl)) { viol(c, "exact", got.rawtxt, R::str(Eimpl), "result is larger than the smallest interval of this type containing the documented set"); vf::count(CNT_FAILCALLS); ok = false; }
  }
  return ok;
}

// ------------------------------------------------------------------------------------------------
// trigger predicates (computed from the operands with the reference only)
// ------------------------------------------------------------------------------------------------
// kind of an endpoint product as the implementation type stores it: 0 closed finite, 1 open finite (also: inexact,
// rounded outwards), 2 infinity
template <typename ITV> static int prod_kind(const RB& a, const RB& b) {
  typedef typename ITV::boundary_type T;
  bool isinf = a.inf || b.inf;
  bool open = a.open || b.open;
  bool rep = true;
  if (!isinf) rep = NT<T>::repr(a.v * b.v);
  if (isinf) return 2;
  if (NT<T>::bounded_int && !rep) return 2;
  if (NT<T>::is_fp && abs(a.v * b.v) > NT<T>::toq(std::numeric_limits<T>::max())) return 2;   // overflows to an infinity
  if (!ITV::info_type::store_open) return 0;
  return (open || !rep) ? 1 : 0;
}
// does losing the flags of the winning product matter?  first = kind of the product computed first (whose flags
// survive), win = kind of the product whose value is copied
template <typename ITV> static bool kind_loss_matters(int first, int win) {
  if (first == win) return false;
  if (ITV::info_type::store_special) return true;          // special-infinity flag / openness wrong: value or exactness lost
  // infinities are ordinary values here: only the openness flag is lost
  if (first == 1 && win == 0) return true;                 // attained extremum reported as open: point lost
  if (first == 0 && win == 2) return true;                 // closed infinite bound: class invariant broken
  return false;                                            // closed instead of open: still a superset (inexact types)
}
struct PV { int inf; Q v; bool open; };
static PV prod_val(const RB& a, const RB& b) {   // both factors non-zero
  PV p; p.open = a.open || b.open; p.inf = 0;
  int sa = a.inf ? a.inf : sgn(a.v), sb = b.inf ? b.inf : sgn(b.v);
  if (a.inf || b.inf) { p.inf = sa * sb; p.open = true; return p; }
  p.v = a.v * b.v; return p;
}
static int cmp_pv(const PV& a, const PV& b) { if (a.inf != b.inf) return a.inf < b.inf ? -1 : 1; if (a.inf) return 0; return cmp(a.v, b.v); }
// "both operands strictly straddle zero and the cross product that wins the min (resp. max) comparison is of a
// different kind (closed / open / infinite) than the product computed first"
template <typename ITV> static bool mul_trigger(const RI& x, const RI& y) {
  if (x.empty || y.empty) return false;
  RB z = R::fin(0, false);
  if (!(R::cmpv(x.lo, z) < 0 && R::cmpv(x.hi, z) > 0 && R::cmpv(y.lo, z) < 0 && R::cmpv(y.hi, z) > 0)) return false;
  // lower: first = xl*yu, second = xu*yl ; second wins when it admits more
  PV l1 = prod_val(x.lo, y.hi), l2 = prod_val(x.hi, y.lo);
  int c = cmp_pv(l2, l1);
  bool lwin = c < 0 || (c == 0 && !l2.open && l1.open);
  if (lwin && kind_loss_matters<ITV>(prod_kind<ITV>(x.lo, y.hi), prod_kind<ITV>(x.hi, y.lo))) return true;
  PV u1 = prod_val(x.lo, y.lo), u2 = prod_val(x.hi, y.hi);
  c = cmp_pv(u2, u1);
  bool uwin = c > 0 || (c == 0 && !u2.open && u1.open);
  if (uwin && kind_loss_matters<ITV>(prod_kind<ITV>(x.lo, y.lo), prod_kind<ITV>(x.hi, y.hi))) return true;
  return false;
}

// ------------------------------------------------------------------------------------------------
// per-type runner
// ------------------------------------------------------------------------------------------------
struct TypeRunner {
  std::string name;
  virtual ~TypeRunner() {}
  virtual size_t rows() const = 0;
  virtual size_t wrap_rows() const = 0;
  virtual void run_row(size_t i, long long sub_start, long long only_j) = 0;
  virtual void run_wrap_row(size_t i, long long sub_start) = 0;
  virtual std::string describe() const = 0;
  virtual std::string row_str(int mode, size_t i) const = 0;
};

enum Group { G_ARITH = 0, G_SET, G_REFINE, G_PRED, G_WIDEN, G_SCALAR, G_N };
static const char* group_name(int g) { static const char* n[] = { "arith", "set", "refine", "pred", "widen", "scalar" }; return n[g]; }

template <typename ITV> struct Runner : TypeRunner {
  typedef typename ITV::boundary_type T;
  typedef Opnd<T> Op;
  std::vector<Op> ops;          // pair alphabet
  std::vector<Op> wops, wrefs;  // wrap alphabet: operands / refinements
  std::vector<T> stops;         // CC76 stop points
  std::string alpha;
  bool exact_q;                 // exact for + - * (ring) on this alphabet
  Op poison_b;
  std::string only_op;

  static const bool SO = ITV::info_type::store_open;

  void add_op(std::vector<Op>& dst, bool lo_inf, T lo, bool lo_open, bool hi_inf, T hi, bool hi_open) {
    Op o; o.lo = lo; o.hi = hi;
    RB l = lo_inf ? R::minf() : R::fin(NT<T>::toq(lo), lo_open);
    RB h = hi_inf ? R::pinf() : R::fin(NT<T>::toq(hi), hi_open);
    o.ref = R::mk(l, h);
    if (o.ref.empty) return;
    o.s = R::str(o.ref); o.mem = R::members(o.ref);
    dst.push_back(o);
  }
  void build_alphabet(std::vector<Op>& dst, const std::vector<T>& vals) {
    Op e; e.ref = R::empty_ri(); e.s = "[]"; dst.push_back(e);
    add_op(dst, true, T(0), true, true, T(0), true);                         // universe
    for (size_t a = 0; a < vals.size(); ++a) {
      for (int o = 0; o < (SO ? 2 : 1); ++o) {
        add_op(dst, true, T(0), true, false, vals[a], o != 0);               // (-inf, a] / (-inf, a)
        add_op(dst, false, vals[a], o != 0, true, T(0), true);               // [a, +inf) / (a, +inf)
      }
      add_op(dst, false, vals[a], false, false, vals[a], false);             // singleton
      for (size_t b = a + 1; b < vals.size(); ++b)
        for (int o = 0; o < (SO ? 4 : 1); ++o)
          add_op(dst, false, vals[a], (o & 1) != 0, false, vals[b], (o & 2) != 0);
    }
  }
  Runner(const std::string& nm, const std::vector<T>& vals, const std::vector<T>& wvals, const std::vector<std::pair<int, int> >& wrefs_int,
         const std::vector<T>& stop_pts, const std::string& alpha_name) {
    name = nm; alpha = alpha_name; stops = stop_pts;
    build_alphabet(ops, vals);
    build_alphabet(wops, wvals);
    // refinements for wrap_assign: universe, empty and closed integer ranges
    { Op e; e.ref = R::empty_ri(); e.s = "[]"; wrefs.push_back(e); }
    add_op(wrefs, true, T(0), true, true, T(0), true);
    for (size_t k = 0; k < wrefs_int.size(); ++k) {
      int a = wrefs_int[k].first, b = wrefs_int[k].second;
      if (a == INT_MIN) add_op(wrefs, true, T(0), true, false, T(b), false);
      else if (b == INT_MAX) add_op(wrefs, false, T(a), false, true, T(0), true);
      else add_op(wrefs, false, T(a), false, false, T(b), false);
    }
    add_op_poison();
  }
  void add_op_poison() {
    std::vector<Op> tmp; add_op(tmp, false, T(5), SO, false, T(7), SO); poison_b = tmp[0];
  }
  size_t rows() const { return ops.size(); }
  size_t wrap_rows() const { return wops.size(); }
  std::string describe() const {
    std::ostringstream o; o << name << ": " << ops.size() << " intervals (" << ops.size() * ops.size() << " pairs), wrap " << wops.size() << "x" << wrefs.size() << "x2";
    return o.str();
  }
  std::string row_str(int mode, size_t i) const { return mode == 0 ? ops[i].s : wops[i].s; }

  Ctx ctx(const char* op, const char* variant, const Op& x, const Op& y, long long i, long long j) const {
    Ctx c; c.type = name; c.op = op; c.variant = variant; c.xs = x.s; c.ys = y.s; c.i = i; c.j = j; c.mode = 0; c.alpha = alpha; c.trigger = "none";
    return c;
  }
  bool want_op(const char* op) const { return only_op.empty() || only_op == op; }

  // ----- arithmetic ---------------------------------------------------------------------------
  // kind: 0 add 1 sub 2 mul 3 div
  template <typename A, typename B> static void call_arith(int kind, ITV& z, const A& a, const B& b) {
    switch (kind) { case 0: z.add_assign(a, b); break; case 1: z.sub_assign(a, b); break; case 2: z.mul_assign(a, b); break; default: z.div_assign(a, b); break; }
  }
  static ITV call_operator(int kind, const ITV& a, const ITV& b) {
    switch (kind) { case 0: return a + b; case 1: return a - b; case 2: return a * b; default: return a / b; }
  }
  void arith_pair(const Op& X, const Op& Y, const ITV& px, const ITV& py, long long i, long long j, bool scalar_pass) {
    static const char* opn[4] = { "add_assign", "sub_assign", "mul_assign", "div_assign" };
    for (int kind = 0; kind < 4; ++kind) {
      if (!want_op(opn[kind])) continue;
      RI E; bool straddle = false; std::vector<Q> V;
      {
        vf::RefGuard g;
        switch (kind) { case 0: E = R::add(X.ref, Y.ref); break; case 1: E = R::sub(X.ref, Y.ref); break; case 2: E = R::mul(X.ref, Y.ref); break; default: E = R::div(X.ref, Y.ref, &straddle); break; }
        for (size_t a = 0; a < X.mem.size(); ++a) for (size_t b = 0; b < Y.mem.size(); ++b) {
          const Q& qa = X.mem[a]; const Q& qb = Y.mem[b];
          if (kind == 3 && qb == 0) continue;
          Q v = kind == 0 ? Q(qa + qb) : kind == 1 ? Q(qa - qb) : kind == 2 ? Q(qa * qb) : Q(qa / qb);
          bool dup = false; for (size_t m = 0; m < V.size(); ++m) if (V[m] == v) { dup = true; break; }
          if (!dup) V.push_back(v);
        }
      }
      Ctx c0 = ctx(opn[kind], "", X, Y, i, j);
      for (size_t m = 0; m < V.size(); ++m) if (!R::has(E, V[m])) { oracle_error(c0, "member value " + R::qstr(V[m]) + " not in exact " + R::str(E)); break; }
      int want = W_SUPERSET;
      if (kind <= 2 && (NT<T>::exact_ring)) want = W_EXACT;
      if (kind == 3) {
        if (straddle) vf::count(CNT_DIV_STRADDLE);
        else if (NT<T>::exact_field) want = W_EXACT;   // sign-definite divisor, exact field: the quotient set is an interval
      }
      bool trig = (kind == 2) && mul_trigger<ITV>(X.ref, Y.ref);
      std::string tname = trig ? "mul_both_straddle_zero_winning_cross_product_differs_in_kind" : "none";
      bool idiv = false;
      if (kind == 3 && NT<T>::bounded_int && !X.ref.empty && !Y.ref.empty && !straddle) {
        // C11's div_signed_int rounding defect: some finite endpoint quotient with a negative divisor is inexact
        const RB* xe[2] = { &X.ref.lo, &X.ref.hi }; const RB* ye[2] = { &Y.ref.lo, &Y.ref.hi };
        for (int a = 0; a < 2; ++a) for (int b = 0; b < 2; ++b) if (!xe[a]->inf && !ye[b]->inf && ye[b]->v < 0) { Q q = xe[a]->v / ye[b]->v; if (q.get_den() != 1) idiv = true; }
        if (idiv) tname = "native_integer_division_negative_divisor_inexact_endpoint_quotient";
      }
      bool any_fail = false;
      Raw okraw; bool have_ok = false;
      if (!scalar_pass) {
        static const char* vn[6] = { "fresh_universe", "fresh_bounded", "alias_x", "alias_y", "alias_xy", "operator" };
        for (int v = 0; v < 6; ++v) {
          if (v == 4 && i != j) continue;
          ITV z;
          switch (v) {
          case 0: z.assign(PPL::UNIVERSE); call_arith(kind, z, px, py); break;
          case 1: make_itv(z, poison_b); call_arith(kind, z, px, py); break;
          case 2: z = px; call_arith(kind, z, z, py); break;
          case 3: z = py; call_arith(kind, z, px, z); break;
          case 4: z = px; call_arith(kind, z, z, z); break;
          default: z = call_operator(kind, px, py); break;
          }
          Ctx c = c0; c.variant = vn[v]; c.trigger = tname;
          Raw got = read_itv(z);
          if (!judge(c, got, E, want, &V, true, have_ok ? &okraw : 0)) any_fail = true;
          else if (!have_ok) { okraw = got; have_ok = true; }
        }
      }
      else {
        // scalar variants: a singleton operand passed as a plain number of the boundary type
        bool xs = R::is_singleton(X.ref), ys = R::is_singleton(Y.ref);
        T sx = X.lo, sy = Y.lo;
        for (int v = 0; v < 3; ++v) {
          ITV z; z.assign(PPL::UNIVERSE);
          const char* vn;
          if (v == 0) { if (!ys) continue; call_arith(kind, z, px, sy); vn = "scalar_y"; }
          else if (v == 1) { if (!xs) continue; call_arith(kind, z, sx, py); vn = "scalar_x"; }
          else { if (!xs || !ys) continue; call_arith(kind, z, sx, sy); vn = "scalar_xy"; }
          Ctx c = c0; c.variant = vn; c.trigger = tname;
          if (!judge(c, read_itv(z), E, want, &V)) any_fail = true;
        }
      }
      if (idiv) vf::count(any_fail ? CNT_IDIV_FAIL : CNT_IDIV_PASS);
      if (kind == 2 && !scalar_pass) {
        if (any_fail) { vf::count(trig ? CNT_MULTRIG_FAIL : CNT_MUL_FAIL_NOTRIG); }
        else if (trig) vf::count(CNT_MULTRIG_PASS);
      }
    }
  }

  // ----- set operations -------------------------------------------------------------------------
  void set_pair(const Op& X, const Op& Y, const ITV& px, const ITV& py, long long i, long long j) {
    // join
    if (want_op("join_assign")) {
      RI E = R::hull(X.ref, Y.ref);
      std::vector<Q> V = X.mem; V.insert(V.end(), Y.mem.begin(), Y.mem.end());
      { ITV z = px; z.join_assign(py); Ctx c = ctx("join_assign", "inplace", X, Y, i, j); judge(c, read_itv(z), E, W_EXACT, &V); }
      { ITV z; make_itv(z, poison_b); z.join_assign(px, py); Ctx c = ctx("join_assign", "fresh_bounded", X, Y, i, j); judge(c, read_itv(z), E, W_EXACT, &V); }
      { ITV z = px; z.join_assign(z, py); Ctx c = ctx("join_assign", "alias_x", X, Y, i, j); judge(c, read_itv(z), E, W_EXACT, &V); }
      { ITV z = py; z.join_assign(px, z); Ctx c = ctx("join_assign", "alias_y", X, Y, i, j); judge(c, read_itv(z), E, W_EXACT, &V); }
    }
    if (want_op("intersect_assign")) {
      RI E = R::meet(X.ref, Y.ref);
      std::vector<Q> V; for (size_t a = 0; a < X.mem.size(); ++a) if (R::has(Y.ref, X.mem[a])) V.push_back(X.mem[a]);
      for (size_t a = 0; a < Y.mem.size(); ++a) if (R::has(X.ref, Y.mem[a])) V.push_back(Y.mem[a]);
      { ITV z = px; z.intersect_assign(py); Ctx c = ctx("intersect_assign", "inplace", X, Y, i, j); judge(c, read_itv(z), E, W_EXACT, &V); }
      { ITV z; make_itv(z, poison_b); z.intersect_assign(px, py); Ctx c = ctx("intersect_assign", "fresh_bounded", X, Y, i, j); judge(c, read_itv(z), E, W_EXACT, &V); }
      { ITV z = px; z.intersect_assign(z, py); Ctx c = ctx("intersect_assign", "alias_x", X, Y, i, j); judge(c, read_itv(z), E, W_EXACT, &V); }
      { ITV z = py; z.intersect_assign(px, z); Ctx c = ctx("intersect_assign", "alias_y", X, Y, i, j); judge(c, read_itv(z), E, W_EXACT, &V); }
    }
    if (want_op("difference_assign")) {
      RI E = R::difference(X.ref, Y.ref);
      std::vector<Q> V; for (size_t a = 0; a < X.mem.size(); ++a) if (!R::has(Y.ref, X.mem[a])) V.push_back(X.mem[a]);
      // documented: "the smallest interval containing the set-theoretic difference"; policies without store_open can
      // only store the closure of that interval
      RI Eimpl = SO ? E : closure(E);
      // known finding: the three-operand form loses the boundary flags / leaves *this untouched
      bool overlap = !X.ref.empty && !Y.ref.empty && !R::meet(X.ref, Y.ref).empty && !R::subset(X.ref, Y.ref);
      bool inside = overlap && R::cmp_lo(X.ref.lo, Y.ref.lo) < 0 && R::cmp_hi(X.ref.hi, Y.ref.hi) > 0;
      bool flagged = !E.empty && (E.lo.inf || E.hi.inf || (SO && (E.lo.open || E.hi.open)));
      // (also: an empty y is compared through its stored bounds [1,0])
      bool yempty = Y.ref.empty && !X.ref.empty;
      std::string t3 = (yempty || (overlap && (inside || flagged))) ? "difference_three_operand_form_flags_lost_or_result_not_assigned" : "none";
      { ITV z = px; z.difference_assign(py); Ctx c = ctx("difference_assign", "inplace", X, Y, i, j); judge2(c, read_itv(z), E, Eimpl, &V); }
      { ITV z; make_itv(z, poison_b); z.difference_assign(px, py); Ctx c = ctx("difference_assign", "fresh_bounded", X, Y, i, j); c.trigger = t3; bool ok = judge2(c, read_itv(z), E, Eimpl, &V); if (t3 != "none") vf::count(ok ? CNT_D3_PASS : CNT_D3_FAIL); }
      { ITV z; z.assign(PPL::UNIVERSE); z.difference_assign(px, py); Ctx c = ctx("difference_assign", "fresh_universe", X, Y, i, j); c.trigger = t3; bool ok = judge2(c, read_itv(z), E, Eimpl, &V); if (t3 != "none") vf::count(ok ? CNT_D3_PASS : CNT_D3_FAIL); }
    }
    if (want_op("assign") && j == 0) {
      { ITV z; make_itv(z, poison_b); z.assign(px); Ctx c = ctx("assign", "fresh_bounded", X, X, i, i); judge(c, read_itv(z), X.ref, W_EXACT, &X.mem); }
      { ITV z; make_itv(z, poison_b); z = px; Ctx c = ctx("assign", "operator=", X, X, i, i); judge(c, read_itv(z), X.ref, W_EXACT, &X.mem); }
    }
    if (want_op("neg_assign") && j == 0) {
      RI E = R::neg(X.ref); std::vector<Q> V; for (size_t a = 0; a < X.mem.size(); ++a) V.push_back(-X.mem[a]);
      // negation is exact in every boundary type of the alphabet except two's complement minimum
      int want = NT<T>::bounded_int ? W_SUPERSET : W_EXACT;
      { ITV z; make_itv(z, poison_b); z.neg_assign(px); Ctx c = ctx("neg_assign", "fresh_bounded", X, X, i, i); judge(c, read_itv(z), E, want, &V); }
      { ITV z = px; z.neg_assign(z); Ctx c = ctx("neg_assign", "alias", X, X, i, i); judge(c, read_itv(z), E, want, &V); }
    }
    if (want_op("queries") && j == 0) {
      Ctx c = ctx("queries", "", X, X, i, i);
      judge_bool(c, px.is_empty(), X.ref.empty, "is_empty");
      if (!X.ref.empty) {
        judge_bool(c, px.is_singleton(), R::is_singleton(X.ref), "is_singleton");
        judge_bool(c, px.is_universe(), R::is_universe(X.ref), "is_universe");
        judge_bool(c, px.is_bounded(), R::is_bounded(X.ref), "is_bounded");
        judge_bool(c, px.lower_is_boundary_infinity(), X.ref.lo.inf != 0, "lower_is_boundary_infinity");
        judge_bool(c, px.upper_is_boundary_infinity(), X.ref.hi.inf != 0, "upper_is_boundary_infinity");
        bool tc = (X.ref.lo.inf || !X.ref.lo.open) && (X.ref.hi.inf || !X.ref.hi.open);
        judge_bool(c, px.is_topologically_closed(), tc, "is_topologically_closed");
        { ITV z = px; z.topological_closure_assign(); RB l = X.ref.lo, h = X.ref.hi; if (!l.inf) l.open = false; if (!h.inf) h.open = false;
          Ctx c2 = ctx("topological_closure_assign", "inplace", X, X, i, i); judge(c2, read_itv(z), R::mk(l, h), W_EXACT, &X.mem); }
      }
    }
  }

  // ----- refinement -----------------------------------------------------------------------------
  static PPL::Relation_Symbol relsym(int r) {
    switch (r) { case R::R_EQ: return PPL::EQUAL; case R::R_LT: return PPL::LESS_THAN; case R::R_LE: return PPL::LESS_OR_EQUAL;
      case R::R_GT: return PPL::GREATER_THAN; case R::R_GE: return PPL::GREATER_OR_EQUAL; default: return PPL::NOT_EQUAL; }
  }
  // relaxation of a relation for policies that cannot store open bounds
  static int relax(int rel) { if (SO) return rel; if (rel == R::R_LT) return R::R_LE; if (rel == R::R_GT) return R::R_GE; return rel; }
  template <typename YY> void refine_one(const Op& X, const Op& Y, const ITV& px, const YY& py, long long i, long long j, const char* variant) {
    for (int rel = 0; rel < R::R_N; ++rel) {
      if (want_op("refine_existential")) {
        RI E = R::refine_exists(X.ref, rel, Y.ref);
        // best interval the policy can be expected to store: closed-only policies treat < as <= and ignore !=
        RI Eimpl = SO ? E : ((rel == R::R_NE) ? ((Y.ref.empty || X.ref.empty) ? R::empty_ri() : X.ref) : closure(R::refine_exists(X.ref, relax(rel), closure(Y.ref))));
        std::vector<Q> V;
        for (size_t a = 0; a < X.mem.size(); ++a) { bool ex = false; for (size_t b = 0; b < Y.mem.size() && !ex; ++b) if (R::relholds(X.mem[a], rel, Y.mem[b])) ex = true; if (ex) V.push_back(X.mem[a]); }
        Ctx c = ctx("refine_existential", variant, X, Y, i, j); c.extra = R::relname(rel);
        for (size_t m = 0; m < V.size(); ++m) if (!R::has(E, V[m])) { oracle_error(c, "member " + R::qstr(V[m]) + " not in " + R::str(E)); break; }
        ITV z = px; z.refine_existential(relsym(rel), py);
        // documentation: "the smallest interval of its type that contains the set"
        judge2(c, read_itv(z), E, Eimpl, &V);
      }
      if (want_op("refine_universal")) {
        RI E = R::refine_forall(X.ref, rel, Y.ref);
        RI Eimpl = SO ? E : ((rel == R::R_NE) ? (R::is_singleton(Y.ref) ? X.ref : closure(E)) : closure(R::refine_forall(X.ref, relax(rel), closure(Y.ref))));
        std::vector<Q> V;
        for (size_t a = 0; a < X.mem.size(); ++a) if (R::has(E, X.mem[a])) V.push_back(X.mem[a]);
        Ctx c = ctx("refine_universal", variant, X, Y, i, j); c.extra = R::relname(rel);
        bool rut = !Y.ref.empty && ((Y.ref.lo.inf && (rel == R::R_LT || rel == R::R_LE)) || (Y.ref.hi.inf && (rel == R::R_GT || rel == R::R_GE)));
        bool rune = rel == R::R_NE && !Y.ref.empty && !R::is_singleton(Y.ref) && !X.ref.empty && !R::equal(Eimpl, X.ref);
        if (rut) c.trigger = "refine_universal_order_relation_with_operand_unbounded_on_the_compared_side";
        if (rune) c.trigger = "refine_universal_NOT_EQUAL_with_non_singleton_operand_overlapping_the_interval";
        ITV z = px; z.refine_universal(relsym(rel), py);
        bool ok = judge2(c, read_itv(z), E, Eimpl, &V);
        if (rut) vf::count(ok ? CNT_RUT_PASS : CNT_RUT_FAIL);
        if (rune) vf::count(ok ? CNT_RUNE_PASS : CNT_RUNE_FAIL);
      }
    }
  }

  // ----- predicates -----------------------------------------------------------------------------
  void pred_pair(const Op& X, const Op& Y, const ITV& px, const ITV& py, long long i, long long j) {
    if (!want_op("predicates")) return;
    Ctx c = ctx("predicates", "", X, Y, i, j);
    bool sub = R::subset(Y.ref, X.ref), eq = R::equal(X.ref, Y.ref);
    c.op = "contains"; judge_bool(c, px.contains(py), sub, "contains");
    c.op = "strictly_contains"; judge_bool(c, px.strictly_contains(py), sub && !eq, "strictly_contains");
    c.op = "is_disjoint_from"; judge_bool(c, px.is_disjoint_from(py), R::meet(X.ref, Y.ref).empty, "is_disjoint_from");
    c.op = "operator=="; judge_bool(c, px == py, eq, "operator==");
    // cross-check the reference predicates themselves on the member sets
    for (size_t b = 0; b < Y.mem.size(); ++b) if (sub && !R::has(X.ref, Y.mem[b])) oracle_error(c, "subset vs members");
    if (R::is_singleton(Y.ref)) {
      T s = Y.lo; c.variant = "scalar_y";
      c.op = "contains"; judge_bool(c, px.contains(s), sub, "contains");
      c.op = "strictly_contains"; judge_bool(c, px.strictly_contains(s), sub && !eq, "strictly_contains");
      c.op = "is_disjoint_from"; judge_bool(c, px.is_disjoint_from(s), R::meet(X.ref, Y.ref).empty, "is_disjoint_from");
      c.op = "operator=="; judge_bool(c, px == s, eq, "operator==");
    }
  }

  // ----- CC76 widening ----------------------------------------------------------------------------
  void widen_pair(const Op& X, const Op& Y, const ITV& px, const ITV& py, long long i, long long j) {
    if (!want_op("CC76_widening_assign")) return;
    if (Y.ref.empty || !R::subset(Y.ref, X.ref)) return;   // precondition: y non-empty and contained in x
    RB lo = X.ref.lo, hi = X.ref.hi;
    if (!hi.inf && cmp(Y.ref.hi.v, hi.v) < 0) {
      bool found = false;
      for (size_t k = 0; k < stops.size(); ++k) { Q s = NT<T>::toq(stops[k]); if (s >= hi.v) { hi.v = s; found = true; break; } }
      if (!found) hi = R::pinf();
    }
    if (!lo.inf && cmp(Y.ref.lo.v, lo.v) > 0) {
      bool found = false;
      for (size_t k = stops.size(); k-- > 0; ) { Q s = NT<T>::toq(stops[k]); if (s <= lo.v) { lo.v = s; found = true; break; } }
      if (!found) lo = R::minf();
    }
    RI E = R::mk(lo, hi);
    Ctx c = ctx("CC76_widening_assign", "stops{-2..2}", X, Y, i, j);
    if (!R::subset(X.ref, E)) oracle_error(c, "widening reference not above x");
    ITV z = px;
    const T* first = stops.empty() ? (const T*)0 : &stops[0];
    z.CC76_widening_assign(py, first, first + stops.size());
    // soundness: the widening is an upper bound of x (and of y); exactness: the documented stop-point semantics
    Raw got = read_itv(z);
    vf::count(vf::CNT_TRANS);
    if (!R::subset(X.ref, got.ri)) viol(c, "enclosure", got.rawtxt, R::str(E), "widening result does not contain its first argument");
    else if (!R::equal(E, got.ri)) viol(c, "exact", got.rawtxt, R::str(E), "widening result differs from the stop-point reference");
    if (!got.ok || got.closed_inf) viol(c, "invariant", got.rawtxt, "OK()", "class invariant violated");
  }

  // ----- the row --------------------------------------------------------------------------------
  void run_row(size_t i, long long sub_start, long long only_j) {
    const Op& X = ops[i];
    ITV px; make_itv(px, X);
    {
      Raw r = read_itv(px); Ctx c = ctx("build", "i_constraint", X, X, i, i); vf::count(vf::CNT_TRANS);
      if (!R::equal(r.ri, X.ref) || !r.ok || r.closed_inf) viol(c, "exact", r.rawtxt, X.s, "interval built from constraints does not read back as specified");
    }
    for (size_t j = 0; j < ops.size(); ++j) {
      if (only_j >= 0 && (long long)j != only_j) continue;
      const Op& Y = ops[j];
      ITV py; make_itv(py, Y);
      vf::count(CNT_PAIRS);
      for (int g = 0; g < G_N; ++g) {
        long long sub = (long long)j * G_N + g;
        if (!vf::pool().want(sub, sub_start)) continue;
        vf::pool().step(sub);
        switch (g) {
        case G_ARITH: arith_pair(X, Y, px, py, i, j, false); break;
        case G_SET: set_pair(X, Y, px, py, i, j); break;
        case G_REFINE: refine_one(X, Y, px, py, i, j, "interval"); break;
        case G_PRED: pred_pair(X, Y, px, py, i, j); break;
        case G_WIDEN: widen_pair(X, Y, px, py, i, j); break;
        case G_SCALAR:
          if (R::is_singleton(X.ref) || R::is_singleton(Y.ref)) arith_pair(X, Y, px, py, i, j, true);
          if (R::is_singleton(Y.ref)) {
            T s = Y.lo;
            refine_one(X, Y, px, s, i, j, "scalar_y");
            if (want_op("join_assign")) { RI E = R::hull(X.ref, Y.ref); std::vector<Q> V = X.mem; V.push_back(Y.ref.lo.v); ITV z = px; z.join_assign(s); Ctx c = ctx("join_assign", "scalar_y", X, Y, i, j); judge(c, read_itv(z), E, W_EXACT, &V); }
            if (want_op("intersect_assign")) { RI E = R::meet(X.ref, Y.ref); ITV z = px; z.intersect_assign(s); Ctx c = ctx("intersect_assign", "scalar_y", X, Y, i, j); judge(c, read_itv(z), E, W_EXACT, 0); }
            if (want_op("difference_assign")) { RI E = R::difference(X.ref, Y.ref); std::vector<Q> V; for (size_t a = 0; a < X.mem.size(); ++a) if (X.mem[a] != Y.ref.lo.v) V.push_back(X.mem[a]);
              ITV z = px; z.difference_assign(s); Ctx c = ctx("difference_assign", "scalar_y", X, Y, i, j); judge2(c, read_itv(z), E, SO ? E : closure(E), &V); }
          }
          break;
        }
      }
    }
  }

  // ----- wrap_assign ------------------------------------------------------------------------------
  void run_wrap_row(size_t i, long long sub_start) {
    if (!want_op("wrap_assign")) return;
    const Op& X = wops[i];
    ITV px; make_itv(px, X);
    // integer members of X
    std::vector<long> ints;
    if (!X.ref.empty) {
      for (long n = -1100; n <= 1100; ++n) if (R::has(X.ref, Q(n))) ints.push_back(n);
      static const long far[] = { -100000, -65536, -32769, 32768, 65535, 65536, 100000 };
      for (size_t k = 0; k < sizeof far / sizeof far[0]; ++k) if (R::has(X.ref, Q(far[k]))) ints.push_back(far[k]);
    }
    for (size_t j = 0; j < wrefs.size(); ++j) {
      const Op& Y = wrefs[j];
      ITV py; make_itv(py, Y);
      for (int rep = 0; rep < 2; ++rep) {
        long long sub = (long long)j * 2 + rep;
        if (!vf::pool().want(sub, sub_start)) continue;
        vf::pool().step(sub);
        vf::count(CNT_WRAP_PAIRS);
        std::vector<Q> V;
        for (size_t k = 0; k < ints.size(); ++k) {
          long n = ints[k];
          long wv = rep == 0 ? ((n % 256) + 256) % 256 : ((((n + 128) % 256) + 256) % 256) - 128;
          Q q(wv);
          if (!R::has(Y.ref, q)) continue;
          bool dup = false; for (size_t m = 0; m < V.size(); ++m) if (V[m] == q) { dup = true; break; }
          if (!dup) V.push_back(q);
        }
        ITV z = px;
        z.wrap_assign(PPL::BITS_8, rep == 0 ? PPL::UNSIGNED : PPL::SIGNED_2_COMPLEMENT, py);
        Ctx c = ctx("wrap_assign", rep == 0 ? "BITS_8,UNSIGNED" : "BITS_8,SIGNED_2_COMPLEMENT", X, Y, i, j); c.mode = 1;
        bool wtrig = !X.ref.empty && !X.ref.lo.inf && !X.ref.hi.inf && X.ref.hi.v - X.ref.lo.v == 256;
        if (wtrig) c.trigger = "wrap_interval_width_exactly_2^w";
        bool wrange = NT<T>::bounded_int && rep == 0 && !NT<T>::repr(Q(255)) && !X.ref.empty;
        if (wrange) c.trigger = "wrap_unsigned_range_not_representable_in_boundary_type";
        Raw got = read_itv(z);
        vf::count(vf::CNT_TRANS);
        bool bad = false;
        if (got.nan) { viol(c, "invariant", "NaN bound", "", "NaN bound"); bad = true; }
        for (size_t m = 0; m < V.size() && !bad; ++m) if (!R::has(got.ri, V[m])) {
          viol(c, "enclosure", got.rawtxt, "contains " + R::qstr(V[m]), "wrapped value of an integer member of the interval lies in the refinement but not in the result"); bad = true;
        }
        if (!bad && !X.ref.empty && !R::subset(got.ri, Y.ref)) { viol(c, "refinement", got.rawtxt, "subset of " + Y.s, "result of wrap_assign is not contained in the refinement interval"); bad = true; }
        if (!bad && X.ref.empty && !got.ri.empty) { viol(c, "emptiness", got.rawtxt, "[]", "wrapping the empty interval gave a non-empty one"); bad = true; }
        if (!got.nan && got.ri.empty != got.ppl_empty) { viol(c, "invariant", got.rawtxt, "consistent", "is_empty() disagrees with the stored bounds"); bad = true; }
        if (bad) vf::count(CNT_FAILCALLS);
        if (wtrig) vf::count(bad ? CNT_WRAPT_FAIL : CNT_WRAPT_PASS);
      }
    }
  }
};

// ------------------------------------------------------------------------------------------------
// alphabets
// ------------------------------------------------------------------------------------------------
template <typename T> static std::vector<T> sorted_unique(std::vector<T> v) {
  std::sort(v.begin(), v.end()); v.erase(std::unique(v.begin(), v.end()), v.end()); return v;
}
// level 0: reduced (quick tier, wide formats), 1: the stated alphabet, 2: thorough
template <typename F> static std::vector<F> fp_alphabet(int level) {
  typedef std::numeric_limits<F> L;
  volatile F tenth = (F)0.1L;
  std::vector<F> v; v.push_back((F)0);
  if (level == 0) {
    F neg[] = { -L::max(), (F)-1, -L::denorm_min() }, pos[] = { (F)tenth, (F)1, L::max() };
    for (int k = 0; k < 3; ++k) { v.push_back(neg[k]); v.push_back(pos[k]); }
    return sorted_unique(v);
  }
  F pos[] = { L::denorm_min(), (F)tenth, (F)0.5, (F)1, (F)2, L::max() };
  for (size_t k = 0; k < sizeof pos / sizeof pos[0]; ++k) { v.push_back(pos[k]); v.push_back(-pos[k]); }
  if (level >= 2) {
    volatile F one = 1, eps = L::epsilon();
    F more[] = { L::min(), (F)(one + eps) };
    for (size_t k = 0; k < sizeof more / sizeof more[0]; ++k) { v.push_back(more[k]); v.push_back(-more[k]); }
  }
  return sorted_unique(v);
}
template <typename T> static std::vector<T> from_ints(const long* a, size_t n) { std::vector<T> v; for (size_t k = 0; k < n; ++k) v.push_back(T(a[k])); return v; }

static std::vector<TypeRunner*> make_runners(bool thorough, const std::string& alpha) {
  using namespace PPL;
  std::vector<TypeRunner*> rs;
  std::vector<std::pair<int, int> > wr;
  wr.push_back(std::make_pair(0, 255)); wr.push_back(std::make_pair(-128, 127)); wr.push_back(std::make_pair(0, 100)); wr.push_back(std::make_pair(100, 255));
  wr.push_back(std::make_pair(INT_MIN, 127)); wr.push_back(std::make_pair(128, INT_MAX)); wr.push_back(std::make_pair(-128, -1)); wr.push_back(std::make_pair(-100, 100));
  static const long wints[] = { -300, -129, -128, -1, 0, 1, 127, 128, 255, 256, 300, 600 };
  static const long stopi[] = { -2, -1, 0, 1, 2 };
  const size_t NW = sizeof wints / sizeof wints[0];
  // Rational_Interval
  {
    std::vector<mpq_class> v;
    static const long num[] = { -2, -1, -1, 0, 1, 1, 2 }, den[] = { 1, 1, 2, 1, 2, 1, 1 };
    for (int k = 0; k < 7; ++k) v.push_back(mpq_class(num[k], den[k]));
    if (thorough) { v.push_back(mpq_class(1, 3)); v.push_back(mpq_class(-1, 3)); v.push_back(mpq_class(3)); v.push_back(mpq_class(-3));
      mpz_class big; mpz_ui_pow_ui(big.get_mpz_t(), 10, 30); v.push_back(mpq_class(big)); v.push_back(mpq_class(-big)); }
    std::vector<mpq_class> w = from_ints<mpq_class>(wints, NW); w.push_back(mpq_class(1, 2)); w.push_back(mpq_class(511, 2));
    rs.push_back(new Runner<Rational_Interval>("Rational_Interval", sorted_unique(v), sorted_unique(w), wr, from_ints<mpq_class>(stopi, 5), alpha));
  }
  // integer-bound box intervals
  {
    static const long zi[] = { -2, -1, 0, 1, 2 }, zt[] = { -7, -3, -2, -1, 0, 1, 2, 3, 7 };
    std::vector<mpz_class> v = thorough ? from_ints<mpz_class>(zt, 9) : from_ints<mpz_class>(zi, 5);
    if (thorough) { mpz_class big; mpz_ui_pow_ui(big.get_mpz_t(), 10, 30); v.push_back(big); v.push_back(-big); }
    rs.push_back(new Runner<Interval<mpz_class, Z_Box_Interval_Info> >("Z_Box_Interval(mpz)", sorted_unique(v), from_ints<mpz_class>(wints, NW), wr, from_ints<mpz_class>(stopi, 5), alpha));
  }
  {
    static const long q8[] = { -128, -2, -1, 0, 1, 2, 127 }, t8[] = { -128, -127, -100, -11, -2, -1, 0, 1, 2, 11, 100, 126, 127 };
    static const long w8[] = { -128, -127, -1, 0, 1, 126, 127 };
    std::vector<std::pair<int, int> > wr8; wr8.push_back(std::make_pair(-128, 127)); wr8.push_back(std::make_pair(0, 100)); wr8.push_back(std::make_pair(-128, -1)); wr8.push_back(std::make_pair(-100, 100));
    rs.push_back(new Runner<Interval<int8_t, Native_Integer_Box_Interval_Info> >("Int8_Box_Interval", thorough ? from_ints<int8_t>(t8, 13) : from_ints<int8_t>(q8, 7),
                 from_ints<int8_t>(w8, 7), wr8, from_ints<int8_t>(stopi, 5), alpha));
  }
  {
    static const long q32[] = { -2147483647L - 1, -2, -1, 0, 1, 2, 2147483647L }, t32[] = { -2147483647L - 1, -2147483647L, -65536, -46341, -2, -1, 0, 1, 2, 46341, 65536, 2147483646L, 2147483647L };
    rs.push_back(new Runner<Interval<int32_t, Native_Integer_Box_Interval_Info> >("Int32_Box_Interval", thorough ? from_ints<int32_t>(t32, 13) : from_ints<int32_t>(q32, 7),
                 from_ints<int32_t>(wints, NW), wr, from_ints<int32_t>(stopi, 5), alpha));
  }
  // floating point box intervals
  {
    std::vector<float> w = from_ints<float>(wints, NW); w.push_back(0.5f); w.push_back(255.5f);
    rs.push_back(new Runner<Interval<float, Floating_Point_Box_Interval_Info> >("Float_Box_Interval", fp_alphabet<float>(thorough ? 2 : 1), sorted_unique(w), wr, from_ints<float>(stopi, 5), alpha));
  }
  {
    std::vector<double> w = from_ints<double>(wints, NW); w.push_back(0.5); w.push_back(255.5);
    rs.push_back(new Runner<Interval<double, Floating_Point_Box_Interval_Info> >("Double_Box_Interval", fp_alphabet<double>(thorough ? 2 : 0), sorted_unique(w), wr, from_ints<double>(stopi, 5), alpha));
  }
  {
    std::vector<long double> w = from_ints<long double>(wints, NW); w.push_back(0.5L); w.push_back(255.5L);
    rs.push_back(new Runner<Interval<long double, Floating_Point_Box_Interval_Info> >("Long_Double_Box_Interval", fp_alphabet<long double>(thorough ? 2 : 0), sorted_unique(w), wr, from_ints<long double>(stopi, 5), alpha));
  }
  return rs;
}

// ------------------------------------------------------------------------------------------------
static long long json_num(const std::string& txt, const std::string& key, long long def) {
  size_t p = txt.find("\"" + key + "\"");
  if (p == std::string::npos) return def;
  p = txt.find(':', p); if (p == std::string::npos) return def;
  return atoll(txt.c_str() + p + 1);
}
static std::string json_str(const std::string& txt, const std::string& key) {
  size_t p = txt.find("\"" + key + "\"");
  if (p == std::string::npos) return "";
  p = txt.find(':', p); p = txt.find('"', p); if (p == std::string::npos) return "";
  size_t e = txt.find('"', p + 1);
  return txt.substr(p + 1, e - p - 1);
}

int main(int argc, char** argv) {
  vf::Args args = vf::parse_args(argc, argv);
  vf::sink().open(args.out);
  g_dump = args.opt("--dump-fail");
  std::string alpha = args.opt("--alphabet", args.thorough() ? "thorough" : "quick");
  std::string only_type = args.opt("--only-type"), only_op = args.opt("--only-op");
  double t0 = vf::now_s();
  std::vector<TypeRunner*> rs = make_runners(alpha == "thorough", alpha);
  if (!only_type.empty()) { std::vector<TypeRunner*> k; for (size_t i = 0; i < rs.size(); ++i) if (rs[i]->name.find(only_type) != std::string::npos) k.push_back(rs[i]); rs = k; }

  if (!args.replay.empty()) {
    std::ifstream f(args.replay.c_str()); std::stringstream ss; ss << f.rdbuf(); std::string txt = ss.str();
    size_t ip = txt.find("\"input\""); std::string in = ip == std::string::npos ? txt : txt.substr(ip);
    std::string ty = json_str(in, "type"); long long i = json_num(in, "i", 0), j = json_num(in, "j", 0), mode = json_num(in, "mode", 0);
    std::string a = json_str(in, "alpha"); if (!a.empty() && a != alpha) { rs = make_runners(a == "thorough", a); }
    g_replay_mode = true;
    for (size_t k = 0; k < rs.size(); ++k) if (rs[k]->name == ty) {
      printf("replay: type=%s mode=%lld x=%s (row %lld) column %lld: re-running every operation on this operand pair\n", ty.c_str(), mode, rs[k]->row_str((int)mode, (size_t)i).c_str(), i, j);
      if (mode == 0) rs[k]->run_row((size_t)i, 0, j); else rs[k]->run_wrap_row((size_t)i, 0);
      printf("replay: %lld implementation calls checked, %lld violations\n", vf::counter(vf::CNT_TRANS), vf::counter(vf::CNT_VIOL));
    }
    return 0;
  }

  // work items: (runner, mode, row)
  struct Item { size_t r; int mode; size_t row; };
  std::vector<Item> items;
  for (size_t k = 0; k < rs.size(); ++k) {
    // set only_op
    for (size_t i = 0; i < rs[k]->rows(); ++i) { Item it = { k, 0, i }; items.push_back(it); }
    for (size_t i = 0; i < rs[k]->wrap_rows(); ++i) { Item it = { k, 1, i }; items.push_back(it); }
  }
  // interleave heavy and light rows: reverse order of types (floats last are the heaviest) is not needed, rows are striped over workers
  if (!only_op.empty()) {
    // runners are templates; set through a tiny virtual-free trick: each Runner has only_op as a public member reachable via dynamic_cast
    #define SETOP(TYPE) if (Runner<TYPE>* p = dynamic_cast<Runner<TYPE>*>(rs[k])) p->only_op = only_op;
    for (size_t k = 0; k < rs.size(); ++k) {
      using namespace PPL;
      SETOP(Rational_Interval)
      typedef Interval<mpz_class, Z_Box_Interval_Info> ZI; SETOP(ZI)
      typedef Interval<int8_t, Native_Integer_Box_Interval_Info> I8; SETOP(I8)
      typedef Interval<int32_t, Native_Integer_Box_Interval_Info> I32; SETOP(I32)
      typedef Interval<float, Floating_Point_Box_Interval_Info> FI; SETOP(FI)
      typedef Interval<double, Floating_Point_Box_Interval_Info> DI; SETOP(DI)
      typedef Interval<long double, Floating_Point_Box_Interval_Info> LI; SETOP(LI)
    }
  }
  std::vector<std::string> descr;
  for (size_t k = 0; k < rs.size(); ++k) { descr.push_back(vf::jstr(rs[k]->describe())); fprintf(stderr, "[c12_interval] %s\n", rs[k]->describe().c_str()); }

  vf::pool().run((long long)items.size(), args.jobs,
    [&](long long item, long long sub_start) {
      const Item& it = items[(size_t)item];
      if (it.mode == 0) rs[it.r]->run_row(it.row, sub_start, -1); else rs[it.r]->run_wrap_row(it.row, sub_start);
    },
    [&](long long item, long long sub, int sig, bool confirmed) {
      if (!confirmed) return;
      const Item& it = items[(size_t)item];
      std::string what = it.mode == 0 ? std::string("pair-ops/") + group_name((int)(sub % G_N)) : "wrap_assign";
      vf::J in; in.str("type", rs[it.r]->name).str("op", what).str("x", rs[it.r]->row_str(it.mode, it.row)).num("i", (long long)it.row)
        .num("j", it.mode == 0 ? sub / G_N : sub / 2).num("mode", it.mode).str("alpha", alpha);
      vf::report_violation(rs[it.r]->name + "::" + what, std::string("crash:") + vf::signame(sig), "none", in.done(), vf::signame(sig), "no crash", "implementation crashed or hung on this operand pair");
    }, args, 60);

  long long pairs = vf::counter(CNT_PAIRS) + vf::counter(CNT_WRAP_PAIRS);
  bool exhaustive = vf::counter(vf::CNT_SKIPPED) == 0 && vf::counter(vf::CNT_REFCRASH) == 0 && only_type.empty() && only_op.empty();
  vf::J extra;
  extra.arr("types", descr);
  extra.num("interval_pairs", vf::counter(CNT_PAIRS)).num("wrap_triples", vf::counter(CNT_WRAP_PAIRS))
       .num("calls_checked_for_exactness", vf::counter(CNT_CALLS_EXACT)).num("failing_calls", vf::counter(CNT_FAILCALLS))
       .num("violation_records_total", vf::counter(vf::CNT_VIOL))
       .num("mul_pairs_failing_with_trigger", vf::counter(CNT_MULTRIG_FAIL)).num("mul_pairs_passing_with_trigger", vf::counter(CNT_MULTRIG_PASS))
       .num("mul_pairs_failing_without_trigger", vf::counter(CNT_MUL_FAIL_NOTRIG))
       .num("refine_universal_unbounded_trigger_fail", vf::counter(CNT_RUT_FAIL)).num("refine_universal_unbounded_trigger_pass", vf::counter(CNT_RUT_PASS))
       .num("refine_universal_NE_trigger_fail", vf::counter(CNT_RUNE_FAIL)).num("refine_universal_NE_trigger_pass", vf::counter(CNT_RUNE_PASS))
       .num("difference_3op_trigger_fail", vf::counter(CNT_D3_FAIL)).num("difference_3op_trigger_pass", vf::counter(CNT_D3_PASS))
       .num("native_int_div_trigger_fail", vf::counter(CNT_IDIV_FAIL)).num("native_int_div_trigger_pass", vf::counter(CNT_IDIV_PASS))
       .num("wrap_width_trigger_fail", vf::counter(CNT_WRAPT_FAIL)).num("wrap_width_trigger_pass", vf::counter(CNT_WRAPT_PASS))
       .num("div_pairs_divisor_straddles_zero_enclosure_only", vf::counter(CNT_DIV_STRADDLE))
       .num("oracle_self_check_failures", vf::counter(CNT_ORACLE_SELF)).num("rows_skipped_deadline", vf::counter(vf::CNT_SKIPPED));
  std::vector<std::string> samples;
  samples.push_back(vf::jstr("Rational_Interval: [-2,1] * (-inf,1] vs exact (-inf,+inf)"));
  samples.push_back(vf::jstr("Float_Box_Interval: (0,denorm_min] / [max,max] must contain denorm_min/max"));
  samples.push_back(vf::jstr("Int8_Box_Interval: [127,127] + [1,2] must be unbounded above"));
  vf::J st; st.str("t", "stats").num("states", pairs > 0 ? pairs : 1).num("transitions", vf::counter(vf::CNT_TRANS) > 0 ? vf::counter(vf::CNT_TRANS) : 1)
    .num("traces_validated_against_impl", vf::counter(vf::CNT_TRANS)).boolean("exhaustive", exhaustive)
    .str("bound", std::string("all pairs of intervals over the '") + alpha + "' bound alphabet x open/closed (where stored) x {empty, universe, singleton}; 7 interval types "
         "(Rational_Interval, Z_Box mpz, Int8/Int32 box, Float/Double/Long_Double box). Bounds: rationals -inf,-2,-1,-1/2,0,1/2,1,2,+inf (thorough: +-1/3,+-3,+-1e30); "
         "mpz -2..2 (thorough -7,-3..3,7,+-1e30); native ints: min,-2..2,max (thorough 13 values incl. overflow thresholds); float: 0,+-denorm_min,+-0.1,+-1/2,+-1,+-2,+-max "
         "(thorough also +-min_normal,+-(1+eps)); double/long double: the same 13/17 values in the thorough tier, in the quick tier -max,-1,-denorm_min,0,0.1,1,max. "
         "Operations: neg add sub mul div (fresh/aliased/operator/scalar variants) join intersect difference (2- and 3-operand) refine_existential/universal x 6 relations "
         "(interval and scalar), CC76 widening with stop points -2..2, contains/strictly_contains/is_disjoint_from/==, assign, queries; wrap_assign BITS_8 signed/unsigned over "
         "bounds -inf,-300,-129,-128,-1,0,1/2,1,127,128,255,255.5,256,300,600,+inf x 10 refinement intervals")
    .arr("samples", samples).raw("extra", extra.done()).dbl("wall_s", vf::now_s() - t0);
  vf::sink().line(st.done());
  if (vf::counter(CNT_ORACLE_SELF) > 0) return 0;   // error records already emitted
  return 0;
}

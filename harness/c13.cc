// C13: objects are values -- copies are independent, const arguments are not modified, aliased
// arguments (x.op(x)) behave like equal copies, self-assignment and self-swap are harmless.
//
// Model checking by history replay over a POOL of three objects of one class.  Pool operations:
// every mutator/observer on every slot, every binary operation with every (receiver, argument)
// assignment of slots INCLUDING aliased ones, copy-assignment a = b (incl. a = a), copy
// construction, swap(a, b) (incl. swap(a, a)).  Reference model: for every slot a *recipe* (the
// pure operation history that defines its value, with operand recipes nested); the expected
// object is rebuilt from the recipe on fresh objects using mutators only -- no copy constructor,
// no assignment, no swap, no sharing, no aliasing.  After every pool operation every slot must
// be semantically equal to its rebuilt recipe, pass OK(), and the operation's return value must
// equal the one obtained on rebuilt, non-aliased operands.
#include "engine/classes.hh"
#if VF_GROUP >= 7
#include "engine/classes_c13x.hh"      // needs -fno-access-control (a few internal entry points)
#endif
using namespace vf;

static Args ARGS;
static long long TOTAL_STATES = 0, TOTAL_TRANS = 0;
static std::vector<std::string> SAMPLES, PER_CLASS;
static bool ALL_COMPLETE = true;
static int CLASSES_LEFT = 0; static double FULL_DEADLINE = 0; static std::string ONLY;     // --only <substring of a class name> (triage aid)
static const char* PROFILE = getenv("VERIF_C13_PROFILE");     // development aid: per-transition times appended to <value>.<pid>

enum Kind { K_MUT = 0, K_ASSIGN = 1, K_COPYCTOR = 2, K_SWAP = 3 };
struct POp { int kind, a, b, m; };
typedef std::vector<POp> PHist;

static std::string pkey(const PHist& h) { std::string s; for (size_t i = 0; i < h.size(); ++i) { char b[64]; snprintf(b, sizeof b, "%d.%d.%d.%d,", h[i].kind, h[i].a, h[i].b, h[i].m); s += b; } return s; }
static PHist pparse(const std::string& k) { PHist h; std::istringstream is(k); std::string t; while (std::getline(is, t, ',')) { if (t.empty()) continue; POp o; sscanf(t.c_str(), "%d.%d.%d.%d", &o.kind, &o.a, &o.b, &o.m); h.push_back(o); } return h; }

// Twin table (groups 7..): an operation whose name carries the tag "[alias]" (two argument positions bound to
// ONE object, or an argument that is a reference into the receiver's own storage) or "[recycle]" (a donor
// system handed to an add_recycled_* / Recycle_Input entry point and then reassigned / destroyed) has a twin of
// the same name tagged "[copy]" that performs the call on equal, separately built copies / through the
// non-recycling entry point.  The reference side (rebuilt recipes, expected return value) always executes the
// twin; twins themselves are not pool operations.
static std::vector<int> TWIN;
static bool has_tag(const std::string& n, const char* t) { return n.find(t) != std::string::npos; }
template <class T> static void compute_twins(const ClassAdapter<T>& A) {
  TWIN.assign(A.muts.size(), 0);
  for (size_t i = 0; i < A.muts.size(); ++i) {
    TWIN[i] = (int)i;
    const std::string& n = A.muts[i].name;
    const char* tags[2] = {"[alias]", "[recycle]"};
    for (int t = 0; t < 2; ++t) {
      size_t p = n.find(tags[t]); if (p == std::string::npos) continue;
      std::string tw = n.substr(0, p) + "[copy]" + n.substr(p + strlen(tags[t]));
      int found = -1; for (size_t j = 0; j < A.muts.size(); ++j) if (A.muts[j].name == tw) found = (int)j;
      if (found < 0) { fprintf(stderr, "[c13] %s: operation '%s' has no twin '%s'\n", A.name.c_str(), n.c_str(), tw.c_str()); abort(); }
      TWIN[i] = found;
    }
  }
}
template <class T> static const Mut<T>& twin_of(const ClassAdapter<T>& A, int m) { return A.muts[(size_t)m < TWIN.size() ? TWIN[m] : m]; }

template <class T> struct RecipeNode;
template <class T> struct Recipe { std::shared_ptr<const RecipeNode<T> > p; };
template <class T> struct RecipeNode { int initial; std::vector<std::pair<int, Recipe<T> > > steps; };

template <class T>
static std::string call_mut(const Mut<T>& m, T& obj, const T* arg) {
  try { return m.f(obj, arg); }
  catch (const std::invalid_argument&) { return "exception:invalid_argument"; }
  catch (const std::domain_error&) { return "exception:domain_error"; }
  catch (const std::length_error&) { return "exception:length_error"; }
  catch (const std::logic_error&) { return "exception:logic_error"; }
  catch (const std::overflow_error&) { return "exception:overflow_error"; }
  catch (const std::runtime_error&) { return "exception:runtime_error"; }
  catch (const std::exception& e) { return std::string("exception:") + e.what(); }
}

template <class T>
static T* rbuild(const ClassAdapter<T>& A, const Recipe<T>& r) {
  T* o = A.initials[r.p->initial].second();
  for (size_t i = 0; i < r.p->steps.size(); ++i) {
    const Mut<T>& m = twin_of(A, r.p->steps[i].first);
    std::unique_ptr<T> arg;
    if (m.binary) arg.reset(rbuild(A, r.p->steps[i].second));
    call_mut(m, *o, arg.get());
  }
  return o;
}

template <class T>
struct PoolState {
  std::unique_ptr<T> slot[3];
  Recipe<T> rec[3];
};

template <class T> static void do_swap(T& x, T& y) { using std::swap; swap(x, y); }

// apply one pool operation to the real pool and to the recipes; returns the real return value
template <class T>
static std::string papply(const ClassAdapter<T>& A, PoolState<T>& P, const POp& o, Recipe<T>* rec_before_a = 0, Recipe<T>* rec_before_b = 0) {
  if (rec_before_a) *rec_before_a = P.rec[o.a];
  if (rec_before_b && o.b >= 0) *rec_before_b = P.rec[o.b];
  switch (o.kind) {
  case K_MUT: {
    const Mut<T>& m = A.muts[o.m];
    const T* arg = m.binary ? P.slot[o.b].get() : 0;
    std::string r = call_mut(m, *P.slot[o.a], arg);
    RecipeNode<T>* n = new RecipeNode<T>(*P.rec[o.a].p);
    Recipe<T> opnd; if (m.binary) opnd = (o.a == o.b && rec_before_a) ? *rec_before_a : P.rec[o.b];
    n->steps.push_back(std::make_pair(o.m, opnd));
    P.rec[o.a].p.reset(n);
    return r; }
  case K_ASSIGN: *P.slot[o.a] = *P.slot[o.b]; P.rec[o.a] = P.rec[o.b]; return "";
  case K_COPYCTOR: { T* n = new T(*P.slot[o.b]); P.slot[o.a].reset(n); P.rec[o.a] = P.rec[o.b]; return ""; }
  case K_SWAP: do_swap(*P.slot[o.a], *P.slot[o.b]); std::swap(P.rec[o.a], P.rec[o.b]); return "";
  }
  return "";
}

template <class T>
static void pinit(const ClassAdapter<T>& A, PoolState<T>& P, const int init[3]) {
  for (int i = 0; i < 3; ++i) {
    P.slot[i].reset(A.initials[init[i]].second());
    RecipeNode<T>* n = new RecipeNode<T>(); n->initial = init[i];
    P.rec[i].p.reset(n);
  }
}

template <class T>
static std::string pool_dump(const ClassAdapter<T>& A, const PoolState<T>& P) {
  std::string s;
  for (int i = 0; i < 3; ++i) { s += A.dump(*P.slot[i]); s += "\n#####\n"; }
  return s;
}

template <class T>
static std::string op_text(const ClassAdapter<T>& A, const POp& o) {
  char b[32];
  switch (o.kind) {
  case K_MUT: { std::string s = "s" + std::to_string(o.a) + "." + A.muts[o.m].name; if (A.muts[o.m].binary) s += "(s" + std::to_string(o.b) + ")"; return s; }
  case K_ASSIGN: snprintf(b, sizeof b, "s%d = s%d", o.a, o.b); return b;
  case K_COPYCTOR: snprintf(b, sizeof b, "s%d := new T(s%d)", o.a, o.b); return b;
  case K_SWAP: snprintf(b, sizeof b, "swap(s%d, s%d)", o.a, o.b); return b;
  }
  return "?";
}
template <class T>
static std::string phist_text(const ClassAdapter<T>& A, const int init[3], const PHist& h) {
  std::string s = "[" + jstr("s0=" + A.initials[init[0]].first + "; s1=" + A.initials[init[1]].first + "; s2=" + A.initials[init[2]].first);
  for (size_t i = 0; i < h.size(); ++i) s += "," + jstr(op_text(A, h[i]));
  return s + "]";
}

template <class T>
static std::vector<POp> all_ops(const ClassAdapter<T>& A) {
  std::vector<POp> ops;
  for (size_t m = 0; m < A.muts.size(); ++m) {
    if (has_tag(A.muts[m].name, "[copy]")) continue;       // reference-side twin only
    if (A.muts[m].binary) { for (int a = 0; a < 3; ++a) for (int b = 0; b < 3; ++b) { POp o = {K_MUT, a, b, (int)m}; ops.push_back(o); } }
    else for (int a = 0; a < 3; ++a) { POp o = {K_MUT, a, -1, (int)m}; ops.push_back(o); }
  }
  for (int a = 0; a < 3; ++a) for (int b = 0; b < 3; ++b) {
    POp as = {K_ASSIGN, a, b, -1}; ops.push_back(as);
    if (a != b) { POp cc = {K_COPYCTOR, a, b, -1}; ops.push_back(cc); }
    if (a <= b) { POp sw = {K_SWAP, a, b, -1}; ops.push_back(sw); }
  }
  return ops;
}

// adapters of groups 7.. that add operations to a class explored by groups 1-6 are named "<class> (<what>)":
// the finding site keeps the plain class name
template <class T> static std::string site_of(const ClassAdapter<T>& A, const POp& o) {
  return A.name.substr(0, A.name.find(" (")) + "::" + (o.kind == K_MUT ? A.muts[o.m].name.substr(0, A.muts[o.m].name.find('(')) : o.kind == K_ASSIGN ? "operator=" : o.kind == K_COPYCTOR ? "copy-constructor" : "swap");
}
template <class T> static bool is_aliased(const ClassAdapter<T>& A, const POp& o) {
  return (o.kind == K_MUT && ((A.muts[o.m].binary && o.a == o.b) || has_tag(A.muts[o.m].name, "[alias]"))) || ((o.kind == K_ASSIGN || o.kind == K_SWAP) && o.a == o.b);
}
template <class T> static std::string trigger_of(const ClassAdapter<T>& A, const POp& o) {
  if (is_aliased(A, o)) return "aliased";
  if (o.kind == K_MUT && has_tag(A.muts[o.m].name, "[recycle]")) return "recycled";
  return "none";
}

// the oracle for one transition (pool already replayed to the pre-state)
template <class T>
static void check_transition(const ClassAdapter<T>& A, PoolState<T>& P, const POp& o, const std::string& inj) {
  // a slot that the operation neither mutates nor takes as receiver and whose full representation (dump) is
  // unchanged cannot have changed its value or validity: it was checked when the pre-state was reached
  std::string pre[3];
  for (int i = 0; i < 3; ++i) pre[i] = A.dump(*P.slot[i]);
  Recipe<T> ra, rb;
  std::string ret = papply(A, P, o, &ra, &rb);
  count(CNT_TRANS);
  std::string opn = op_text(A, o);
  std::string site = site_of(A, o);
  bool aliased = is_aliased(A, o);
  std::string trig = trigger_of(A, o);
  // return value on rebuilt, non-aliased operands (the twin operation for [alias] / [recycle] operations);
  // afterwards `sa' is exactly the object rebuilt from the receiver's new recipe
  std::unique_ptr<T> sa;
  if (o.kind == K_MUT) {
    sa.reset(rbuild(A, ra));
    std::unique_ptr<T> sb; if (A.muts[o.m].binary) sb.reset(rbuild(A, rb));
    std::string want = call_mut(twin_of(A, o.m), *sa, sb.get());
    // descriptions (constraint/generator lists...) legitimately depend on the representation: only
    // compare atomic answers (Booleans, numbers, exception classes)
    // ABSOLUTE oracle: an operation that found an inconsistent temporary by itself returns "INVARIANT:<clause>|<what>";
    // this is reported whatever the rebuilt twin (which goes through the same library code) says
    if (ret.compare(0, 10, "INVARIANT:") == 0) {
      size_t bar = ret.find('|'); std::string cl = ret.substr(10, bar == std::string::npos ? std::string::npos : bar - 10);
      if (violcap().admit(A.name + "|marker|" + A.muts[o.m].name + cl))
        report_violation(site, cl, trig, inj, ret.substr(bar == std::string::npos ? 10 : bar + 1, 400), "no inconsistent temporary");
    }
    bool atomic = ret.find(' ') == std::string::npos && want.find(' ') == std::string::npos && ret.find(',') == std::string::npos && want.find(',') == std::string::npos;
    // a precondition exception that is raised in one lazy state and not in another (Grid::add_constraint with an
    // inequality throws unless the grid is already MARKED empty) is not a value-semantics matter: the receiver was
    // not passed through the same const operations as its rebuilt twin.  The values are still compared below.
    bool precond_only = !aliased && ((ret == "exception:invalid_argument") != (want == "exception:invalid_argument"));
    if (precond_only) count(CNT_USER + 2);
    if (atomic && !precond_only && want != ret && violcap().admit(A.name + "|ret|" + A.muts[o.m].name + trig))
      report_violation(site, aliased ? "alias:return!=copy" : "value:return!=rebuilt", trig, inj, ret.substr(0, 300), want.substr(0, 300));
  }
  for (int i = 0; i < 3; ++i) {
    bool mutated = (i == o.a) || (o.kind == K_SWAP && i == o.b);
    if (!mutated && A.dump(*P.slot[i]) == pre[i]) { count(CNT_CHECKS); continue; }
    std::unique_ptr<T> sh_own; T* sh;
    if (o.kind == K_MUT && i == o.a) sh = sa.get(); else { sh_own.reset(rbuild(A, P.rec[i])); sh = sh_own.get(); }
    // identical full representations: same value, same validity (the rebuilt object is made by the plain operations)
    if (A.dump(*P.slot[i]) == A.dump(*sh)) { count(CNT_CHECKS); continue; }
    bool okk = false; try { okk = A.ok(*P.slot[i]); } catch (...) {}
    bool ok_sh = false; if (!okk) { try { ok_sh = A.ok(*sh); } catch (...) {} }     // only needed to excuse an invalid slot
    // an operation that exits with a precondition exception may leave flags set by an earlier const operation in
    // place (a product marked reduced by contains(), then add_constraint with an inequality its Grid component
    // rejects): the state of an object after an exceptional exit is C14's subject, not a value-semantics matter
    if (!okk && ok_sh && !aliased && o.kind == K_MUT && i == o.a && ret.compare(0, 10, "exception:") == 0) { count(CNT_USER + 3); continue; }
    if (!okk && ok_sh) { if (violcap().admit(A.name + "|ok|" + site + trig)) report_violation(site, "invariant:OK()-of-slot", trig, inj, "slot " + std::to_string(i) + " OK() false", "OK() true"); continue; }
    bool eq = false; try { eq = A.equal(*P.slot[i], *sh); } catch (...) {}
    count(CNT_CHECKS);
#if VF_GROUP >= 7
    if (!x13::eq_alarm().empty()) {      // ABSOLUTE oracle: == / != must agree with mutual containment (groups 7-11, simple domains)
      if (violcap().admit(A.name + "|eqalarm|" + site + trig))
        report_violation(site, "equality:disagrees-with-mutual-containment", trig, inj, ("slot " + std::to_string(i) + " vs its rebuilt twin: " + x13::eq_alarm()).substr(0, 400), "operator== <=> mutual containment");
      x13::eq_alarm().clear();
    }
#endif
    if (!eq) {
      std::string clause = mutated ? (aliased ? "alias:result!=copy" : "value:result!=rebuilt") : (o.kind == K_MUT && i == o.b ? "const-arg-changed" : "copy-independence:other-slot-changed");
      if (violcap().admit(A.name + "|" + clause + "|" + site + trig))
        report_violation(site, clause, trig, inj, ("slot " + std::to_string(i) + ": " + A.print(*P.slot[i])).substr(0, 400), A.print(*sh).substr(0, 400));
    }
  }
}

// ---- replay (bin/vcheck replay): VERIF_REPLAY_TXT holds K class= and H <pool history entries>
static std::map<std::string, std::string> RK; static std::vector<std::string> RH; static bool REPLAY = false; static int REPLAY_RC = 2;
static void load_replay() {
  const char* f = getenv("VERIF_REPLAY_TXT"); if (!f) return;
  std::ifstream in(f); std::string line;
  while (std::getline(in, line)) {
    if (line.size() < 3) continue;
    if (line[0] == 'K') { size_t e = line.find('='); RK[line.substr(2, e - 2)] = line.substr(e + 1); }
    else if (line[0] == 'H') RH.push_back(line.substr(2));
  }
}
template <class T>
static void replay_class(const ClassAdapter<T>& A, const int init[3]) {
  if (RK["class"] != A.name || RH.empty()) return;
  std::vector<POp> ops = all_ops(A);
  PoolState<T> P; pinit(A, P, init);
  printf("class %s\npool: %s\n", A.name.c_str(), RH[0].c_str());
  bool bad = false;
  for (size_t i = 1; i < RH.size(); ++i) {
    int found = -1;
    for (size_t oi = 0; oi < ops.size(); ++oi) if (op_text(A, ops[oi]) == RH[i]) { found = (int)oi; break; }
    if (found < 0) { fprintf(stderr, "replay: unknown pool operation '%s'\n", RH[i].c_str()); return; }
    Recipe<T> ra, rb;
    std::string ret = papply(A, P, ops[found], &ra, &rb);
    printf("step %zu: %s  -> returned '%s'\n", i, RH[i].c_str(), ret.substr(0, 200).c_str());
    for (int k = 0; k < 3; ++k) {
      std::unique_ptr<T> sh(rbuild(A, P.rec[k]));
      bool eq = false; try { eq = A.equal(*P.slot[k], *sh); } catch (...) {}
      bool okk = false; try { okk = A.ok(*P.slot[k]); } catch (...) {}
      printf("   slot %d: %s | rebuilt from its recipe: %s | %s OK()=%d\n", k, A.print(*P.slot[k]).substr(0, 160).c_str(), A.print(*sh).substr(0, 160).c_str(), eq ? "equal" : "DIFFERENT", (int)okk);
      if (i + 1 == RH.size() && (!eq || !okk)) bad = true;
    }
  }
  REPLAY_RC = bad ? 1 : 0;
}

template <class T>
static void run_class(const ClassAdapter<T>& A, int depth, const int init[3]) {
  compute_twins(A);
  if (REPLAY) { replay_class(A, init); return; }
  if (!ONLY.empty() && A.name.find(ONLY) == std::string::npos) { if (CLASSES_LEFT > 0) --CLASSES_LEFT; return; }
  // fair share of the run's time budget: what is left is divided among the classes still to be explored
  // (thorough tier only, where the budget never suffices; the quick tier is sized to complete)
  if (CLASSES_LEFT > 0) { double used = now_s() - ARGS.t0; if (ARGS.thorough()) ARGS.deadline = used + (FULL_DEADLINE - used) / CLASSES_LEFT; --CLASSES_LEFT; }
  double t0 = now_s();
  std::vector<POp> ops = all_ops(A);
  // ---- BFS over pool histories to depth-1 in a restartable child
  std::string tmp = ARGS.out + "." + std::to_string(getpid()) + ".c13bfs";
  std::set<std::string> skip;
  std::map<std::string, int> op_crashes; std::set<std::string> op_blacklist;   // an operation crashing in 2 states is not retried elsewhere
  auto opkey = [](const POp& o) { char b[64]; snprintf(b, sizeof b, "%d.%d.%d.%d", o.kind, o.a, o.b, o.m); return std::string(b); };
  struct Prog { volatile long long trans; volatile int done; };
  Prog* pg = (Prog*)mmap(0, sizeof(Prog), PROT_READ | PROT_WRITE, MAP_SHARED | MAP_ANONYMOUS, -1, 0);
  long long crashes_in_bfs = 0;
  for (int attempt = 0; attempt < 300; ++attempt) {
    memset((void*)pg, 0, sizeof(Prog));
    fflush(stdout); fflush(stderr);
    pid_t pid = fork();
    if (pid == 0) {
      std::vector<PHist> states; std::unordered_set<std::string> seen;
      { PoolState<T> P; pinit(A, P, init); seen.insert(pool_dump(A, P)); states.push_back(PHist()); }
      size_t begin = 0;
      for (int d = 1; d <= depth - 1; ++d) {
        size_t end = states.size();
        for (size_t s = begin; s < end; ++s) {
          for (size_t oi = 0; oi < ops.size(); ++oi) {
            PHist h = states[s]; h.push_back(ops[oi]);
            std::string k = pkey(h);
            if (skip.count(k) || op_blacklist.count(opkey(ops[oi]))) continue;
            { FILE* c = fopen((tmp + ".cur").c_str(), "w"); fwrite(k.data(), 1, k.size(), c); fclose(c); }
            alarm(30);
            PoolState<T> P; pinit(A, P, init);
            for (size_t i = 0; i < h.size(); ++i) papply(A, P, h[i]);
            alarm(0);
            pg->trans++;
            if (seen.insert(pool_dump(A, P)).second) states.push_back(h);
          }
          if (ARGS.expired()) break;
        }
        begin = end;
        if (ARGS.expired()) break;
      }
      FILE* f = fopen(tmp.c_str(), "w");
      for (size_t i = 0; i < states.size(); ++i) { std::string k = pkey(states[i]) + "\n"; fwrite(k.data(), 1, k.size(), f); }
      fclose(f);
      pg->done = 1;
      _exit(0);
    }
    int st; waitpid(pid, &st, 0);
    if (WIFEXITED(st) && WEXITSTATUS(st) == 0 && pg->done) break;
    std::ifstream c((tmp + ".cur").c_str()); std::string k; std::getline(c, k);
    skip.insert(k); ++crashes_in_bfs;
    {
      PHist full = pparse(k);
      if (!full.empty()) {
        const POp& o = full.back();
        if (++op_crashes[opkey(o)] >= 2) op_blacklist.insert(opkey(o));
        fprintf(stderr, "[c13] bfs: %s died (status %d) at %s\n", A.name.c_str(), st, phist_text(A, init, full).c_str());
        bool aliased = is_aliased(A, o);
        if (aliased || o.kind != K_MUT || trigger_of(A, o) != "none") {
          int sig = WIFSIGNALED(st) ? WTERMSIG(st) : 1000 + WEXITSTATUS(st);
          std::string site = site_of(A, o);
          if (violcap().admit(A.name + "|bfscrash|" + site))
            report_violation(site, std::string("crash:") + signame(sig), trigger_of(A, o),
                             J().str("class", A.name).raw("history", phist_text(A, init, full)).done(), signame(sig), "normal return");
        }
      }
    }
  }
  long long bfs_trans = pg->trans;
  std::vector<PHist> states;
  { std::ifstream in(tmp.c_str()); std::string line; while (std::getline(in, line)) states.push_back(pparse(line)); }
  if (states.empty()) states.push_back(PHist());
  unlink(tmp.c_str()); unlink((tmp + ".cur").c_str());
  fprintf(stderr, "[c13] %s: %zu pool states (depth %d), %zu pool ops, %lld bfs transitions, %.1fs\n", A.name.c_str(), states.size(), depth - 1, ops.size(), bfs_trans, now_s() - t0);
  long long before = counter(CNT_TRANS), skipped_before = counter(CNT_SKIPPED);
  Pool::Fn fn = [&](long long item, long long sub_start) {
    const PHist& h = states[item];
    {
      // a state whose slots already deviate from their recipes was reported when the deviation
      // arose (one level up); exploring below it would only repeat that finding
      PoolState<T> P; pinit(A, P, init);
      for (size_t i = 0; i < h.size(); ++i) papply(A, P, h[i]);
      bool consistent = true;
      for (int i = 0; i < 3 && consistent; ++i) { std::unique_ptr<T> sh(rbuild(A, P.rec[i])); bool eq = false; try { eq = A.equal(*P.slot[i], *sh); } catch (...) {} consistent = eq; }
      if (!consistent) { count(CNT_USER + 1); count(CNT_STATES); return; }
    }
    for (size_t oi = 0; oi < ops.size(); ++oi) {
      if (!pool().want((long long)oi, sub_start)) continue;
      if (op_blacklist.count(opkey(ops[oi]))) continue;      // already reported (crashes everywhere)
      pool().step((long long)oi);
      PoolState<T> P; pinit(A, P, init);
      for (size_t i = 0; i < h.size(); ++i) papply(A, P, h[i]);
      PHist full = h; full.push_back(ops[oi]);
      double tp0 = PROFILE ? now_s() : 0;
      check_transition(A, P, ops[oi], J().str("class", A.name).raw("history", phist_text(A, init, full)).done());
      if (PROFILE) { FILE* pf = fopen((std::string(PROFILE) + "." + std::to_string(getpid())).c_str(), "a"); if (pf) { fprintf(pf, "%.0f\t%s\t%s\n", (now_s() - tp0) * 1e6, A.name.c_str(), ops[oi].kind == K_MUT ? A.muts[ops[oi].m].name.c_str() : "copy/assign/swap"); fclose(pf); } }
    }
    count(CNT_STATES);
  };
  Pool::CrashFn cf = [&](long long item, long long sub, int sig, bool confirmed) {
    if (!confirmed || sub < 0) { if (confirmed) count(CNT_USER); return; }
    const POp& o = ops[sub];
    bool aliased = is_aliased(A, o);
    PHist full = states[item]; full.push_back(o);
    // a crash of a non-aliased plain operation is another property's business unless copies are involved;
    // it is reported here only for aliased calls and for copy/assign/swap
    if (!aliased && o.kind == K_MUT && trigger_of(A, o) == "none") { count(CNT_USER); return; }
    std::string site = site_of(A, o);
    report_violation(site, std::string("crash:") + signame(sig), trigger_of(A, o),
                     J().str("class", A.name).raw("history", phist_text(A, init, full)).done(), signame(sig), "normal return");
  };
  pool().run((long long)states.size(), ARGS.jobs, fn, cf, ARGS, 60);
  long long tr = counter(CNT_TRANS) - before + bfs_trans;
  bool complete = counter(CNT_SKIPPED) == skipped_before && !ARGS.expired();
  if (!complete) ALL_COMPLETE = false;
  TOTAL_STATES += (long long)states.size(); TOTAL_TRANS += tr;
  SAMPLES.push_back(J().str("class", A.name).raw("history", phist_text(A, init, states[states.size() / 2])).done());
  PER_CLASS.push_back(J().str("class", A.name).num("pool_states", states.size()).num("pool_ops", ops.size()).num("transitions", tr)
                      .num("histories_crashing_in_bfs_skipped", crashes_in_bfs).boolean("complete", complete).dbl("wall_s", now_s() - t0).done());
  munmap((void*)pg, sizeof(Prog));
}

int main(int argc, char** argv) {
  ARGS = parse_args(argc, argv);
  sink().open(ARGS.out);
  int depth = atoi(ARGS.opt("--depth", ARGS.thorough() ? "3" : "2").c_str());
  double t0 = now_s();
  limit_memory(8ULL << 30);
  if (!ARGS.replay.empty()) { REPLAY = true; load_replay(); }
  FULL_DEADLINE = ARGS.deadline; ONLY = ARGS.opt("--only", "");
  { const int per_group[13] = {0, 1, 1, 2, 2, 2, 7, 2, 4, 4, 4, 4, 19}; CLASSES_LEFT = per_group[VF_GROUP]; }
  const int i123[3] = {1, 2, 0};     // triangle, strip, universe
  const int deeper = ARGS.thorough() ? 1 : 0;   // cheap classes go one level deeper in the thorough tier
#if VF_GROUP == 1
  run_class(polyhedron_adapter<PPL::C_Polyhedron>("C_Polyhedron"), depth, i123);
#elif VF_GROUP == 2
  run_class(polyhedron_adapter<PPL::NNC_Polyhedron>("NNC_Polyhedron"), depth, i123);
#elif VF_GROUP == 3
  { const int ig[3] = {5, 6, 1}; run_class(grid_adapter(), depth, ig); }
  run_class(domain_adapter<PPL::Rational_Box>("Rational_Box"), depth, i123);
#elif VF_GROUP == 4
  run_class(domain_adapter<PPL::BD_Shape<mpq_class> >("BD_Shape<mpq_class>"), depth, i123);
  run_class(domain_adapter<PPL::Octagonal_Shape<mpq_class> >("Octagonal_Shape<mpq_class>"), depth, i123);
#elif VF_GROUP == 5
  { const int ip[3] = {5, 1, 2};
    ClassAdapter<PPL::Pointset_Powerset<PPL::C_Polyhedron> > PA = powerset_adapter<PPL::C_Polyhedron>("Pointset_Powerset<C_Polyhedron>");
    // answers that are documented to depend on the SEQUENCE of disjuncts (size, first disjunct, syntactic contains /
    // entailment) change when a const operation omega-reduces its argument: not value functions, dropped here (C15
    // keeps them); group 9 does the same
    { std::vector<Mut<PPL::Pointset_Powerset<PPL::C_Polyhedron> > > k;
      for (size_t i = 0; i < PA.muts.size(); ++i) { const std::string& n = PA.muts[i].name;
        if (n == "size()" || n == "drop_first_disjunct" || n == "contains" || n == "strictly_contains" || n == "definitely_entails" || n == "add_first_disjunct_of_arg") continue;
        k.push_back(PA.muts[i]); }
      PA.muts.swap(k); }
    run_class(PA, depth, ip); }
  run_class(product_adapter<PPL::Domain_Product<PPL::C_Polyhedron, PPL::Grid>::Constraints_Product>("Constraints_Product<C_Polyhedron,Grid>"), depth, i123);
#elif VF_GROUP == 6
  { const int il[3] = {1, 2, 3};
    run_class(linexpr_adapter(PPL::DENSE, "Linear_Expression<DENSE>"), depth + deeper, il);
    run_class(linexpr_adapter(PPL::SPARSE, "Linear_Expression<SPARSE>"), depth + deeper, il); }
  { const int is[3] = {1, 2, 0};
    run_class(consys_adapter(), depth + deeper, is);
    run_class(gensys_adapter(), depth + deeper, is);
    run_class(cgsys_adapter(), depth + deeper, is);
    run_class(mip_adapter(), depth, is);
    run_class(pip_adapter(), depth, is); }
#elif VF_GROUP == 7
  { const int ix[3] = {9, 10, 1};     // square (both minimized, sorted by ==) + pending vertex that sorts first; pentagon (sorted by ==) + pending constraint; triangle
    run_class(x13::domain_alias_adapter<PPL::C_Polyhedron>("C_Polyhedron (aliased arguments, recycling)"), depth, ix);
    run_class(x13::domain_alias_adapter<PPL::NNC_Polyhedron>("NNC_Polyhedron (aliased arguments, recycling)"), depth, ix); }
#elif VF_GROUP == 8
  { const int ig[3] = {8, 7, 1}; run_class(x13::domain_alias_adapter<PPL::Grid>("Grid (aliased arguments, recycling)"), depth, ig); }
  run_class(x13::domain_alias_adapter<PPL::Rational_Box>("Rational_Box (aliased arguments, recycling)"), depth, i123);
  run_class(x13::domain_alias_adapter<PPL::BD_Shape<mpq_class> >("BD_Shape<mpq_class> (aliased arguments, recycling)"), depth, i123);
  run_class(x13::domain_alias_adapter<PPL::Octagonal_Shape<mpq_class> >("Octagonal_Shape<mpq_class> (aliased arguments, recycling)"), depth, i123);
#elif VF_GROUP == 9
  { const int ip[3] = {6, 5, 1};     // three overlapping (omega-reduced), two squares, triangle
    run_class(x13::powerset_alias_adapter<PPL::C_Polyhedron>("Pointset_Powerset<C_Polyhedron> (aliased arguments, widenings)"), depth, ip);
    run_class(x13::powerset_full_adapter<PPL::NNC_Polyhedron>("Pointset_Powerset<NNC_Polyhedron>"), depth, ip);
    run_class(x13::powerset_full_adapter<PPL::Rational_Box>("Pointset_Powerset<Rational_Box>"), depth, ip);
    run_class(x13::powerset_full_adapter<PPL::Grid>("Pointset_Powerset<Grid>"), depth, ip); }
#elif VF_GROUP == 10
  run_class(x13::product_alias_adapter<PPL::Domain_Product<PPL::C_Polyhedron, PPL::Grid>::Constraints_Product>("Constraints_Product<C_Polyhedron,Grid> (aliased arguments, recycling)"), depth, i123);
  run_class(x13::product_full_adapter<PPL::Domain_Product<PPL::NNC_Polyhedron, PPL::Grid>::Direct_Product>("Direct_Product<NNC_Polyhedron,Grid>"), depth, i123);
  run_class(x13::product_full_adapter<PPL::Domain_Product<PPL::C_Polyhedron, PPL::Grid>::Congruences_Product>("Congruences_Product<C_Polyhedron,Grid>"), depth, i123);
  run_class(x13::product_full_adapter<PPL::Domain_Product<PPL::Rational_Box, PPL::Grid>::Shape_Preserving_Product>("Shape_Preserving_Product<Rational_Box,Grid>"), depth, i123);
#elif VF_GROUP == 11
  run_class(x13::domain_full_adapter<PPL::BD_Shape<mpz_class> >("BD_Shape<mpz_class>"), depth, i123);
  run_class(x13::domain_full_adapter<PPL::Octagonal_Shape<mpz_class> >("Octagonal_Shape<mpz_class>"), depth, i123);
  run_class(x13::domain_full_adapter<PPL::BD_Shape<double> >("BD_Shape<double>"), depth, i123);
  run_class(x13::domain_full_adapter<PPL::Box<PPL::Interval<double, PPL::Floating_Point_Box_Interval_Info> > >("Box<Interval<double>>"), depth, i123);
#elif VF_GROUP == 12
  { const int ir[3] = {0, 1, 2};
    run_class(x13::constraint_adapter(), depth + deeper, ir);
    run_class(x13::generator_adapter(), depth + deeper, ir);
    run_class(x13::congruence_adapter(), depth + deeper, ir);
    run_class(x13::grid_generator_adapter(), depth + deeper, ir); }
  { const int is[3] = {1, 2, 0};
    run_class(x13::ggsys_adapter(), depth + deeper, is);
    run_class(x13::consys_x_adapter(), depth, is);
    run_class(x13::gensys_x_adapter(), depth, is);
    run_class(x13::cgsys_x_adapter(), depth, is); }
  { const int il[3] = {1, 4, 5}; run_class(x13::linexpr_mixed_adapter(), depth, il); }    // 2A+3B (DENSE), A-C+5 (SPARSE), -4B (SPARSE)
  { const int ii[3] = {0, 1, 2};
    run_class(x13::interval_adapter<PPL::Rational_Interval>("Interval<mpq_class>"), depth, ii);
    run_class(x13::interval_adapter<PPL::Interval<double, PPL::Floating_Point_Box_Interval_Info> >("Interval<double>"), depth, ii);
    run_class(x13::checked_number_adapter<PPL::Checked_Number<mpz_class, PPL::WRD_Extended_Number_Policy>, true>("Checked_Number<mpz_class,WRD_Extended>"), depth, ii);
    run_class(x13::checked_number_adapter<PPL::Checked_Number<mpq_class, PPL::WRD_Extended_Number_Policy>, false>("Checked_Number<mpq_class,WRD_Extended>"), depth, ii); }
  { const int ir[3] = {0, 1, 3};
    run_class(x13::row_adapter<PPL::Dense_Row, PPL::Sparse_Row>("Dense_Row"), depth, ir);
    run_class(x13::row_adapter<PPL::Sparse_Row, PPL::Dense_Row>("Sparse_Row"), depth, ir); }
  { const int im[3] = {0, 1, 2};
    run_class(x13::matrix_adapter<PPL::Dense_Row>("Matrix<Dense_Row>"), depth, im);
    run_class(x13::matrix_adapter<PPL::Sparse_Row>("Matrix<Sparse_Row>"), depth, im);
    run_class(x13::bit_row_adapter(), depth + deeper, im);
    run_class(x13::bit_matrix_adapter(), depth, im); }
#else
#error "VF_GROUP not set"
#endif
  if (REPLAY) return REPLAY_RC;
  J extra; extra.arr("classes", PER_CLASS).num("depth", depth).num("oracle_comparisons", counter(CNT_CHECKS)).num("plain_operation_crashes_skipped", counter(CNT_USER)).num("states_already_inconsistent_skipped", counter(CNT_USER + 1)).num("return_comparisons_skipped_precondition_exception_depends_on_lazy_state", counter(CNT_USER + 2)).num("OK_checks_skipped_after_exceptional_exit", counter(CNT_USER + 3));
  J st; st.str("t", "stats").num("states", TOTAL_STATES).num("transitions", TOTAL_TRANS).num("traces_validated_against_impl", TOTAL_TRANS)
    .boolean("exhaustive", ALL_COMPLETE).str("bound", "pool of 3 objects, pool histories of depth " + std::to_string(depth) + " (states to depth-1 deduplicated on the three dumps, every pool operation applied in every state)")
    .arr("samples", SAMPLES).raw("extra", extra.done()).dbl("wall_s", now_s() - t0);
  sink().line(st.done());
  return 0;
}

// Known-finding trigger predicates (included inside the anonymous namespace of shapes_part5.hh).
// Every predicate restates the root cause found in the PPL source (see known_findings.d/C03.json,
// C04.json); it is evaluated only when a violation is about to be reported, on the step described by
// CUR_OP / CUR_Q / CUR_CLS / CUR_OCLS / CUR_SIG / CUR_OSIG.  A violation at the same site that does
// not satisfy its predicate keeps trigger "none" and is reported as a new VIOLATION.

static bool tg_has(const std::string& s, char c) { return s.find(c) != std::string::npos; }
static bool tg_starts(const std::string& s, const char* p) { return s.compare(0, strlen(p), p) == 0; }
// bounds of coordinate k on a (normalized) cell
static ref::Sup tg_sup(const Cell& c, int k) { return ref::sup(c, ref::unit(c.n, k), Q(0)); }
static ref::Sup tg_inf(const Cell& c, int k) { return ref::inf(c, ref::unit(c.n, k), Q(0)); }
static bool tg_marked_empty_box() { return CUR_SIG.size() >= 2 && CUR_SIG[0] == 'U' && CUR_SIG[1] == 'E'; }

// ---- bound types with rounding / a finite range
static Q tg_type_max(bool& has) {
  has = true;
  if (BT<BTy>::is_float) return q_of(std::numeric_limits<BTy>::max());
  if (BT<BTy>::bits > 0) return pow2(BT<BTy>::bits - 1) - 2;
  has = false; return Q(0);
}
static bool tg_exceeds(const Q& v) { bool has; Q m = tg_type_max(has); return has && abs(v) > m; }
static bool tg_representable(const Q& v) {
  if (EXACT_T) return true;
  if (!BT<BTy>::is_float) return v.get_den() == 1 && !tg_exceeds(v);
  if (v == 0) return true;
  mpz_class den = v.get_den(), m = abs(v.get_num());
  long e = 0;
  if (mpz_popcount(den.get_mpz_t()) != 1) return false;
  e -= (long)mpz_sizeinbase(den.get_mpz_t(), 2) - 1;
  while (mpz_even_p(m.get_mpz_t())) { m >>= 1; ++e; }
  long bits = (long)mpz_sizeinbase(m.get_mpz_t(), 2);
  const long p = std::numeric_limits<BTy>::digits, emax = std::numeric_limits<BTy>::max_exponent, emin = std::numeric_limits<BTy>::min_exponent;
  return bits <= p && e >= emin - p && e + bits <= emax;
}
// does the result cut the piece in a template direction whose exact bound had to be rounded / is out of range?
static std::string tg_lost_direction(const Cell& piece, const Cell& after) {
  if (EXACT_T || piece.bot) return "none";
  std::vector<Vec> dirs = directions(piece.n, KIND);
  bool unrep = false, exc = false;
  for (size_t i = 0; i < dirs.size(); ++i) {
    ref::Sup se = ref::sup(piece, dirs[i], Q(0));
    if (se.status != 1) continue;
    bool violated = after.bot;
    if (!violated) { ref::Sup sa = ref::sup(after, dirs[i], Q(0)); violated = sa.status == 1 && (sa.value < se.value || (sa.value == se.value && se.attained && !sa.attained)); }
    if (!violated) continue;
    Q v = se.value;
    int nzd = 0; for (size_t k = 0; k < dirs[i].size(); ++k) if (dirs[i][k] != 0) ++nzd;
    if (KIND == K_OCT && nzd == 1) v *= 2;          // unary octagonal bounds are stored doubled
    if (tg_exceeds(v)) exc = true; else if (!tg_representable(v)) unrep = true;
  }
  if (exc) return "lost_bound_exceeds_range_of_bound_type";
  if (unrep) return "lost_bound_not_representable_in_bound_type";
  return "none";
}
static bool tg_some_piece_bound_exceeds() {
  for (size_t k = 0; k < CUR_PIECES.size(); ++k) {
    const Cell& c = CL[CUR_PIECES[k]]; if (c.bot) continue;
    std::vector<Vec> dirs = directions(c.n, KIND);
    for (size_t i = 0; i < dirs.size(); ++i) { ref::Sup se = ref::sup(c, dirs[i], Q(0)); if (se.status == 1 && (tg_exceeds(se.value) || (KIND == K_OCT && tg_exceeds(2 * se.value)))) return true; }
  }
  return false;
}

// Box<native integer>: the product coefficient * bound inside propagate_constraint_no_check overflows with an
// "unknown" result (sub_mul_assign_r -> NaN), which propagate_constraint_check_result() does not expect: PPL_UNREACHABLE
static bool tg_is_crash(const std::string& cl) { return cl == "crash:SIGSEGV" || cl == "crash:SIGILL" || cl == "crash:SIGABRT" || cl == "crash:SIGBUS"; }
// (coefficients of the menus are at most 3 in absolute value: a bound of magnitude >= 2^(bits-3) can overflow when multiplied)
static bool tg_huge(const Q& v) { return BT<BTy>::bits > 0 && !BT<BTy>::is_float && abs(v) >= pow2(BT<BTy>::bits - 3); }
static bool tg_box_has_huge_bound(const Cell& c) {
  if (c.bot) return true;        // empty but unmarked: the interval bounds are invisible in the class
  for (int k = 0; k < c.n; ++k) { ref::Sup lo = tg_inf(c, k), hi = tg_sup(c, k); if ((lo.status == 1 && tg_huge(lo.value)) || (hi.status == 1 && tg_huge(hi.value))) return true; }
  return false;
}

static std::string auto_trigger(const std::string& cl) {
  if (KIND == K_BOX && BT<BTy>::bits > 0 && !BT<BTy>::is_float && tg_is_crash(cl) && CUR_OP && CUR_CLS >= 0) {
    const std::string& f = CUR_OP->args.fam;
    if ((f == "refine" || f == "genlhs" || f == "genvar" || tg_starts(CUR_OP->name, "refine_with_constraints") || tg_starts(CUR_OP->name, "refine_with_congruence") || tg_starts(CUR_OP->name, "bounded_affine_image")) && tg_box_has_huge_bound(CL[CUR_CLS]))
      return "propagated_product_overflows_bound_type";
  }
  if (!EXACT_T) {
    // overflow inside add_mul_assign_r / sub_mul_assign_r / neg_assign_r(ROUND_DOWN) stores NaN or -infinity into the matrix
    if (LAST_BAD && (cl == "invariant:matrix-entry-nan-or-minus-infinity" || cl == "invariant:OK()" || cl == "enclosure:result-loses-points")) return "result_has_nan_or_minus_infinity_entry";
    if (cl == "enclosure:result-loses-points" && CUR_LOST >= 0 && CUR_AFTER >= 0) { std::string t = tg_lost_direction(CL[CUR_LOST], CL[CUR_AFTER]); if (t != "none") return t; }
  }
  // Octagonal_Shape<intN>: minimized_constraints() (strong reduction) does not terminate on a matrix whose entries were saturated by an overflow
  if (!EXACT_T && KIND == K_OCT && BT<BTy>::bits > 0 && !BT<BTy>::is_float && (cl == "crash:SIGALRM(hang)" || cl == "crash:SIGSEGV" || cl == "crash:SIGABRT" || cl == "crash:SIGKILL") && CUR_OP && CUR_OP->args.fam != "simplify" && tg_some_piece_bound_exceeds()) return "exact_bound_exceeds_range_of_bound_type";
  if (!EXACT_T && !LAST_BAD && cl == "invariant:OK()" && KIND == K_BOX && BT<BTy>::is_float && tg_some_piece_bound_exceeds()) return "exact_bound_exceeds_range_of_bound_type";
  if (CUR_CLS < 0) return "none";
  const Cell& P = CL[CUR_CLS];
  if (!EXACT_T && KIND == K_BDS && CUR_OP && !LAST_BAD && tg_has(CUR_SIG, 'R') && (cl == "value:constraints!=gamma" || cl == "value:minimized_constraints!=gamma" || cl == "invariant:OK()")) {
    const OpArgs& oa = CUR_OP->args;
    bool shift_overflows = oa.d != 0 && tg_exceeds(oa.e.q0() / Q(oa.d));
    if (shift_overflows || tg_some_piece_bound_exceeds()) return "reduced_shape_bound_overflowed_to_infinity";
  }   // translation keeps +SPR; constraints() then converts a +inf entry still flagged non-redundant
  if (!EXACT_T && KIND != K_BOX && CUR_Q && CUR_Q->args.fam == "maxmin" && cl == "query:definite-answer-false" && !P.bot) {
    // max_min: d = b + coeff * dbm entry overflows to +infinity and is passed to numer_denom() unchecked
    const QArgs& a = CUR_Q->args;
    ref::Sup s = a.maxi ? ref::sup(P, a.e.vec(P.n), a.e.q0()) : ref::inf(P, a.e.vec(P.n), a.e.q0());
    if (s.status == 1 && (tg_exceeds(s.value) || (BT<BTy>::is_float && !tg_representable(s.value) && tg_exceeds(s.value * Q(1000001, 1000000))))) return "optimum_exceeds_range_of_bound_type";
    if (tg_exceeds(a.e.q0())) return "optimum_exceeds_range_of_bound_type";
  }
  if (!EXACT_T && KIND != K_BOX && CUR_Q && CUR_Q->args.fam == "relcong" && CUR_Q->args.m != 0 && !P.bot) {
    // relation_with(Congruence) is computed from minimize()/maximize() of the expression: same overflow
    const QArgs& a = CUR_Q->args;
    ref::Sup hi = ref::sup(P, a.e.vec(P.n), a.e.q0()), lo = ref::inf(P, a.e.vec(P.n), a.e.q0());
    if ((hi.status == 1 && tg_exceeds(hi.value)) || (lo.status == 1 && tg_exceeds(lo.value))) return "optimum_exceeds_range_of_bound_type";
  }
  const Cell* O = CUR_OCLS >= 0 ? &CL[CUR_OCLS] : 0;
  if (CUR_OP) {
    const Op& op = *CUR_OP; const OpArgs& a = op.args; const std::string& nm = op.name;
    // ---------------- BD_Shape / Octagonal_Shape
    if (KIND != K_BOX) {
      // affine_preimage(v, e, d) with e not mentioning v just forgets v (no substitution)
      if (a.fam == "affine" && a.pre && cl == "exact:result-too-large" && !a.e.mentions(a.v)) return "preimage_expr_does_not_mention_var";
      // concatenate_assign copies the matrix of a marked-empty operand of dimension > 0
      if (nm == "concatenate_assign" && cl == "exact:result-too-large" && O && O->bot && O->n > 0 && !CUR_OSIG.empty() && CUR_OSIG[0] == 'E' && !P.bot) return "operand_marked_empty_positive_dim";
    }
    if (KIND == K_BDS) {
      // generalized_affine_image/preimage(lhs, r, rhs), >= 2 variables in lhs: forget_all_dbm_constraints without reset_shortest_path_reduced
      if (a.fam == "genlhs" && a.e.nvars() >= 2 && tg_has(CUR_SIG, 'R') && (cl == "invariant:OK()" || tg_starts(cl, "value:minimized_constraints"))) return "lhs_two_vars_receiver_marked_reduced";
    }
    if (a.fam == "simplify" && O && !P.bot && !O->bot) {
      // BD_Shape / Octagonal_Shape: `if (x.contains(y)) { x = universe; return false; }`
      if (KIND != K_BOX && cl == "simplify:return-false-on-nonempty-meet" && ref::subset(*O, P)) return "receiver_contains_context";
      // Octagonal_Shape: the last loop tests `i >= j` instead of the pseudo-triangular row size, so a lower bound
      // (entry [2k][2k+1]) of the receiver is never copied and control reaches PPL_UNREACHABLE
      if (KIND == K_OCT && (cl == "crash:SIGSEGV" || cl == "crash:SIGILL" || cl == "crash:SIGABRT" || cl == "crash:SIGBUS") && !ref::subset(*O, P)) {
        for (int k = 0; k < P.n; ++k) {
          ref::Sup pl = tg_inf(P, k), ql = tg_inf(*O, k);
          if (pl.status == 1 && (ql.status != 1 || ql.value < pl.value)) return "receiver_lower_bound_not_implied_by_context";
        }
      }
      // Box: Interval::simplify_using_context_assign ignores open bounds (FIXME in Interval_templates.hh)
      if (KIND == K_BOX && cl == "simplify:meet-not-preserved") {
        for (int k = 0; k < P.n; ++k) {
          ref::Sup ph = tg_sup(P, k), qh = tg_sup(*O, k), pl = tg_inf(P, k), ql = tg_inf(*O, k);
          if (ph.status == 1 && qh.status == 1 && ph.value == qh.value && !ph.attained && qh.attained) return "open_receiver_bound_equals_closed_context_bound";
          if (pl.status == 1 && ql.status == 1 && pl.value == ql.value && !pl.attained && ql.attained) return "open_receiver_bound_equals_closed_context_bound";
        }
      }
    }
    // ---------------- Box
    if (KIND == K_BOX) {
      if (a.fam == "bounded" && !a.pre && a.d < 0 && a.e.mentions(a.v) && a.e2.mentions(a.v) && (cl == "enclosure:result-loses-points" || cl == "invariant:OK()" || tg_starts(cl, "best:result-loses")))
        return "negative_denominator_var_in_both_bounds";
      if (a.fam == "bounded" && a.pre && cl == "crash:SIGFPE" && !tg_marked_empty_box()) {
        // (a box that is empty but not marked still has its interval bounds: they are invisible in the value class)
        bool lo = P.bot || tg_inf(P, a.v).status == 1, hi = P.bot || tg_sup(P, a.v).status == 1;
        if ((lo && !a.e2.mentions(a.v)) || (hi && !a.e.mentions(a.v))) return "bound_expr_without_var_and_var_bounded";
      }
      if (a.fam == "genlhs" && a.pre && (cl == "enclosure:result-loses-points" || cl == "invariant:OK()")) return "lhs_form_preimage";
      if (a.fam == "genvar" && a.pre && a.rel != 2 && !a.e.mentions(a.v) && (cl == "enclosure:result-loses-points" || cl == "invariant:OK()")) return "var_form_expr_without_var";
      if (tg_starts(nm, "drop_some_non_integer_points") && cl == "invariant:OK()" && !CUR_SIG.empty() && CUR_SIG[0] == 'U' && !P.bot) {
        for (int k = 0; k < P.n; ++k) {
          ref::Sup lo = tg_inf(P, k), hi = tg_sup(P, k);
          if (lo.status != 1 || hi.status != 1) continue;
          mpz_class c; mpz_cdiv_q(c.get_mpz_t(), lo.value.get_num().get_mpz_t(), lo.value.get_den().get_mpz_t());
          Q ci(c); if (ci == lo.value && !lo.attained) ci += 1;
          if (ci > hi.value || (ci == hi.value && !hi.attained)) return "empty_up_to_date_and_interval_without_integer";
        }
      }
      if ((tg_starts(nm, "remove_higher_space_dimensions") || tg_starts(nm, "map_space_dimensions")) && cl == "exact:result-too-large" && P.bot && !tg_marked_empty_box()) return "receiver_empty_but_not_marked";
      if (nm == "upper_bound_assign_if_exact" && cl == "if_exact:false-but-union-is-in-domain" && O && !P.bot && !O->bot) {
        for (int k = 0; k < P.n; ++k) {
          ref::Sup ph = tg_sup(P, k), ql = tg_inf(*O, k), qh = tg_sup(*O, k), pl = tg_inf(P, k);
          if (ph.status == 1 && ql.status == 1 && ph.value == ql.value && ph.attained != ql.attained) return "adjacent_bounds_exactly_one_open";
          if (qh.status == 1 && pl.status == 1 && qh.value == pl.value && qh.attained != pl.attained) return "adjacent_bounds_exactly_one_open";
        }
      }
    }
  }
  if (CUR_Q) {
    const Query& q = *CUR_Q; const QArgs& a = q.args;
    if (cl != "query:answer!=exact" && cl != "query:definite-answer-false") return "none";
    if (a.fam == "relcong" && a.m != 0 && !ref::is_empty(P)) {
      std::string ex = a.e.nvars() == 0 ? std::string((a.e.b % a.m) == 0 ? "IS_or_I" : "D") : ref_rel_cong(P, a.e, a.m);
      if (KIND != K_BOX) {
        // no code path answers is_included for a proper congruence
        if (ex == "IS_or_I") return "congruence_satisfied_by_every_point";
        // max_value += signed_distance (should be -=): wrong whenever trunc(sup) is not a multiple of the modulus
        ref::Sup hi = ref::sup(P, a.e.vec(P.n), a.e.q0());
        if (hi.status == 1) {
          mpz_class t = hi.value.get_num() / hi.value.get_den();
          if (t % a.m != 0) return "sup_not_multiple_of_modulus";
        }
      } else {
        // the single candidate hyperplane is computed from floor(lower bound): wrong unless the infimum is attained and is itself a solution
        // (the trigger recomputes that candidate exactly as the code does and compares it with the true smallest solution)
        ZE h = a.e; h.b = 0;
        ref::Sup lo = ref::inf(P, h.vec(P.n), Q(0)), hi = ref::sup(P, h.vec(P.n), Q(0));
        if (lo.status == 1 && hi.status == 1) {
          mpz_class mod(a.m), v = a.e.b % mod, lower;
          mpz_fdiv_q(lower.get_mpz_t(), lo.value.get_num().get_mpz_t(), lo.value.get_den().get_mpz_t());
          v -= (lower / mod) * mod;
          if (v + lower > 0) v -= mod;
          Q cand = Q(-v);
          // true smallest value s >= inf (or > inf) with s + b = 0 (mod m)
          Q t = (lo.value + a.e.q0()) / a.m;
          mpz_class k; mpz_cdiv_q(k.get_mpz_t(), t.get_num().get_mpz_t(), t.get_den().get_mpz_t());
          if (Q(k) == t && !lo.attained) k += 1;
          Q s = Q(k) * a.m - a.e.q0();
          if (cand != s) return "candidate_hyperplane_is_not_the_smallest_solution_above_infimum";
        }
      }
    }
    if (KIND != K_BOX && q.name == "is_disjoint_from" && O && !P.bot && !O->bot) {
      // is_disjoint_from only compares opposite entries of the two closed matrices; a disjointness that needs a
      // negative cycle alternating between the two shapes is missed
      bool pairwise = false;
      std::vector<Vec> dirs = directions(P.n, KIND);
      for (size_t i = 0; i < dirs.size() && !pairwise; ++i) {
        Vec nd(P.n); for (int k = 0; k < P.n; ++k) nd[k] = -dirs[i][k];
        ref::Sup a1 = ref::sup(P, dirs[i], Q(0)), b1 = ref::sup(*O, nd, Q(0));
        if (a1.status == 1 && b1.status == 1 && a1.value + b1.value < 0) pairwise = true;
      }
      if (!pairwise) return "disjointness_not_witnessed_by_one_pair_of_bounds";
    }
    if (KIND == K_BOX && a.fam == "relcon" && a.c.e.nvars() == 1 && a.c.k != ref::EQ && !P.bot) {
      // interval_relation: an upper-bound constraint on an interval unbounded above answers strictly_intersects without looking at the lower bound
      int w = a.c.e.dim() - 1;
      if (a.c.e.a[w] < 0 && tg_sup(P, w).status == 2 && tg_inf(P, w).status == 1) return "upper_bound_constraint_on_interval_unbounded_above";
    }
    if (KIND == K_BOX && a.fam == "relcon" && a.c.e.nvars() == 0 && a.c.k == ref::EQ && a.c.e.b > 0 && P.n >= 1) return "trivial_equality_with_positive_constant";
    if (KIND == K_OCT && a.fam == "maxmin" && a.wp && a.e.nvars() == 0 && P.n >= 1 && !P.bot && P.rows.empty()) return "universe_and_constant_expression_with_witness";
  }
  return "none";
}
static std::string trigger_for(const TrigIn& t) { return auto_trigger(t.clause); }
static std::string trigger_ctor(int sk, int cc, int want_or_piece, int after) {
  (void)sk; (void)cc; (void)want_or_piece; (void)after;
  return auto_trigger("enclosure:result-loses-points");
}
static std::string trigger_ctor_crash(int sk, const std::vector<ZC>& rows, const std::string& cl) {
  if (KIND == K_BOX && BT<BTy>::bits > 0 && !BT<BTy>::is_float && tg_is_crash(cl) && sk <= 1)
    for (size_t i = 0; i < rows.size(); ++i) if (tg_huge(Q(rows[i].e.b))) return "propagated_product_overflows_bound_type";
  return "none";
}

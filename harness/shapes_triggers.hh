// Known-finding trigger predicates (included inside the anonymous namespace of shapes_part5.hh).
// Every predicate restates the root cause found in the PPL source (see known_findings.d/C03.json,
// C04.json); it is evaluated only when a violation is about to be reported, on the step described by
// CUR_OP / CUR_Q / CUR_CLS / CUR_OCLS / CUR_SIG / CUR_OSIG.  A violation at the same site that does
// not satisfy its predicate keeps trigger "none" and is reported as a new VIOLATION.

static bool tg_has(const std::string& s, char c) { return s.find(c) != std::string::npos; }
static bool tg_starts(const std::string& s, const char* p) { return s.compare(0, strlen(p), p) == 0; }
// bounds of coordinate k on a (normalized) cell
static ref::Sup tg_sup(const Cell& c, int k) { return ref::sup(c, ref::unit(c.n, k), Q(0)); }
static ref::Sup tg_inf(const Cell& c, int k) { return ref::inf(c, ref::unit(c.n, k), Q(0)); }
static bool tg_marked_empty_box() { return CUR_SIG.size() >= 2 && CUR_SIG[0] == 'U' && CUR_SIG[1] == 'E'; }

static std::string auto_trigger(const std::string& cl) {
  if (CUR_CLS < 0) return "none";
  const Cell& P = CL[CUR_CLS];
  const Cell* O = CUR_OCLS >= 0 ? &CL[CUR_OCLS] : 0;
  if (CUR_OP) {
    const Op& op = *CUR_OP; const OpArgs& a = op.args; const std::string& nm = op.name;
    // ---------------- BD_Shape / Octagonal_Shape
    if (KIND != K_BOX) {
      // affine_preimage(v, e, d) with e not mentioning v just forgets v (no substitution)
      if (a.fam == "affine" && a.pre && cl == "exact:result-too-large" && !a.e.mentions(a.v)) return "preimage_expr_does_not_mention_var";
      // concatenate_assign copies the matrix of a marked-empty operand of dimension > 0
      if (nm == "concatenate_assign" && cl == "exact:result-too-large" && O && O->bot && O->n > 0 && !CUR_OSIG.empty() && CUR_OSIG[0] == 'E' && !P.bot) return "operand_marked_empty_positive_dim";
    }
    if (KIND == K_BDS) {
      // generalized_affine_image/preimage(lhs, r, rhs), >= 2 variables in lhs: forget_all_dbm_constraints without reset_shortest_path_reduced
      if (a.fam == "genlhs" && a.e.nvars() >= 2 && tg_has(CUR_SIG, 'R') && (cl == "invariant:OK()" || tg_starts(cl, "value:minimized_constraints"))) return "lhs_two_vars_receiver_marked_reduced";
    }
    if (a.fam == "simplify" && O && !P.bot && !O->bot) {
      // BD_Shape / Octagonal_Shape: `if (x.contains(y)) { x = universe; return false; }`
      if (KIND != K_BOX && cl == "simplify:return-false-on-nonempty-meet" && ref::subset(*O, P)) return "receiver_contains_context";
      // Octagonal_Shape: the last loop tests `i >= j` instead of the pseudo-triangular row size, so a lower bound
      // (entry [2k][2k+1]) of the receiver is never copied and control reaches PPL_UNREACHABLE
      if (KIND == K_OCT && (cl == "crash:SIGSEGV" || cl == "crash:SIGILL" || cl == "crash:SIGABRT" || cl == "crash:SIGBUS") && !ref::subset(*O, P)) {
        for (int k = 0; k < P.n; ++k) {
          ref::Sup pl = tg_inf(P, k), ql = tg_inf(*O, k);
          if (pl.status == 1 && (ql.status != 1 || ql.value < pl.value)) return "receiver_lower_bound_not_implied_by_context";
        }
      }
      // Box: Interval::simplify_using_context_assign ignores open bounds (FIXME in Interval_templates.hh)
      if (KIND == K_BOX && cl == "simplify:meet-not-preserved") {
        for (int k = 0; k < P.n; ++k) {
          ref::Sup ph = tg_sup(P, k), qh = tg_sup(*O, k), pl = tg_inf(P, k), ql = tg_inf(*O, k);
          if (ph.status == 1 && qh.status == 1 && ph.value == qh.value && !ph.attained && qh.attained) return "open_receiver_bound_equals_closed_context_bound";
          if (pl.status == 1 && ql.status == 1 && pl.value == ql.value && !pl.attained && ql.attained) return "open_receiver_bound_equals_closed_context_bound";
        }
      }
    }
    // ---------------- Box
    if (KIND == K_BOX) {
      if (a.fam == "bounded" && !a.pre && a.d < 0 && a.e.mentions(a.v) && a.e2.mentions(a.v) && (cl == "enclosure:result-loses-points" || cl == "invariant:OK()" || tg_starts(cl, "best:result-loses")))
        return "negative_denominator_var_in_both_bounds";
      if (a.fam == "bounded" && a.pre && cl == "crash:SIGFPE" && !P.bot) {
        bool lo = tg_inf(P, a.v).status == 1, hi = tg_sup(P, a.v).status == 1;
        if ((lo && !a.e2.mentions(a.v)) || (hi && !a.e.mentions(a.v))) return "bound_expr_without_var_and_var_bounded";
      }
      if (a.fam == "genlhs" && a.pre && (cl == "enclosure:result-loses-points" || cl == "invariant:OK()")) return "lhs_form_preimage";
      if (a.fam == "genvar" && a.pre && a.rel != 2 && !a.e.mentions(a.v) && (cl == "enclosure:result-loses-points" || cl == "invariant:OK()")) return "var_form_expr_without_var";
      if (tg_starts(nm, "drop_some_non_integer_points") && cl == "invariant:OK()" && !CUR_SIG.empty() && CUR_SIG[0] == 'U' && !P.bot) {
        for (int k = 0; k < P.n; ++k) {
          ref::Sup lo = tg_inf(P, k), hi = tg_sup(P, k);
          if (lo.status != 1 || hi.status != 1) continue;
          mpz_class c; mpz_cdiv_q(c.get_mpz_t(), lo.value.get_num().get_mpz_t(), lo.value.get_den().get_mpz_t());
          Q ci(c); if (ci == lo.value && !lo.attained) ci += 1;
          if (ci > hi.value || (ci == hi.value && !hi.attained)) return "empty_up_to_date_and_interval_without_integer";
        }
      }
      if ((tg_starts(nm, "remove_higher_space_dimensions") || tg_starts(nm, "map_space_dimensions")) && cl == "exact:result-too-large" && P.bot && !tg_marked_empty_box()) return "receiver_empty_but_not_marked";
      if (nm == "upper_bound_assign_if_exact" && cl == "if_exact:false-but-union-is-in-domain" && O && !P.bot && !O->bot) {
        for (int k = 0; k < P.n; ++k) {
          ref::Sup ph = tg_sup(P, k), ql = tg_inf(*O, k), qh = tg_sup(*O, k), pl = tg_inf(P, k);
          if (ph.status == 1 && ql.status == 1 && ph.value == ql.value && ph.attained != ql.attained) return "adjacent_bounds_exactly_one_open";
          if (qh.status == 1 && pl.status == 1 && qh.value == pl.value && qh.attained != pl.attained) return "adjacent_bounds_exactly_one_open";
        }
      }
    }
  }
  if (CUR_Q) {
    const Query& q = *CUR_Q; const QArgs& a = q.args;
    if (cl != "query:answer!=exact" && cl != "query:definite-answer-false") return "none";
    if (a.fam == "relcong" && a.m != 0 && !ref::is_empty(P)) {
      std::string ex = a.e.nvars() == 0 ? std::string((a.e.b % a.m) == 0 ? "IS_or_I" : "D") : ref_rel_cong(P, a.e, a.m);
      if (KIND != K_BOX) {
        // no code path answers is_included for a proper congruence
        if (ex == "IS_or_I") return "congruence_satisfied_by_every_point";
        // max_value += signed_distance (should be -=): wrong whenever trunc(sup) is not a multiple of the modulus
        ref::Sup hi = ref::sup(P, a.e.vec(P.n), a.e.q0());
        if (hi.status == 1) {
          mpz_class t = hi.value.get_num() / hi.value.get_den();
          if (t % a.m != 0) return "sup_not_multiple_of_modulus";
        }
      } else {
        // the single candidate hyperplane is computed from floor(lower bound): wrong unless the infimum is attained and is itself a solution
        ZE h = a.e; h.b = 0;
        ref::Sup lo = ref::inf(P, h.vec(P.n), Q(0));
        if (lo.status == 1) {
          Q t = (lo.value + a.e.q0()) / a.m;
          if (!(lo.attained && t.get_den() == 1)) return "infimum_not_an_attained_solution";
        }
      }
    }
    if (KIND == K_BOX && a.fam == "relcon" && a.c.e.nvars() == 1 && a.c.k != ref::EQ && !P.bot) {
      // interval_relation: an upper-bound constraint on an interval unbounded above answers strictly_intersects without looking at the lower bound
      int w = a.c.e.dim() - 1;
      if (a.c.e.a[w] < 0 && tg_sup(P, w).status == 2 && tg_inf(P, w).status == 1) return "upper_bound_constraint_on_interval_unbounded_above";
    }
    if (KIND == K_BOX && a.fam == "relcon" && a.c.e.nvars() == 0 && a.c.k == ref::EQ && a.c.e.b > 0 && P.n >= 1) return "trivial_equality_with_positive_constant";
    if (KIND == K_OCT && a.fam == "maxmin" && a.wp && a.e.nvars() == 0 && P.n >= 1 && !P.bot && P.rows.empty()) return "universe_and_constant_expression_with_witness";
  }
  return "none";
}
static std::string trigger_for(const TrigIn& t) { return auto_trigger(t.clause); }
static std::string trigger_ctor(int sk, int cc, int want_or_piece, int after) {
  (void)sk; (void)cc; (void)want_or_piece; (void)after;
  return "none";
}

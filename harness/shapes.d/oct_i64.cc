#define SHAPE_NAME "oct_i64"
#define SHAPE_T PPL::Octagonal_Shape<int64_t>
#include "harness/shapes.cc"

#define SHAPE_NAME "box_i8"
#define SHAPE_T PPL::Int8_Box
#include "harness/shapes.cc"

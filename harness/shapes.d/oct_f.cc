#define SHAPE_NAME "oct_f"
#define SHAPE_T PPL::Octagonal_Shape<float>
#include "harness/shapes.cc"

#define SHAPE_NAME "bds_i32"
#define SHAPE_T PPL::BD_Shape<int32_t>
#include "harness/shapes.cc"

#define SHAPE_NAME "box_d"
#define SHAPE_T PPL::Double_Box
#include "harness/shapes.cc"

#define SHAPE_NAME "box_i32"
#define SHAPE_T PPL::Int32_Box
#include "harness/shapes.cc"

#define SHAPE_NAME "oct_mpq"
#define SHAPE_T PPL::Octagonal_Shape<mpq_class>
#include "harness/shapes.cc"

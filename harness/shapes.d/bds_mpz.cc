#define SHAPE_NAME "bds_mpz"
#define SHAPE_T PPL::BD_Shape<mpz_class>
#include "harness/shapes.cc"

#define SHAPE_NAME "bds_f"
#define SHAPE_T PPL::BD_Shape<float>
#include "harness/shapes.cc"

#define SHAPE_NAME "oct_i32"
#define SHAPE_T PPL::Octagonal_Shape<int32_t>
#include "harness/shapes.cc"

#define SHAPE_NAME "bds_i16"
#define SHAPE_T PPL::BD_Shape<int16_t>
#include "harness/shapes.cc"

#define SHAPE_NAME "oct_mpz"
#define SHAPE_T PPL::Octagonal_Shape<mpz_class>
#include "harness/shapes.cc"

#define SHAPE_NAME "oct_ld"
#define SHAPE_T PPL::Octagonal_Shape<long double>
#include "harness/shapes.cc"

#define SHAPE_NAME "box_mpq"
#define SHAPE_T PPL::Rational_Box
#include "harness/shapes.cc"

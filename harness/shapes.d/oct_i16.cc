#define SHAPE_NAME "oct_i16"
#define SHAPE_T PPL::Octagonal_Shape<int16_t>
#include "harness/shapes.cc"

#define SHAPE_NAME "bds_i64"
#define SHAPE_T PPL::BD_Shape<int64_t>
#include "harness/shapes.cc"

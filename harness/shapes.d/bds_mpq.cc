#define SHAPE_NAME "bds_mpq"
#define SHAPE_T PPL::BD_Shape<mpq_class>
#include "harness/shapes.cc"

#define SHAPE_NAME "box_ld"
#define SHAPE_T PPL::Long_Double_Box
#include "harness/shapes.cc"

#define SHAPE_NAME "box_f"
#define SHAPE_T PPL::Float_Box
#include "harness/shapes.cc"

#define SHAPE_NAME "bds_d"
#define SHAPE_T PPL::BD_Shape<double>
#include "harness/shapes.cc"

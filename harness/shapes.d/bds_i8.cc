#define SHAPE_NAME "bds_i8"
#define SHAPE_T PPL::BD_Shape<int8_t>
#include "harness/shapes.cc"

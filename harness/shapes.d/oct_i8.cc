#define SHAPE_NAME "oct_i8"
#define SHAPE_T PPL::Octagonal_Shape<int8_t>
#include "harness/shapes.cc"

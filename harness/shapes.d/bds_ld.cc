#define SHAPE_NAME "bds_ld"
#define SHAPE_T PPL::BD_Shape<long double>
#include "harness/shapes.cc"

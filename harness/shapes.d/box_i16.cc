#define SHAPE_NAME "box_i16"
#define SHAPE_T PPL::Int16_Box
#include "harness/shapes.cc"

#define SHAPE_NAME "box_mpz"
#define SHAPE_T PPL::Z_Box
#include "harness/shapes.cc"

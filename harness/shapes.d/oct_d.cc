#define SHAPE_NAME "oct_d"
#define SHAPE_T PPL::Octagonal_Shape<double>
#include "harness/shapes.cc"

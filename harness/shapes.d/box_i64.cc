#define SHAPE_NAME "box_i64"
#define SHAPE_T PPL::Int64_Box
#include "harness/shapes.cc"

// C17 adapters: octagonal shapes over mpq and mpz.
#include "harness/c17_adapt.hh"
namespace c17 {
std::vector<Domain*> domains_oct() {
  std::vector<Domain*> v;
  v.push_back(new SimpleDomain<PPL::Octagonal_Shape<mpq_class> >("Octagonal_Shape<mpq_class>", false));
  v.push_back(new SimpleDomain<PPL::Octagonal_Shape<mpz_class> >("Octagonal_Shape<mpz_class>", false));
  return v;
}
}

// C20 -- runtime of the generated C-interface stubs (see gen/capi_gen.py, gen/capi_rules.py).
//
// Every generated stub enumerates the full product of the (tier-limited) menus of its parameters.
// For one tuple:   build C-side object + identically built twin for every parameter,
//                  run the C++ operation on the twins (inside try/catch, under vf::RefGuard),
//                  call the C function (inside catch(...) so an escaping exception is observed),
//                  compare: return value, error handler calls, every parameter (ascii_dump text).
#ifndef VERIF_C20_RT_HH
#define VERIF_C20_RT_HH 1

#include "engine/common.hh"
#include "ppl.hh"               // stand-in written by capi_gen.py: includes the working tree's headers
#include "ppl_c.h"              // regenerated from the working tree's m4 sources
#include "interfaced_boxes.hh"
#include <sstream>
#include <stdexcept>
#include <new>
#include <typeinfo>

namespace c20 {

using namespace Parma_Polyhedra_Library;

// ------------------------------------------------------------------------------------------------
// globals
// ------------------------------------------------------------------------------------------------
enum { MODE_MAIN = 0, MODE_OOM = 1 };
enum { CNT_NORMAL = vf::CNT_USER, CNT_THROW = vf::CNT_USER + 1, CNT_OOM_CALLS = vf::CNT_USER + 2, CNT_OOM_FAILS = vf::CNT_USER + 3,
       CNT_CAPPED = vf::CNT_USER + 4, CNT_ABANDONED = vf::CNT_USER + 8, CNT_LIFE = vf::CNT_USER + 5, CNT_TIMEOUT_CALLS = vf::CNT_USER + 6, CNT_TIMEOUT_HIT = vf::CNT_USER + 7,
       CNT_CODE0 = vf::CNT_USER + 10 /* + (-code), code in -2..-12 */ };

struct Glob {
  bool thorough;
  int mode;
  long cap;               // max tuples per entry point (menus are shrunk, lowest priority entries first)
  long oom_tuples;        // OOM mode: tuples per entry point
  long oom_k;             // OOM mode: max failing allocation index
  // error handler observations
  int hcalls, hcode;
  // allocation failure injection
  volatile long alloc_count;
  long fail_at;           // fail the fail_at-th allocation while armed (0 = never)
  volatile bool armed;
  bool failed;            // an allocation was made to fail
  char* desc;             // shared buffer: description of the tuple being executed (for crash reports)
  unsigned char* covered; // shared: per entry point, 1 = at least one tuple compared
  unsigned char* restarts; // shared: per entry point, number of restarts after a crash / hang (twin or C call)
  int max_restarts;        // quick tier: give up on an entry point after that many crashes
  const vf::Args* args;
  const char* call_marker;  // address inside the frame of the last Run::call
};
long live_blocks();          // blocks obtained from ::operator new and not yet released (c20_main.cc)
extern Glob G;

inline std::string itos(long long v) { return std::to_string(v); }

// ------------------------------------------------------------------------------------------------
// dumps
// ------------------------------------------------------------------------------------------------
template <class T> inline std::string dump(const T& x) { std::ostringstream s; x.ascii_dump(s); return s.str(); }
template <> inline std::string dump<Coefficient>(const Coefficient& x) { std::ostringstream s; s << x; return s.str(); }
template <class T> inline std::string pretty(const T& x) { using namespace IO_Operators; std::ostringstream s; s << x; return s.str(); }

inline std::string brief(const std::string& s, size_t n = 400) {
  std::string o; o.reserve(s.size());
  for (size_t i = 0; i < s.size(); ++i) o += (s[i] == '\n') ? '|' : s[i];
  if (o.size() > n) o = o.substr(0, n) + "...";
  return o;
}

// ------------------------------------------------------------------------------------------------
// Arg: one parameter (or a group of adjacent parameters) of an entry point
// ------------------------------------------------------------------------------------------------
struct Run;
// true when p points below the frame of Run::call: memory of a frame that has returned
inline bool on_dead_stack(const void* p) {
  const char* q = static_cast<const char*>(p);
  return G.call_marker && q < G.call_marker && q > G.call_marker - (1 << 20);
}
struct Arg {
  const char* pname;
  int cur;
  Arg() : pname("?"), cur(-1) {}
  virtual ~Arg() {}
  virtual int count() const = 0;
  virtual void build(int i) = 0;                  // C-side value and twin for menu entry i
  virtual void destroy() = 0;
  virtual void check(Run&, bool /*twin_threw*/) {}
  virtual std::string show() const = 0;           // description of the current entry
  virtual std::string trig() const { return ""; } // name of a narrow predicate true for the current entry
  virtual void oom_reset() {}                     // bring out-slots back to their initial value (OOM re-runs rebuild everything anyway)
};

enum Kind { K_VOID, K_BOOL, K_INT, K_LOAD };

struct Run {
  const char* fname; const char* pattern; const char* dom;
  long long item, sub_start;
  std::vector<Arg*> args;
  std::vector<int> cnt, idx;
  long long tuple, ntuples, full;
  bool started, built;
  // outcome of the current tuple
  long tval; int tcode; std::string twhat;
  int rc; bool escaped; std::string escwhat; int hcalls, hcode;
  long long compared;
  bool capture_stdout; std::string cout_text;
  long oom_kcur; bool oom_more;
  bool stop_checks;
  int extra_new;           // blocks the C call is expected to keep beyond the twin (a new iterator the twin has no use for)
  long t_delta, c_delta, live_before, live_after;   // net ::operator new blocks of the twin operation / the C call
  int base_rc, base_tcode;                          // OOM mode: outcome of the pass without injected failure
  std::string extra_trig, s1, s2;   // per tuple: trigger set by the stub, scratch results of the twin
  Run(const char* f, const char* p, const char* d, long long it, long long ss)
    : fname(f), pattern(p), dom(d), item(it), sub_start(ss), tuple(-1), ntuples(0), full(0), started(false), built(false),
      tval(0), tcode(0), rc(0), escaped(false), hcalls(0), hcode(0), compared(0), capture_stdout(false), oom_kcur(0), oom_more(false), stop_checks(false), extra_new(0), t_delta(0), c_delta(0), live_before(0), live_after(0), base_rc(0), base_tcode(0) {}
  ~Run() { cleanup(); }
  void add(Arg* a, const char* pn) { a->pname = pn; args.push_back(a); }

  void cleanup() {
    if (built) { for (size_t i = args.size(); i-- > 0; ) args[i]->destroy(); built = false; }
  }
  std::string input_json() const {
    std::vector<std::string> av;
    for (size_t i = 0; i < args.size(); ++i) av.push_back(vf::J().str("p", args[i]->pname).num("i", args[i]->cur).str("v", args[i]->show()).done());
    vf::J j; j.str("fn", fname).num("tuple", tuple).arr("args", av).str("trig", trigger());
    if (G.mode == MODE_OOM) j.num("oomk", oom_kcur);
    return j.done();
  }
  std::string trigger() const {
    std::string t = extra_trig;
    for (size_t i = 0; i < args.size(); ++i) { std::string s = args[i]->trig(); if (!s.empty()) { if (!t.empty()) t += "+"; t += s; } }
    return t.empty() ? "none" : t;
  }
  void fail(const std::string& clause, const std::string& observed, const std::string& expected, const std::string& detail = "") {
    vf::count(vf::CNT_VIOL);
    std::string trg = trigger();
    std::string key = std::string(pattern) + "|" + clause + "|" + trg;
    if (!vf::violcap().admit(key)) return;
    vf::report_violation(pattern, clause, trg, input_json(), observed, expected, detail.empty() ? std::string("domain=") + dom : detail + " domain=" + dom);
  }

  // Enumerates the tuples; builds the parameters of the next one.
  bool next() {
    if (!started) {
      started = true;
      if (sub_start > 0 && vf::pool().only_sub < 0 && G.restarts) {
        if (G.restarts[item] < 255) ++G.restarts[item];
        if (G.max_restarts > 0 && G.restarts[item] >= G.max_restarts) { vf::count(CNT_ABANDONED); return false; }
      }
      cnt.resize(args.size()); idx.assign(args.size(), 0);
      full = 1;
      for (size_t i = 0; i < args.size(); ++i) { cnt[i] = args[i]->count(); if (cnt[i] < 1) cnt[i] = 1; full *= cnt[i]; }
      // shrink the largest menus (entries are ordered by priority) until the product fits the cap
      long long prod = full;
      while (prod > G.cap) {
        size_t big = 0;
        for (size_t i = 1; i < cnt.size(); ++i) if (cnt[i] > cnt[big]) big = i;
        if (cnt[big] <= 2) break;
        prod = prod / cnt[big] * (cnt[big] - 1); --cnt[big];
      }
      ntuples = prod;
      if (prod < full && sub_start == 0) vf::count(CNT_CAPPED);
      if (G.mode == MODE_OOM && ntuples > G.oom_tuples) ntuples = G.oom_tuples;
    }
    cleanup();
    if (G.mode == MODE_OOM && tuple >= 0 && oom_more) {
      // same tuple again, the next allocation index fails
      ++oom_kcur; oom_more = false;
    } else {
      oom_kcur = 0; oom_more = false;
      for (;;) {
        ++tuple;
        if (tuple >= ntuples) return false;
        if (!vf::pool().want(tuple, sub_start)) continue;
        if (G.args->expired()) { vf::count(vf::CNT_SKIPPED); return false; }
        break;
      }
      long long t = tuple;
      if (G.mode == MODE_OOM) {
        // spread the few OOM tuples over the whole product
        long long prod = 1; for (size_t i = 0; i < cnt.size(); ++i) prod *= cnt[i];
        t = (ntuples <= 1) ? 0 : (tuple * (prod - 1)) / (ntuples - 1);
      }
      for (size_t i = 0; i < args.size(); ++i) { idx[i] = (int)(t % cnt[i]); t /= cnt[i]; }
      vf::pool().step(tuple);
    }
    {
      vf::RefGuard g;   // building menu entries is harness work
      for (size_t i = 0; i < args.size(); ++i) { args[i]->cur = idx[i]; args[i]->build(idx[i]); }
      built = true;
      if (G.desc) { std::string d = input_json(); strncpy(G.desc, d.c_str(), 1500); G.desc[1500] = 0; }
    }
    tcode = 0; tval = 0; rc = 0; escaped = false; hcalls = hcode = 0; twhat.clear(); escwhat.clear(); cout_text.clear(); extra_trig.clear(); s1.clear(); s2.clear(); extra_new = 0;
    return true;
  }

  // the C++ operation on the twins
  template <class F> void twin(F f) {
    if (G.mode == MODE_OOM && oom_kcur > 0) return;
    vf::RefGuard g;
    long l0 = live_blocks();
    struct D { long& d; long l0; ~D() { d = live_blocks() - l0; } } dd = {t_delta, l0};
    try { tval = f(); tcode = 0; }
    catch (const std::bad_alloc& e) { tcode = PPL_ERROR_OUT_OF_MEMORY; twhat = e.what(); }
    catch (const std::invalid_argument& e) { tcode = PPL_ERROR_INVALID_ARGUMENT; twhat = e.what(); }
    catch (const std::domain_error& e) { tcode = PPL_ERROR_DOMAIN_ERROR; twhat = e.what(); }
    catch (const std::length_error& e) { tcode = PPL_ERROR_LENGTH_ERROR; twhat = e.what(); }
    catch (const std::overflow_error& e) { tcode = PPL_ARITHMETIC_OVERFLOW; twhat = e.what(); }
    catch (const std::logic_error& e) { tcode = PPL_ERROR_LOGIC_ERROR; twhat = e.what(); }
    catch (const std::runtime_error& e) { tcode = PPL_ERROR_INTERNAL_ERROR; twhat = e.what(); }
    catch (const std::exception& e) { tcode = PPL_ERROR_UNKNOWN_STANDARD_EXCEPTION; twhat = e.what(); }
    catch (...) { tcode = PPL_ERROR_UNEXPECTED_ERROR; twhat = "non-standard exception"; }
  }

  // the C call
  template <class F> void call(F f) {
    char marker; G.call_marker = &marker;
    G.hcalls = 0; G.hcode = 0;
    int saved = -1; FILE* tmp = 0;
    if (capture_stdout) { fflush(stdout); saved = dup(1); tmp = tmpfile(); dup2(fileno(tmp), 1); }
    if (G.mode == MODE_OOM) { G.alloc_count = 0; G.fail_at = oom_kcur; G.failed = false; G.armed = true; }
    live_before = live_blocks();
    try { rc = f(); }
    catch (const std::exception& e) { G.armed = false; escaped = true; escwhat = std::string(typeid(e).name()) + ": " + e.what(); }
    catch (...) { G.armed = false; escaped = true; escwhat = "non-standard exception"; }
    G.armed = false;
    live_after = live_blocks(); c_delta = live_after - live_before;
    if (capture_stdout) {
      fflush(stdout); dup2(saved, 1); close(saved);
      rewind(tmp); char buf[4096]; size_t n; while ((n = fread(buf, 1, sizeof buf, tmp)) > 0) cout_text.append(buf, n);
      fclose(tmp);
    }
    hcalls = G.hcalls; hcode = G.hcode;
  }

  static const char* code_name(int c) {
    switch (c) {
      case PPL_ERROR_OUT_OF_MEMORY: return "PPL_ERROR_OUT_OF_MEMORY"; case PPL_ERROR_INVALID_ARGUMENT: return "PPL_ERROR_INVALID_ARGUMENT";
      case PPL_ERROR_DOMAIN_ERROR: return "PPL_ERROR_DOMAIN_ERROR"; case PPL_ERROR_LENGTH_ERROR: return "PPL_ERROR_LENGTH_ERROR";
      case PPL_ARITHMETIC_OVERFLOW: return "PPL_ARITHMETIC_OVERFLOW"; case PPL_STDIO_ERROR: return "PPL_STDIO_ERROR";
      case PPL_ERROR_INTERNAL_ERROR: return "PPL_ERROR_INTERNAL_ERROR"; case PPL_ERROR_UNKNOWN_STANDARD_EXCEPTION: return "PPL_ERROR_UNKNOWN_STANDARD_EXCEPTION";
      case PPL_ERROR_UNEXPECTED_ERROR: return "PPL_ERROR_UNEXPECTED_ERROR"; case PPL_TIMEOUT_EXCEPTION: return "PPL_TIMEOUT_EXCEPTION";
      case PPL_ERROR_LOGIC_ERROR: return "PPL_ERROR_LOGIC_ERROR"; default: return "(no error)";
    }
  }
  std::string rcs(int c) const { return itos(c) + (c < 0 ? std::string(" ") + code_name(c) : std::string()); }

  // OOM mode, pass k >= 1: the k-th allocation inside the C call was made to fail
  void judge_oom() {
    vf::count(CNT_OOM_CALLS);
    if (!G.failed) { oom_more = false; return; }        // fewer than k allocations: done with this tuple
    vf::count(CNT_OOM_FAILS); vf::count(vf::CNT_TRANS); vf::count(CNT_THROW); vf::count(CNT_CODE0 + 2);
    oom_more = oom_kcur < G.oom_k;
    extra_trig = "allocation_failure";
    std::string det = "allocation " + itos(oom_kcur) + " of the call failed";
    if (escaped) { fail("oom:escaped-exception", "exception crossed the C boundary: " + escwhat, "PPL_ERROR_OUT_OF_MEMORY", det); return; }
    bool io = strstr(pattern, "print") || strstr(pattern, "ascii_dump") || strstr(pattern, "ascii_load");
    if (io && rc == PPL_STDIO_ERROR && hcalls == 0) return;   // the stream swallowed the exception and reported failure
    // the call was failing anyway (same error code as in the pass without injection, judged there) and the allocation
    // that failed was the one of the error message (an ostream swallows exceptions): the original error is still reported
    if (base_rc < 0 && rc == base_rc && hcalls == 1 && hcode == rc) return;
    if (rc != PPL_ERROR_OUT_OF_MEMORY) fail("oom:error-code", rcs(rc), rcs(PPL_ERROR_OUT_OF_MEMORY), det);
    else if (hcalls != 1 || hcode != PPL_ERROR_OUT_OF_MEMORY) fail("oom:handler", itos(hcalls) + " call(s), code " + rcs(hcode), "exactly 1 call with PPL_ERROR_OUT_OF_MEMORY", det);
  }

  void judge(Kind k) {
    vf::RefGuard g;
    if (G.mode == MODE_OOM) {
      if (oom_kcur > 0) { judge_oom(); tcode = PPL_ERROR_OUT_OF_MEMORY; return; }
      oom_more = G.alloc_count > 0; base_rc = rc; base_tcode = tcode;
    }
    vf::count(vf::CNT_TRANS);
    ++compared;
    if (G.covered) G.covered[item] = 1;
    if (escaped) { fail("capi:escaped-exception", "exception crossed the C boundary: " + escwhat, "error code " + rcs(tcode)); return; }
    if (tcode == 0) {
      vf::count(CNT_NORMAL);
      if (hcalls != 0) fail("capi:handler-called-on-success", itos(hcalls) + " handler call(s), code " + rcs(hcode) + ", rc " + rcs(rc), "no handler call (C++ returned normally)");
      bool ok = true;
      std::string exp;
      switch (k) {
        case K_VOID: ok = (rc >= 0); exp = ">= 0"; break;
        case K_BOOL: ok = (tval ? rc > 0 : rc == 0); exp = tval ? "> 0 (true)" : "0 (false)"; break;
        case K_INT:  ok = (rc == (int)tval); exp = itos(tval); break;
        case K_LOAD: ok = (tval ? rc == 0 : rc == PPL_STDIO_ERROR); exp = tval ? "0" : "PPL_STDIO_ERROR"; break;
      }
      if (!ok) fail("capi:return-value", rcs(rc), exp, "C++ operation returned normally");
      if (rc < 0 && k != K_LOAD && k != K_INT) return;      // outputs are meaningless after a (wrong) error return
      // the wrapper runs the same C++ code as the twin (which ran first and warmed every cache): it may not keep more memory
      if (c_delta > t_delta + extra_new && G.mode == MODE_MAIN)
        fail("life:leak", "the C call left " + itos(c_delta) + " more live ::operator new blocks", "at most " + itos(t_delta) + " (the C++ operation on the twin)");
    } else {
      vf::count(CNT_THROW);
      if (tcode <= -2 && tcode >= -12) vf::count(CNT_CODE0 + (-tcode));
      if (rc != tcode) { fail("capi:error-code", rcs(rc), rcs(tcode), "C++ threw: " + brief(twhat, 160)); return; }   // everything else is consequential
      if (hcalls != 1 || hcode != tcode)
        fail("capi:handler", itos(hcalls) + " call(s), code " + rcs(hcode), "exactly 1 call with code " + rcs(tcode), "C++ threw: " + brief(twhat, 160));
    }
    stop_checks = false;
    for (size_t i = 0; i < args.size() && !stop_checks; ++i) args[i]->check(*this, tcode != 0);
  }

  // user-level expectation inside a stub
  void expect(bool c, const char* clause, const std::string& obs, const std::string& exp) { if (!c) fail(clause, obs, exp); }
};

// ------------------------------------------------------------------------------------------------
// menus of the syntactic types
// ------------------------------------------------------------------------------------------------
struct Lab { std::string label; std::string trig; };

template <class T> struct Menu;     // count(), make(i) (new T), lab(i)

inline Variable vA() { return Variable(0); }
inline Variable vB() { return Variable(1); }
inline Variable vC() { return Variable(2); }
inline Variable vD() { return Variable(3); }

inline int tier(int quick, int thorough) { return G.thorough ? thorough : quick; }

template <> struct Menu<Coefficient> {
  static int count() { return tier(4, 6); }
  static Coefficient* make(int i) { static const int v[] = {1, 2, 0, -1, 3, -2}; return new Coefficient(v[i]); }
  static std::string lab(int i) { static const char* v[] = {"1", "2", "0", "-1", "3", "-2"}; return v[i]; }
  static std::string trig(int) { return ""; }
};

inline Linear_Expression le_of(int i) {
  Variable A = vA(), B = vB(), C = vC();
  switch (i) {
    case 0: return Linear_Expression(A);
    case 1: return A + B;
    case 2: return Linear_Expression(0);
    case 3: return 2 * A - B + 1;
    case 4: return Linear_Expression(C);
    case 5: return 3 - A;
    case 6: return Linear_Expression(2);
    case 7: return Linear_Expression(B);
    default: return A - B;
  }
}
template <> struct Menu<Linear_Expression> {
  static int count() { return tier(6, 9); }
  static Linear_Expression* make(int i) { return new Linear_Expression(le_of(i)); }
  static std::string lab(int i) { static const char* v[] = {"A", "A+B", "0", "2A-B+1", "C", "3-A", "2", "B", "A-B"}; return v[i]; }
  static std::string trig(int) { return ""; }
};

inline Constraint con_of(int i) {
  Variable A = vA(), B = vB(), C = vC();
  switch (i) {
    case 0: return A >= 0;
    case 1: return A + B <= 2;
    case 2: return A > 0;                    // strict: topology-incompatible with C polyhedra
    case 3: return C >= 0;                   // 3 dimensions: dimension-incompatible with the small objects
    case 4: return A == 1;
    case 5: return Constraint::zero_dim_false();
    case 6: return A - B >= 0;
    case 7: return A + 2 * B >= 1;           // neither a bounded difference nor octagonal
    case 8: return 2 * A == 1;
    case 9: return Constraint::zero_dim_positivity();
    default: return B <= 1;
  }
}
template <> struct Menu<Constraint> {
  static int count() { return tier(8, 11); }
  static Constraint* make(int i) { return new Constraint(con_of(i)); }
  static std::string lab(int i) { static const char* v[] = {"A>=0", "A+B<=2", "A>0", "C>=0", "A==1", "0d-false", "A-B>=0", "A+2B>=1", "2A==1", "0d-positivity", "B<=1"}; return v[i]; }
  static std::string trig(int) { return ""; }
};

inline Constraint_System cs_of(int i) {
  Variable A = vA(), B = vB(), C = vC();
  Constraint_System cs;
  switch (i) {
    case 0: break;
    case 1: cs.insert(A >= 0); cs.insert(A <= 2); break;
    case 2: cs.insert(A >= 0); cs.insert(B >= 0); cs.insert(A + B <= 2); break;
    case 3: cs.insert(A > 0); break;
    case 4: cs.insert(C >= 0); break;
    case 5: return Constraint_System::zero_dim_empty();
    case 6: cs.insert(A == B); break;
    case 7: cs.insert(A >= 1); cs.insert(A <= 0); break;
    case 8: cs.insert(A + 2 * B >= 1); break;
    default: cs.insert(B <= 4); cs.insert(A <= 4); break;
  }
  return cs;
}
template <> struct Menu<Constraint_System> {
  static int count() { return tier(7, 10); }
  static Constraint_System* make(int i) { return new Constraint_System(cs_of(i)); }
  static std::string lab(int i) { static const char* v[] = {"{}", "{A>=0,A<=2}", "{A>=0,B>=0,A+B<=2}", "{A>0}", "{C>=0}", "0d-empty", "{A==B}", "{A>=1,A<=0}", "{A+2B>=1}", "{B<=4,A<=4}"}; return v[i]; }
  static std::string trig(int) { return ""; }
};

inline Generator gen_of(int i) {
  Variable A = vA(), B = vB(), C = vC();
  switch (i) {
    case 0: return point(A);
    case 1: return point(A + 2 * B);
    case 2: return ray(A);
    case 3: return Generator::zero_dim_point();
    case 4: return closure_point(A + B);     // topology-incompatible with C polyhedra
    case 5: return point(A + B + C);         // 3 dimensions
    case 6: return line(B);
    case 7: return point(A, 2);
    case 8: return ray(A + B);
    default: return point(0 * B);
  }
}
template <> struct Menu<Generator> {
  static int count() { return tier(7, 10); }
  static Generator* make(int i) { return new Generator(gen_of(i)); }
  static std::string lab(int i) { static const char* v[] = {"p(A)", "p(A+2B)", "r(A)", "0d-point", "c(A+B)", "p(A+B+C)", "l(B)", "p(A)/2", "r(A+B)", "p(0B)"}; return v[i]; }
  static std::string trig(int) { return ""; }
};

inline Generator_System gs_of(int i) {
  Variable A = vA(), B = vB(), C = vC();
  Generator_System gs;
  switch (i) {
    case 0: break;
    case 1: gs.insert(point(0 * A)); gs.insert(point(2 * A)); break;
    case 2: gs.insert(point(0 * B)); gs.insert(point(A)); gs.insert(point(B)); break;
    case 3: gs.insert(ray(A)); break;                                   // no point: invalid
    case 4: return Generator_System::zero_dim_univ();
    case 5: gs.insert(point(0 * B)); gs.insert(ray(A)); gs.insert(line(B)); break;
    case 6: gs.insert(closure_point(0 * A)); gs.insert(point(A)); break;    // NNC only
    case 7: gs.insert(point(A + B + C)); break;
    default: gs.insert(point(A + B, 2)); gs.insert(point(0 * B)); break;
  }
  return gs;
}
template <> struct Menu<Generator_System> {
  static int count() { return tier(7, 9); }
  static Generator_System* make(int i) { return new Generator_System(gs_of(i)); }
  static std::string lab(int i) { static const char* v[] = {"{}", "{p(0),p(2A)}", "{p(0),p(A),p(B)}", "{r(A)}", "0d-univ", "{p(0),r(A),l(B)}", "{c(0),p(A)}", "{p(A+B+C)}", "{p(A+B)/2,p(0)}"}; return v[i]; }
  static std::string trig(int) { return ""; }
};

inline Congruence cg_of(int i) {
  Variable A = vA(), B = vB(), C = vC();
  switch (i) {
    case 0: return (A %= 0) / 2;
    case 1: return (A + B %= 1) / 3;
    case 2: return (A %= 0) / 0;             // equality
    case 3: return (C %= 0) / 2;
    case 4: return Congruence::zero_dim_integrality();
    case 5: return Congruence::zero_dim_false();
    case 6: return (A - B %= 0) / 2;
    default: return (B %= 1) / 2;
  }
}
template <> struct Menu<Congruence> {
  static int count() { return tier(6, 8); }
  static Congruence* make(int i) { return new Congruence(cg_of(i)); }
  static std::string lab(int i) { static const char* v[] = {"A=0m2", "A+B=1m3", "A=0m0", "C=0m2", "0d-integrality", "0d-false", "A-B=0m2", "B=1m2"}; return v[i]; }
  static std::string trig(int) { return ""; }
};

inline Congruence_System cgs_of(int i) {
  Variable A = vA(), B = vB(), C = vC();
  Congruence_System cs;
  switch (i) {
    case 0: break;
    case 1: cs.insert((A %= 0) / 2); break;
    case 2: cs.insert((A %= 0) / 2); cs.insert((B %= 1) / 2); break;
    case 3: cs.insert((C %= 0) / 2); break;
    case 4: cs.insert((A %= 1) / 0); break;
    case 5: return Congruence_System::zero_dim_empty();
    default: cs.insert((A + B %= 0) / 3); break;
  }
  return cs;
}
template <> struct Menu<Congruence_System> {
  static int count() { return tier(6, 7); }
  static Congruence_System* make(int i) { return new Congruence_System(cgs_of(i)); }
  static std::string lab(int i) { static const char* v[] = {"{}", "{A=0m2}", "{A=0m2,B=1m2}", "{C=0m2}", "{A==1}", "0d-empty", "{A+B=0m3}"}; return v[i]; }
  static std::string trig(int) { return ""; }
};

inline Grid_Generator gg_of(int i) {
  Variable A = vA(), B = vB(), C = vC();
  switch (i) {
    case 0: return grid_point(A);
    case 1: return grid_point(A + B);
    case 2: return parameter(2 * A);
    case 3: return Grid_Generator::zero_dim_point();
    case 4: return grid_line(B);
    case 5: return grid_point(C);
    case 6: return parameter(A + B, 2);
    default: return grid_point(A, 2);
  }
}
template <> struct Menu<Grid_Generator> {
  static int count() { return tier(6, 8); }
  static Grid_Generator* make(int i) { return new Grid_Generator(gg_of(i)); }
  static std::string lab(int i) { static const char* v[] = {"gp(A)", "gp(A+B)", "q(2A)", "0d-point", "gl(B)", "gp(C)", "q(A+B)/2", "gp(A)/2"}; return v[i]; }
  static std::string trig(int) { return ""; }
};

inline Grid_Generator_System ggs_of(int i) {
  Variable A = vA(), B = vB(), C = vC();
  Grid_Generator_System gs;
  switch (i) {
    case 0: break;
    case 1: gs.insert(grid_point(0 * A)); gs.insert(parameter(2 * A)); break;
    case 2: gs.insert(grid_point(0 * B)); gs.insert(parameter(A)); gs.insert(parameter(B)); break;
    case 3: gs.insert(parameter(A)); break;                 // no point
    case 4: return Grid_Generator_System::zero_dim_univ();
    case 5: gs.insert(grid_point(0 * B)); gs.insert(grid_line(A)); break;
    default: gs.insert(grid_point(C)); break;
  }
  return gs;
}
template <> struct Menu<Grid_Generator_System> {
  static int count() { return tier(6, 7); }
  static Grid_Generator_System* make(int i) { return new Grid_Generator_System(ggs_of(i)); }
  static std::string lab(int i) { static const char* v[] = {"{}", "{gp(0),q(2A)}", "{gp(0),q(A),q(B)}", "{q(A)}", "0d-univ", "{gp(0),gl(A)}", "{gp(C)}"}; return v[i]; }
  static std::string trig(int) { return ""; }
};

// ---- MIP / PIP problems
template <> struct Menu<MIP_Problem> {
  static int count() { return tier(7, 8); }
  static MIP_Problem* make(int i) {
    Variable A = vA(), B = vB();
    switch (i) {
      case 0: return new MIP_Problem(1, cs_of(1), A, MAXIMIZATION);
      case 1: { MIP_Problem* m = new MIP_Problem(2, cs_of(2), A + B, MAXIMIZATION); m->add_to_integer_space_dimensions(Variables_Set(A)); return m; }
      case 2: return new MIP_Problem();
      case 3: return new MIP_Problem(1, cs_of(7), A, MAXIMIZATION);                  // unfeasible
      case 4: { Constraint_System cs; cs.insert(A >= 0); return new MIP_Problem(1, cs, A, MAXIMIZATION); }  // unbounded
      case 5: { MIP_Problem* m = new MIP_Problem(2, cs_of(2), A - B, MINIMIZATION); (void) m->solve(); return m; }   // already solved
      case 6: return new MIP_Problem(2);
      default: { Constraint_System cs; cs.insert(2 * A <= 3); cs.insert(A >= 0);
                 MIP_Problem* m = new MIP_Problem(1, cs, A, MAXIMIZATION); m->add_to_integer_space_dimensions(Variables_Set(A)); return m; }
    }
  }
  static std::string lab(int i) { static const char* v[] = {"1d max A in [0,2]", "2d max A+B triangle int A", "0d", "1d unfeasible", "1d unbounded", "2d min A-B solved", "2d no constraints", "1d int 2A<=3"}; return v[i]; }
  static std::string trig(int) { return ""; }
};

template <> struct Menu<PIP_Problem> {
  static int count() { return tier(7, 8); }
  static PIP_Problem* make(int i) {
    Variable A = vA(), B = vB(), C = vC();
    switch (i) {
      case 0: { PIP_Problem* p = new PIP_Problem(2); p->add_to_parameter_space_dimensions(Variables_Set(B));
                p->add_constraint(A >= 0); p->add_constraint(A <= B); return p; }
      case 1: { PIP_Problem* p = new PIP_Problem(2); p->add_to_parameter_space_dimensions(Variables_Set(B));
                p->add_constraint(2 * A >= B); p->add_constraint(A <= 5); (void) p->solve(); return p; }   // solved: decision + artificial parameter
      case 2: return new PIP_Problem();
      case 3: { PIP_Problem* p = new PIP_Problem(1); p->add_constraint(A >= 1); p->add_constraint(A <= 0); return p; }   // unfeasible
      case 4: return new PIP_Problem(2);
      case 5: { PIP_Problem* p = new PIP_Problem(3); p->add_to_parameter_space_dimensions(Variables_Set(C));
                p->add_constraint(A + B >= C); p->add_constraint(A >= 0); p->add_constraint(B >= 0); p->add_constraint(A <= 3); (void) p->solve(); return p; }
      case 6: { Variable D = vD(); PIP_Problem* p = new PIP_Problem(4); Variables_Set ps(C, D); p->add_to_parameter_space_dimensions(ps);
                p->add_constraint(3 * B >= -2 * A + 8); p->add_constraint(B <= 4 * A - 4); p->add_constraint(B <= D); p->add_constraint(A <= C); (void) p->solve(); return p; }
      default: { PIP_Problem* p = new PIP_Problem(1); p->add_constraint(A >= 0); (void) p->solve(); return p; }
    }
  }
  static std::string lab(int i) { static const char* v[] = {"2d A in [0,B] param B", "2d 2A>=B,A<=5 param B solved", "0d", "1d unfeasible", "2d empty cs", "3d param C solved", "4d params C,D solved (decision nodes)", "1d A>=0 solved"}; return v[i]; }
  static std::string trig(int) { return ""; }
};

// ------------------------------------------------------------------------------------------------
// menus of the domains: built from small constraint / congruence systems through the generic
// refine_with_* methods (available for every interfaced domain)
// ------------------------------------------------------------------------------------------------
enum { DK_ALL = 1, DK_GRID = 2, DK_NNC = 4, DK_PSET = 8 };
template <class T> struct DomKind { enum { mask = DK_ALL }; };
template <> struct DomKind<NNC_Polyhedron> { enum { mask = DK_ALL | DK_NNC }; };
template <> struct DomKind<Grid> { enum { mask = DK_ALL | DK_GRID }; };
template <class A, class B> struct DomKind<Partially_Reduced_Product<A, B, Constraints_Reduction<A, B> > > { enum { mask = DK_ALL | DK_GRID }; };
template <> struct DomKind<Pointset_Powerset<C_Polyhedron> > { enum { mask = DK_ALL | DK_PSET }; };
template <> struct DomKind<Pointset_Powerset<NNC_Polyhedron> > { enum { mask = DK_ALL | DK_PSET | DK_NNC }; };

struct DomEntry { int dim; int empty; int cs; int cgs; int touch; int kinds; int thorough_only; const char* label; };
// cs / cgs: index into cs_of / cgs_of (-1 none); touch: 1 = call is_empty() once (lazy state after a query)
static const DomEntry DOM_ENTRIES[] = {
  {2, 0,  2, -1, 0, DK_ALL, 0, "2d-triangle"},
  {2, 0, -1, -1, 0, DK_ALL, 0, "2d-universe"},
  {1, 0,  1, -1, 0, DK_ALL, 0, "1d-[0,2]"},
  {2, 1, -1, -1, 0, DK_ALL, 0, "2d-empty"},
  {0, 0, -1, -1, 0, DK_ALL, 0, "0d-universe"},
  {1, 0,  7, -1, 0, DK_ALL, 0, "1d-infeasible-unmarked"},
  {2, 0,  6, -1, 1, DK_ALL, 0, "2d-A==B-touched"},
  {2, 0, -1,  2, 0, DK_GRID, 0, "2d-lattice"},
  {1, 0,  3, -1, 0, DK_NNC, 0, "1d-A>0"},
  {2, 0,  2, -1, 2, DK_PSET, 0, "2d-triangle+segment"},
  {0, 1, -1, -1, 0, DK_ALL, 0, "0d-empty"},
  {1, 0, -1, -1, 0, DK_ALL, 0, "1d-universe"},
  {2, 0,  9, -1, 0, DK_ALL, 0, "2d-A,B<=4"},
  {1, 1, -1, -1, 0, DK_ALL, 1, "1d-empty"},
  {3, 0,  4, -1, 0, DK_ALL, 1, "3d-C>=0"},
  {2, 0,  2, -1, 1, DK_ALL, 1, "2d-triangle-touched"},
  {1, 0, -1,  1, 0, DK_GRID, 1, "1d-even"},
  {4, 0,  6, -1, 0, DK_ALL, 1, "4d-A==B"},
};
enum { N_DOM_ENTRIES = sizeof(DOM_ENTRIES) / sizeof(DOM_ENTRIES[0]) };

template <class T> inline void add_second_disjunct(T&, ...) {}
template <class PH> inline void add_second_disjunct(Pointset_Powerset<PH>& ps, int) {
  PH d(ps.space_dimension(), UNIVERSE);
  Constraint_System cs; cs.insert(vA() >= 3); cs.insert(vA() <= 4); cs.insert(vB() == 0);
  d.refine_with_constraints(cs);
  ps.add_disjunct(d);
}

template <class T> struct DomMenu {
  static std::vector<int>& sel() {
    static std::vector<int> s; static int built_for = -1;
    if (built_for != (int)G.thorough) {
      s.clear();
      for (int i = 0; i < N_DOM_ENTRIES; ++i)
        if ((DOM_ENTRIES[i].kinds & (int)DomKind<T>::mask) && (G.thorough || !DOM_ENTRIES[i].thorough_only)) s.push_back(i);
      built_for = (int)G.thorough;
    }
    return s;
  }
  static int count() { return (int)sel().size(); }
  static T* make(int i) {
    const DomEntry& e = DOM_ENTRIES[sel()[i]];
    T* x = new T(e.dim, e.empty ? EMPTY : UNIVERSE);
    if (e.cs >= 0) x->refine_with_constraints(cs_of(e.cs));
    if (e.cgs >= 0) x->refine_with_congruences(cgs_of(e.cgs));
    if (e.touch == 1) (void) x->is_empty();
    if (e.touch == 2) add_second_disjunct(*x, 0);
    return x;
  }
  static std::string lab(int i) { return DOM_ENTRIES[sel()[i]].label; }
  static std::string trig(int) { return ""; }
};
template <class T> struct Menu : DomMenu<T> {};

// the handle type ppl_Polyhedron_t covers both topologies
template <> struct Menu<Polyhedron> {
  static int nc() { return DomMenu<C_Polyhedron>::count(); }
  static int count() { return nc() + DomMenu<NNC_Polyhedron>::count(); }
  static Polyhedron* make(int i) { return i < nc() ? static_cast<Polyhedron*>(DomMenu<C_Polyhedron>::make(i)) : static_cast<Polyhedron*>(DomMenu<NNC_Polyhedron>::make(i - nc())); }
  static std::string lab(int i) { return i < nc() ? "C:" + DomMenu<C_Polyhedron>::lab(i) : "NNC:" + DomMenu<NNC_Polyhedron>::lab(i - nc()); }
  static std::string trig(int) { return ""; }
};

inline bool is_nc(const Polyhedron& p) { return Interfaces::is_necessarily_closed_for_interfaces(p); }

// ------------------------------------------------------------------------------------------------
// Obj<T>: a handle to an object of C++ type T
// ------------------------------------------------------------------------------------------------
enum Mode { CST, MUT, NEW, REF, DEL };
typedef int (*DelFn)(const void*);

template <class T> struct Obj : Arg {
  Mode m;
  T* c; T* tw;              // C side / twin (CST, MUT, DEL)
  void* cslot;              // NEW / REF: the slot the C function writes the handle to
  T* tnewp;                 // NEW: twin result
  const T* trefp;           // REF: twin result (a copy owned by the role: several C++ getters return by value)
  DelFn cdel;
  int limit, base;          // menu entries base .. base+limit-1 (out parameters are pre-loaded with a non-trivial entry)
  static void* sent() { return reinterpret_cast<void*>(0x5e); }   // out slots are pre-loaded with a non-null sentinel
  bool unset() const { return cslot == 0 || cslot == sent(); }
  Obj(Run& R, const char* pn, Mode mode, DelFn d = 0, int lim = 0, int b = 0) : m(mode), c(0), tw(0), cslot(0), tnewp(0), trefp(0), cdel(d), limit(lim), base(b) { R.add(this, pn); }
  int count() const { if (m == NEW || m == REF) return 1; int n = Menu<T>::count() - base; return (limit > 0 && limit < n) ? limit : n; }
  void build(int i) {
    cslot = 0; tnewp = 0; trefp = 0; c = tw = 0;
    if (m == NEW || m == REF) { cslot = sent(); return; }
    c = Menu<T>::make(base + i); tw = Menu<T>::make(base + i);
  }
  void destroy() {
    if (m == NEW) {
      if (!unset()) { if (cdel) { if (cdel(cslot) != 0) fprintf(stderr, "c20: delete function failed\n"); } else delete static_cast<T*>(cslot); }
      delete tnewp;
    } else if (m == REF) { delete trefp; } else { delete c; delete tw; }
    c = tw = 0; cslot = 0; tnewp = 0; trefp = 0;
  }
  // accessors used by the generated code
  void* p() { return c; }
  void** pp() { return &cslot; }
  T& t() { return *tw; }
  void tnew(T* x) { tnewp = x; }
  void tref(const T& x) { delete trefp; trefp = new T(x); }
  void tdel() { delete tw; tw = 0; }
  void cgone() { c = 0; }
  T& cobj() { return *c; }
  T* cnew() { return unset() ? 0 : static_cast<T*>(cslot); }

  void check(Run& R, bool threw) {
    if (m == CST || m == MUT) {
      if (!c || !tw) return;
      std::string a = dump(*c), b = dump(*tw);
      if (a != b) R.fail(m == CST ? "capi:const-handle-modified" : "capi:result-differs", std::string(pname) + " = " + brief(a), brief(b),
                         threw ? "after the C++ operation threw" : "");
    } else if (m == NEW && !threw) {
      if (unset()) { R.fail("capi:out-handle-unset", std::string("*") + pname + (cslot ? " not written, rc " : " set to null, rc ") + itos(R.rc), "handle of a new object"); R.stop_checks = true; return; }
      if (!tnewp) return;
      std::string a = dump(*static_cast<T*>(cslot)), b = dump(*tnewp);
      if (a != b) R.fail("capi:result-differs", std::string("*") + pname + " = " + brief(a), brief(b));
    } else if (m == REF && !threw) {
      if (!unset() && on_dead_stack(cslot)) {
        R.extra_trig = "handle_into_dead_frame";
        R.fail("capi:dangling-handle", std::string("*") + pname + " points into the stack frame of the returned C function (address of a temporary)", "handle of an object that outlives the call");
        R.extra_trig.clear();
        return;
      }
      if (unset()) { R.fail("capi:out-handle-unset", std::string("*") + pname + " not written, rc " + itos(R.rc), "handle of the result"); return; }
      if (!trefp) return;
      std::string a = dump(*static_cast<const T*>(cslot)), b = dump(*trefp);
      if (a != b) R.fail("capi:result-differs", std::string("*") + pname + " = " + brief(a), brief(b));
    }
  }
  std::string show() const { if (m == NEW) return "(out: new handle)"; if (m == REF) return "(out: const handle)"; return Menu<T>::lab(base + cur); }
  std::string trig() const { if (m == NEW || m == REF) return ""; return Menu<T>::trig(base + cur); }
};

// ------------------------------------------------------------------------------------------------
// scalar parameters
// ------------------------------------------------------------------------------------------------
struct IntMenu { const long long* v; int nq, nt; const char* const* trigs; };

struct Scalar : Arg {
  std::vector<long long> vals; std::vector<std::string> trigs;
  long long v;
  Scalar(Run& R, const char* pn) : v(0) { R.add(this, pn); }
  Scalar& add(long long x, const char* trg = "") { vals.push_back(x); trigs.push_back(trg); return *this; }
  int count() const { return (int)vals.size(); }
  void build(int i) { v = vals[i]; }
  void destroy() {}
  std::string show() const { return itos(v); }
  std::string trig() const { return trigs[cur]; }
};

// space dimensions / variable indices
struct Dim : Scalar {
  Dim(Run& R, const char* pn) : Scalar(R, pn) {
    add(0); add(1); add(2); add(3); add((long long)(size_t)-1);
    if (G.thorough) { add(4); add((long long)(max_space_dimension() + 1)); add((long long)max_space_dimension()); }
  }
  size_t d() const { return (size_t)v; }
  std::string show() const { return (size_t)v == (size_t)-1 ? "SIZE_MAX" : std::to_string((size_t)v); }
};
// dimensions to be *added* (never huge but legal values: those would really allocate)
struct DimSmall : Scalar {
  DimSmall(Run& R, const char* pn) : Scalar(R, pn) { add(0); add(1); add(2); add((long long)(size_t)-1); if (G.thorough) add(3); }
  size_t d() const { return (size_t)v; }
  std::string show() const { return (size_t)v == (size_t)-1 ? "SIZE_MAX" : std::to_string((size_t)v); }
};

// out parameters: a slot with a sentinel on the C side, a twin value
template <class V> struct Out : Arg {
  V c, t; V sentinel;
  bool checked;
  Out(Run& R, const char* pn, V s) : sentinel(s), checked(true) { R.add(this, pn); }
  int count() const { return 1; }
  void build(int) { c = sentinel; t = sentinel; }
  void destroy() {}
  V* p() { return &c; }
  void check(Run& R, bool threw) {
    if (threw || !checked) return;
    if (!(c == t)) R.fail("capi:result-differs", std::string("*") + pname + " = " + itos((long long)c), itos((long long)t));
  }
  std::string show() const { return "(out)"; }
};

// in/out token counter
struct Tokens : Arg {
  unsigned c, t;
  Tokens(Run& R, const char* pn) { R.add(this, pn); }
  int count() const { return G.thorough ? 3 : 2; }
  void build(int i) { static const unsigned v[] = {0, 2, 1}; c = t = v[i]; }
  void destroy() {}
  unsigned* p() { return &c; }
  unsigned* tp() { return &t; }
  void check(Run& R, bool) { if (c != t) R.fail("capi:result-differs", std::string("*") + pname + " = " + itos(c), itos(t)); }
  std::string show() const { return "tokens"; }
};

// arrays of dimensions + length
struct DimArr : Arg {
  std::vector<size_t> c, t, orig;
  bool mapping;    // menu for map_space_dimensions (partial injective maps)
  DimArr(Run& R, const char* pn, bool map = false) : mapping(map) { R.add(this, pn); }
  int count() const { return mapping ? tier(7, 9) : tier(7, 9); }
  void build(int i) {
    static const size_t NAD = (size_t)-1;
    c.clear();
    if (!mapping) {
      switch (i) {
        case 0: c.push_back(0); break;
        case 1: break;                                   // length 0
        case 2: c.push_back(1); c.push_back(0); break;
        case 3: c.push_back(0); c.push_back(0); break;   // repeated entry
        case 4: c.push_back(2); break;                   // out of range for <= 2 dimensions
        case 5: c.push_back(1); break;
        case 6: c.push_back(NAD); break;                 // not a dimension at all
        case 7: c.push_back(0); c.push_back(1); c.push_back(2); break;
        default: c.push_back(3); c.push_back(1); break;
      }
    } else {
      switch (i) {
        case 0: c.push_back(1); c.push_back(0); break;   // swap
        case 1: break;                                   // nothing mapped
        case 2: c.push_back(0); break;
        case 3: c.push_back(NAD); c.push_back(0); break; // drop A, B -> A
        case 4: c.push_back(0); c.push_back(1); break;   // identity
        case 5: c.push_back(NAD); break;
        case 6: c.push_back(0); c.push_back(1); c.push_back(2); break;
        case 7: c.push_back(2); c.push_back(0); c.push_back(1); break;
        default: c.push_back(NAD); c.push_back(NAD); break;
      }
    }
    t = c; orig = c;
    c.push_back(0xdeadbeef); // guard element beyond n
  }
  void destroy() {}
  size_t* p() { return c.data(); }
  size_t n() const { return orig.size(); }
  // the C++ client's view: a Variables_Set built through the checked Variable constructor
  Variables_Set vs() const { Variables_Set s; for (size_t i = 0; i < t.size(); ++i) s.insert(Variable(t[i])); return s; }
  void check(Run& R, bool) {
    bool same = c.size() == orig.size() + 1 && c.back() == 0xdeadbeef;
    for (size_t i = 0; same && i < orig.size(); ++i) same = c[i] == orig[i];
    if (!same) R.fail("capi:input-array-modified", std::string(pname) + " changed", "unchanged input array");
  }
  std::string show() const {
    std::string s = "[";
    for (size_t i = 0; i < orig.size(); ++i) { if (i) s += ","; s += orig[i] == (size_t)-1 ? "SIZE_MAX" : std::to_string(orig[i]); }
    return s + "]";
  }
  std::string trig() const { for (size_t i = 0; i < orig.size(); ++i) if (orig[i] == (size_t)-1) return mapping ? "" : "ds_has_not_a_dimension"; return ""; }
};

// partial function for the twin of map_space_dimensions (independent of Array_Partial_Function_Wrapper)
struct PFunc {
  std::vector<size_t> v;
  explicit PFunc(const std::vector<size_t>& x) : v(x) {}
  bool has_empty_codomain() const { for (size_t i = 0; i < v.size(); ++i) if (v[i] != (size_t)-1) return false; return true; }
  dimension_type max_in_codomain() const { size_t m = 0; bool any = false; for (size_t i = 0; i < v.size(); ++i) if (v[i] != (size_t)-1 && (!any || v[i] > m)) { m = v[i]; any = true; } return any ? m : (size_t)-1; }
  bool maps(dimension_type i, dimension_type& j) const { if (i >= v.size() || v[i] == (size_t)-1) return false; j = v[i]; return true; }
};

// output array of dimensions (no length parameter): MIP integer dimensions / PIP parameters
struct DimArrOut : Arg {
  std::vector<size_t> c, t;
  DimArrOut(Run& R, const char* pn) { R.add(this, pn); }
  int count() const { return 1; }
  void build(int) { c.assign(8, 0xabcdef); t.clear(); }
  void destroy() {}
  size_t* p() { return c.data(); }
  void set(const Variables_Set& s) { t.assign(s.begin(), s.end()); }
  void check(Run& R, bool threw) {
    if (threw) return;
    bool ok = true;
    for (size_t i = 0; i < c.size(); ++i) ok = ok && (i < t.size() ? c[i] == t[i] : c[i] == 0xabcdef);
    if (!ok) R.fail("capi:result-differs", std::string(pname) + " differs", "the elements of the C++ Variables_Set, nothing written beyond");
  }
  std::string show() const { return "(out array)"; }
};

// FILE* written by the C function (ascii_dump, fprint): compared with the text the twin wrote
struct FileW : Arg {
  FILE* f; std::string t; std::string got;
  FileW(Run& R, const char* pn) : f(0) { R.add(this, pn); }
  int count() const { return 1; }
  void build(int) { f = tmpfile(); t.clear(); got.clear(); }
  void destroy() { if (f) fclose(f); f = 0; }
  FILE* p() { return f; }
  void check(Run& R, bool threw) {
    if (threw) return;
    fflush(f); rewind(f); char buf[4096]; size_t n; got.clear(); while ((n = fread(buf, 1, sizeof buf, f)) > 0) got.append(buf, n);
    if (got != t) R.fail("capi:output-differs", brief(got), brief(t));
  }
  std::string show() const { return "(tmpfile)"; }
};

// FILE* read by the C function (ascii_load): dumps of menu entries of T, plus damaged text
template <class T> struct FileR : Arg {
  FILE* f; std::string text; std::istringstream* is_;
  FileR(Run& R, const char* pn) : f(0), is_(0) { R.add(this, pn); }
  int count() const { int n = Menu<T>::count(); if (n > 3) n = 3; return n + 2; }
  void build(int i) {
    int n = count() - 2;
    if (i < n) { T* x = Menu<T>::make(i); text = dump(*x); delete x; }
    else if (i == n) { T* x = Menu<T>::make(0); text = dump(*x); delete x; text = text.substr(0, text.size() / 2); }
    else text = "garbage 1 2 3\n";
    f = tmpfile(); fwrite(text.data(), 1, text.size(), f); rewind(f);
    is_ = new std::istringstream(text);
  }
  void destroy() { if (f) fclose(f); f = 0; delete is_; is_ = 0; }
  FILE* p() { return f; }
  std::istream& is() { return *is_; }
  std::string show() const { int n = count() - 2; return cur < n ? "dump of " + Menu<T>::lab(cur) : cur == n ? "truncated dump" : "garbage"; }
};

// char** strp of the asprint functions
struct StrOut : Arg {
  char* c; std::string t;
  StrOut(Run& R, const char* pn) : c(0) { R.add(this, pn); }
  int count() const { return 1; }
  void build(int) { c = 0; t.clear(); }
  void destroy() { if (c) free(c); c = 0; }
  char** p() { return &c; }
  void check(Run& R, bool threw) {
    if (threw) return;
    if (!c) { R.fail("capi:out-handle-unset", std::string("*") + pname + " is null", "malloc-allocated string"); return; }
    if (t != c) R.fail("capi:output-differs", brief(c), brief(t));
  }
  std::string show() const { return "(out string)"; }
};

// mpz_t
struct Mpz : Arg {
  mpz_t c; mpz_class t; bool out;
  Mpz(Run& R, const char* pn, bool o) : out(o) { mpz_init(c); R.add(this, pn); }
  ~Mpz() { mpz_clear(c); }
  int count() const { return out ? 1 : 4; }
  void build(int i) { static const long v[] = {5, 0, -3, 1L << 40}; long x = out ? 77 : v[i]; mpz_set_si(c, x); t = x; }
  void destroy() {}
  mpz_ptr p() { return c; }
  void check(Run& R, bool threw) { if (threw) return; if (mpz_cmp(c, t.get_mpz_t()) != 0) R.fail("capi:result-differs", std::string(pname) + " = " + mpz_class(c).get_str(), t.get_str()); }
  std::string show() const { return t.get_str(); }
};

// conversions of the C enumerations, written independently of ppl_c_implementation_common_inlines.hh
inline Relation_Symbol relsym(long long v) {
  switch (v) {
    case PPL_CONSTRAINT_TYPE_LESS_THAN: return LESS_THAN; case PPL_CONSTRAINT_TYPE_LESS_OR_EQUAL: return LESS_OR_EQUAL;
    case PPL_CONSTRAINT_TYPE_EQUAL: return EQUAL; case PPL_CONSTRAINT_TYPE_GREATER_OR_EQUAL: return GREATER_OR_EQUAL;
    default: return GREATER_THAN;
  }
}
inline Complexity_Class cclass(long long v) { return v == 0 ? POLYNOMIAL_COMPLEXITY : v == 1 ? SIMPLEX_COMPLEXITY : ANY_COMPLEXITY; }
inline Bounded_Integer_Type_Width bwidth(long long v) {
  switch (v) { case PPL_BITS_8: return BITS_8; case PPL_BITS_16: return BITS_16; case PPL_BITS_32: return BITS_32; case PPL_BITS_64: return BITS_64; default: return BITS_128; }
}
inline Bounded_Integer_Type_Representation brep(long long v) { return v == PPL_UNSIGNED ? UNSIGNED : SIGNED_2_COMPLEMENT; }
inline Bounded_Integer_Type_Overflow bovf(long long v) { return v == PPL_OVERFLOW_WRAPS ? OVERFLOW_WRAPS : v == PPL_OVERFLOW_UNDEFINED ? OVERFLOW_UNDEFINED : OVERFLOW_IMPOSSIBLE; }

struct RelSym : Scalar {
  RelSym(Run& R, const char* pn) : Scalar(R, pn) {
    add(PPL_CONSTRAINT_TYPE_GREATER_OR_EQUAL); add(PPL_CONSTRAINT_TYPE_EQUAL); add(PPL_CONSTRAINT_TYPE_LESS_THAN);
    add(PPL_CONSTRAINT_TYPE_LESS_OR_EQUAL); add(PPL_CONSTRAINT_TYPE_GREATER_THAN);
  }
};
struct Complexity : Scalar {
  Complexity(Run& R, const char* pn, bool with_invalid) : Scalar(R, pn) { add(2); add(0); add(1); if (with_invalid) add(3, "complexity_invalid"); }
};

// wrap_assign: const ppl_const_Constraint_System_t* pcs  (pointer to a handle that may be null)
struct CSPtr : Arg {
  Constraint_System* c; Constraint_System* t; const void* slot;
  CSPtr(Run& R, const char* pn) : c(0), t(0), slot(0) { R.add(this, pn); }
  int count() const { return 3; }
  void build(int i) {
    c = t = 0;
    if (i == 1) { c = new Constraint_System(cs_of(1)); t = new Constraint_System(cs_of(1)); }
    if (i == 2) { c = new Constraint_System(cs_of(4)); t = new Constraint_System(cs_of(4)); }
    slot = c;
  }
  void destroy() { delete c; delete t; c = t = 0; }
  const void* const* p() { return &slot; }
  const Constraint_System* tp() const { return t; }
  void check(Run& R, bool) { if (c && dump(*c) != dump(*t)) R.fail("capi:const-handle-modified", "*pcs changed", "unchanged"); }
  std::string show() const { return cur == 0 ? "null" : cur == 1 ? "{A>=0,A<=2}" : "{C>=0}"; }
};

// ------------------------------------------------------------------------------------------------
// entry point table
// ------------------------------------------------------------------------------------------------
struct Entry { const char* name; const char* pattern; const char* dom; void (*fn)(Run&); };
std::vector<Entry>& entries();
std::vector<std::string>& unmatched();           // prototypes no rule matched: machinery error
std::vector<std::string>& uncovered();           // prototypes deliberately not exercised ("name: reason")
std::vector<Entry>& life_entries();               // generated create -> op -> delete sequences (mode life)
std::vector<std::string>& manuals();             // prototypes exercised by hand-written scenarios of c20_main.cc
struct LifeRegistrar { LifeRegistrar(const Entry* e, int n); };
struct Registrar { Registrar(const Entry* e, int n, const char* const* um, int num, const char* const* uc, int nuc, const char* const* mn, int nmn); };

} // namespace c20
#endif

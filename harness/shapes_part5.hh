// shapes.cc part 5: triggers of known findings, representatives, phase B, converting constructors, main.
namespace {

// ------------------------------------------------------------------ known-finding triggers
// Narrow predicates over (operation, arguments, gamma of receiver / operand); evaluated only when a
// violation is about to be reported.  A violation at the same site that does not satisfy the
// predicate keeps trigger "none" and is therefore reported as a new VIOLATION.
#include "harness/shapes_triggers.hh"

// ------------------------------------------------------------------ representatives and operand pools
static std::vector<int> REPS;
static std::vector<std::vector<int> > GROUPS;      // receivers grouped by value class
static std::vector<int> POOLQ, POOLO;              // operands of binary predicates / binary transformers
static int POOLQ_DEPTH = 1, POOLO_DEPTH = 1;

static void choose_reps() {
  std::map<std::pair<int, std::string>, int> first;
  for (size_t s = 0; s < ST.size(); ++s) {
    std::pair<int, std::string> k(ST[s].cls, ST[s].sig);
    if (!first.count(k)) { first[k] = (int)s; REPS.push_back((int)s); }
  }
  std::map<int, std::vector<int> > members;
  for (auto& kv : first) members[kv.first.first].push_back(kv.second);
  for (auto& kv : members) {
    std::vector<int>& m = kv.second; std::sort(m.begin(), m.end());
    int d = CLS_DEPTH[kv.first];
    for (int i = 0; i < (int)m.size() && i < CFG.pool_sigs; ++i) {
      int pick = i == 0 ? m[0] : m[m.size() - i];
      if (d <= POOLQ_DEPTH) POOLQ.push_back(pick);
      if (d <= POOLO_DEPTH) POOLO.push_back(pick);
    }
  }
  for (std::vector<int>* P : {&POOLQ, &POOLO}) { std::sort(P->begin(), P->end()); P->erase(std::unique(P->begin(), P->end()), P->end()); }
  std::map<int, int> gidx;
  for (size_t i = 0; i < REPS.size(); ++i) {
    int k = ST[REPS[i]].cls;
    if (!gidx.count(k)) { gidx[k] = (int)GROUPS.size(); GROUPS.push_back(std::vector<int>()); }
    GROUPS[gidx[k]].push_back(REPS[i]);
  }
}

// ------------------------------------------------------------------ phase B
struct Step { char kind; int idx; int operand; };
static void steps_of(int s, std::vector<Step>& out) {
  const State& st = ST[s];
  const std::string& w = CFG.what;
  bool do_state = w == "all" || w == "queries";
  bool do_q = w == "all" || w == "queries" || w == "binq";
  bool do_o = (w == "all" || w == "ops") && CLS_DEPTH[st.cls] <= CFG.depth_ops;
  if (do_state) out.push_back(Step{'s', 0, -1});
  if (do_q) for (size_t qi = 0; qi < QS.size(); ++qi) {
    const Query& q = QS[qi];
    if (w == "binq" && !q.binary) continue;
    if (!q.binary) { Ctx cx{st.dim, st.cls, -1, -1}; if (q.ok(cx)) out.push_back(Step{'q', (int)qi, -1}); continue; }
    for (int o : POOLQ) { Ctx cx{st.dim, st.cls, ST[o].cls, ST[o].dim}; if (q.ok(cx)) out.push_back(Step{'q', (int)qi, o}); }
  }
  if (do_o) for (size_t oi = 0; oi < OPS.size(); ++oi) {
    const Op& op = OPS[oi];
    if (op.builder && op.observer) continue;        // observers: phase A + terminal layer
    if (!op.binary) { Ctx cx{st.dim, st.cls, -1, -1}; if (op.ok(cx)) out.push_back(Step{'o', (int)oi, -1}); continue; }
    int taken = 0;
    for (int o : POOLO) {
      Ctx cx{st.dim, st.cls, ST[o].cls, ST[o].dim};
      if (!op.ok(cx)) continue;
      if (op.args.fam == "simplify" && ++taken > (CFG.thorough ? 40 : 10)) break;     // first 10 / 40 operands of the pool (BFS order): most calls crash for octagons
      out.push_back(Step{'o', (int)oi, o});
    }
  }
}
static std::string step_name(const Step& t) {
  if (t.kind == 's') return "(observe)";
  return t.kind == 'q' ? QS[t.idx].name : OPS[t.idx].name;
}

static void run_step(int s, const Step& t) {
  const State& st = ST[s];
  CUR_SIG = st.sig; CUR_OSIG = t.operand >= 0 ? ST[t.operand].sig : std::string(); LAST_BAD = false; CUR_PIECES.clear(); CUR_LOST = -1; CUR_AFTER = -1;
  CUR_OP = t.kind == 'o' ? &OPS[t.idx] : 0; CUR_Q = t.kind == 'q' ? &QS[t.idx] : 0; CUR_CLS = st.cls; CUR_OCLS = t.operand >= 0 ? ST[t.operand].cls : -1;
  LAZY_INPUT = [s, t]() { return input_json(s, step_name(t), t.operand); };
  if (t.kind == 's') {
    PD p(A::clone(*st.obj));
    count(CNT_TRANS);
    terminal_layer(*p, st.cls, DOM() + "::(state)", LAZY);
    return;
  }
  PD p(A::clone(*st.obj));
  PD oc; if (t.operand >= 0) oc.reset(A::clone(*ST[t.operand].obj));
  int ocls = t.operand >= 0 ? ST[t.operand].cls : -1;
  if (t.kind == 'q') {
    const Query& q = QS[t.idx];
    std::string got = run_query(q, *p, oc.get());
    count(CNT_TRANS);
    std::string site = site_of(q.name);
    if (q.name.find(" mod ") != std::string::npos) site = DOM() + "::relation_with(Congruence)";
    else if (q.name.compare(0, 14, "relation_with(") == 0) site = DOM() + (std::string("pcrl").find(q.name[14]) != std::string::npos && q.name[15] == '(' ? "::relation_with(Generator)" : "::relation_with(Constraint)");
    const std::string& inj = LAZY;
    judge_query(t.idx, got, st.cls, ocls, site, inj);
    // observing must not change the value of receiver and operand
    int c2 = A::same_repr(*p, *st.obj) ? st.cls : gamma_cls(*p, site, inj);
    if (!same_value(st.cls, c2)) viol(site, "value:changed-by-observer", "none", inj, cellstr(c2), cellstr(st.cls), witness_outside(st.cls, c2));
    if (oc && !A::same_repr(*oc, *ST[t.operand].obj)) { int c3 = gamma_cls(*oc, site, inj); if (!same_value(ocls, c3)) viol(site, "const-arg-changed", "none", inj, cellstr(c3), cellstr(ocls)); }
    return;
  }
  const Op& op = OPS[t.idx];
  const std::string& inj = LAZY;
  std::string ret; bool threw = false;
  try { ret = op.apply(*p, oc.get()); }
  catch (const std::exception& ex) { threw = true; ret = std::string("exception:") + ex.what(); }
  count(CNT_TRANS);
  if (threw) { TrigIn ti{&op, 0, st.cls, ocls, "unexpected-exception"}; viol(site_of(op.name), "unexpected-exception", trigger_for(ti), inj, ret, "no exception"); return; }
  check_op_result(st.cls, ocls, t.idx, *p, ret, inj, true);
  if (oc && !A::same_repr(*oc, *ST[t.operand].obj)) { int c3 = gamma_cls(*oc, site_of(op.name), inj); if (!same_value(ocls, c3)) viol(site_of(op.name), "const-arg-changed", "none", inj, cellstr(c3), cellstr(ocls)); }
}

// ------------------------------------------------------------------ converting constructors
struct GG { char t; std::vector<long> v; long d; };
struct Src { char kind; std::string name; int dim; std::vector<ZC> rows; std::vector<GN> gens; std::vector<GG> grid; int gridspecial; };
static std::vector<Src> SRCS;

static void build_sources() {
  std::vector<ZC> R = {
    mkc({1, 0}, 'L', Q(1)), mkc({1, 0}, 'G', Q(-1, 2)), mkc({0, 1}, 'L', Q(2)), mkc({0, 1}, 'G', Q(0)), mkc({1, -1}, 'L', Q(1)), mkc({-1, 1}, 'L', Q(0)),
    mkc({1, 1}, 'L', Q(3, 2)), mkc({-1, -1}, 'L', Q(1)), mkc({2, -1}, 'L', Q(1)), mkc({1, 3}, 'G', Q(-2)), mkc({1, 0}, 'l', Q(1)), mkc({0, 1}, 'g', Q(0)),
    mkc({1, 1}, 'l', Q(2)), mkc({1, 0}, 'E', Q(1, 3)), mkc({1, -1}, 'E', Q(0)), mkc({1, 1}, 'E', Q(1)), mkc({3, 0}, 'L', Q(1)), mkc({1, -1}, 'G', Q(-1, 3)) };
  if (TC.has_big) { R.push_back(mkc({1, 0}, 'L', TC.big)); R.push_back(mkc({1, 0}, 'L', TC.over)); R.push_back(mkc({1, -1}, 'L', TC.big)); R.push_back(mkc({0, 1}, 'G', -TC.over)); R.push_back(mkc({1, 1}, 'L', TC.big)); R.push_back(mkc({1, 0}, 'G', TC.big)); }
  auto add_rows = [&](const std::vector<ZC>& rows) {
    Src s; s.kind = 'r'; s.rows = rows; s.dim = 1; s.gridspecial = 0;
    for (const ZC& c : rows) { s.dim = std::max(s.dim, c.e.dim()); s.name += (s.name.empty() ? "" : " , ") + c.str(); }
    if (rows.empty()) { s.dim = 2; s.name = "(no rows)"; }
    SRCS.push_back(s);
  };
  add_rows({});
  for (size_t i = 0; i < R.size(); ++i) add_rows({R[i]});
  for (size_t i = 0; i < R.size(); ++i) for (size_t j = i + 1; j < R.size(); ++j) add_rows({R[i], R[j]});
  add_rows({R[0], R[1], R[2], R[3]}); add_rows({R[0], R[3], R[6]}); add_rows({R[4], R[5], R[1]}); add_rows({R[10], R[11], R[12]}); add_rows({R[8], R[9], R[6]}); add_rows({R[0], R[1], R[10]});
  if (CFG.maxdim >= 3) { add_rows({mkc({1, -1, 0}, 'L', Q(0)), mkc({0, 1, -1}, 'L', Q(0)), mkc({0, 0, 1}, 'L', Q(1))}); add_rows({mkc({1, 1, 1}, 'L', Q(1)), mkc({1, 0, 0}, 'G', Q(0)), mkc({0, 1, 0}, 'G', Q(0)), mkc({0, 0, 1}, 'G', Q(0))}); }
  // generator systems
  std::vector<GN> P = {GN('p', {0, 0}), GN('p', {2, 0}), GN('p', {1, 1}, 2), GN('p', {-1, 3}, 3), GN('p', {0, 2})};
  std::vector<GN> RR = {GN('r', {1, 0}), GN('r', {1, 1}), GN('r', {-1, 2}), GN('r', {0, -1})};
  std::vector<GN> LL = {GN('l', {1, 0}), GN('l', {1, -1})};
  std::vector<GN> CC = {GN('c', {1, 1}), GN('c', {3, 0}, 2)};
  if (TC.has_big && BT<BTy>::bits > 0 && BT<BTy>::bits <= 32 && !BT<BTy>::is_float) { long o = (long)TC.over.get_d(); P.push_back(GN('p', {o, 0})); P.push_back(GN('p', {-o, 1})); P.push_back(GN('p', {1, 2 * o}, 2)); }
  auto add_gens = [&](const std::vector<GN>& g) { Src s; s.kind = 'g'; s.gens = g; s.dim = 2; s.gridspecial = 0; for (const GN& x : g) s.name += (s.name.empty() ? "" : " ") + x.str(); SRCS.push_back(s); };
  for (const GN& p : P) add_gens({p});
  for (size_t i = 0; i < P.size(); ++i) for (size_t j = i + 1; j < P.size(); ++j) add_gens({P[i], P[j]});
  for (size_t i = 0; i < 3; ++i) { for (const GN& r : RR) add_gens({P[i], r}); for (const GN& l : LL) add_gens({P[i], l}); for (const GN& c : CC) add_gens({P[i], c}); }
  add_gens({P[0], P[1], P[4]}); add_gens({P[2], RR[0], RR[1]}); add_gens({P[3], RR[2], RR[3]}); add_gens({P[0], CC[0], RR[0]}); add_gens({P[1], P[2], LL[1]}); add_gens({P[0], CC[0], CC[1]});
  // grids
  auto add_grid = [&](const std::vector<GG>& g, int special, const std::string& nm) { Src s; s.kind = 'G'; s.grid = g; s.dim = 2; s.gridspecial = special; s.name = nm; SRCS.push_back(s); };
  add_grid({}, 1, "Grid(2,EMPTY)"); add_grid({}, 2, "Grid(2,UNIVERSE)");
  add_grid({{'p', {0, 0}, 1}}, 0, "gp(0,0)"); add_grid({{'p', {1, 2}, 2}}, 0, "gp(1,2)/2"); add_grid({{'p', {0, 0}, 1}, {'q', {2, 0}, 1}}, 0, "gp(0,0) par(2,0)");
  add_grid({{'p', {0, 0}, 1}, {'q', {1, 1}, 1}}, 0, "gp(0,0) par(1,1)"); add_grid({{'p', {1, 0}, 1}, {'l', {0, 1}, 1}}, 0, "gp(1,0) line(0,1)");
  add_grid({{'p', {0, 0}, 1}, {'q', {2, 0}, 1}, {'q', {0, 3}, 1}}, 0, "gp(0,0) par(2,0) par(0,3)"); add_grid({{'p', {1, 1}, 3}, {'q', {1, -1}, 1}}, 0, "gp(1,1)/3 par(1,-1)");
  add_grid({{'p', {0, 0}, 1}, {'l', {1, 1}, 1}}, 0, "gp(0,0) line(1,1)"); add_grid({{'p', {1, 2}, 3}, {'q', {1, 0}, 2}}, 0, "gp(1,2)/3 par(1,0)/2");
}

struct CtorStep { int sk; int cc; };     // source kind, complexity class
static const char* SKN[] = {"C_Polyhedron", "NNC_Polyhedron", "Generator_System", "Grid", "Rational_Box", "BD_Shape<mpq_class>", "Octagonal_Shape<mpq_class>", "Constraint_System", "Congruence_System"};
static const char* CCN[] = {"POLYNOMIAL_COMPLEXITY", "SIMPLEX_COMPLEXITY", "ANY_COMPLEXITY"};
static PPL::Complexity_Class ccof(int c) { return c == 0 ? PPL::POLYNOMIAL_COMPLEXITY : c == 1 ? PPL::SIMPLEX_COMPLEXITY : PPL::ANY_COMPLEXITY; }

static bool rows_ok_for(const std::vector<ZC>& rows, Kind kind, bool open) {
  for (const ZC& c : rows) {
    int nz = c.e.nvars();
    if (c.k == ref::GT && !open) return false;
    if (nz <= 1) continue;
    if (kind == K_BOX || nz > 2) return false;
    mpz_class u, v; bool first = true;
    for (size_t i = 0; i < c.e.a.size(); ++i) if (c.e.a[i] != 0) { if (first) { u = c.e.a[i]; first = false; } else v = c.e.a[i]; }
    if (u == -v) continue;
    if (kind == K_OCT && u == v) continue;
    return false;
  }
  return true;
}
static void ctor_steps(const Src& s, std::vector<CtorStep>& out) {
  if (s.kind == 'g') { out.push_back(CtorStep{2, 2}); return; }
  if (s.kind == 'G') { for (int cc = 0; cc < 3; ++cc) out.push_back(CtorStep{3, cc}); return; }
  bool strict = false, alleq = !s.rows.empty(); for (const ZC& c : s.rows) { if (c.k == ref::GT) strict = true; if (c.k != ref::EQ) alleq = false; }
  if (!strict) for (int cc = 0; cc < 3; ++cc) out.push_back(CtorStep{0, cc});
  for (int cc = 0; cc < 3; ++cc) out.push_back(CtorStep{1, cc});
  if (rows_ok_for(s.rows, K_BOX, true)) out.push_back(CtorStep{4, 2});
  if (rows_ok_for(s.rows, K_BDS, false)) out.push_back(CtorStep{5, 2});
  if (rows_ok_for(s.rows, K_OCT, false)) out.push_back(CtorStep{6, 2});
  if (rows_ok_for(s.rows, KIND, OPEN_OK)) out.push_back(CtorStep{7, 2});
  if (alleq && rows_ok_for(s.rows, KIND, OPEN_OK)) out.push_back(CtorStep{8, 2});
}

static void run_ctor(const Src& s, const CtorStep& t) {
  int n = s.dim;
  CUR_OP = 0; CUR_Q = 0; CUR_CLS = -1; CUR_OCLS = -1; CUR_SIG.clear(); CUR_OSIG.clear();
  std::string site = DOM() + "::" + DOM() + "(" + SKN[t.sk] + ")";
  std::string inj = J().str("shape", SHAPE_NAME).str("source_type", SKN[t.sk]).str("source", s.name).num("dim", n).str("complexity", CCN[t.cc]).done();
  LAZY_INPUT = [inj]() { return inj; };
  USet exact; bool best = false; bool is_grid = false; Cell hullcell(n);
  PD r;
  count(CNT_TRANS);
  try {
    Cell rows(n); for (const ZC& c : s.rows) rows.rows.push_back(c.row(n));
    PPL::Constraint_System cs; for (const ZC& c : s.rows) cs.insert(c.ppl());
    switch (t.sk) {
      case 0: { PPL::C_Polyhedron ph(n); ph.add_constraints(cs); exact = one(rows); best = t.cc == 2; r.reset(new D(ph, ccof(t.cc))); break; }
      case 1: { PPL::NNC_Polyhedron ph(n); ph.add_constraints(cs); exact = one(rows); best = t.cc == 2; r.reset(new D(ph, ccof(t.cc))); break; }
      case 2: { PPL::Generator_System gs; ref::Gens g; for (const GN& x : s.gens) { gs.insert(x.ppl()); g.push_back(x.gen(n)); }
                { RefGuard guard; exact = one(ref::from_gens(g, n, true)); } best = true; r.reset(new D(gs)); break; }
      case 3: { PPL::Grid gr(n, s.gridspecial == 1 ? PPL::EMPTY : PPL::UNIVERSE);
                if (s.gridspecial == 0) {
                  PPL::Grid_Generator_System ggs; ref::Gens g; Vec base(n, Q(0));
                  for (const GG& x : s.grid) {
                    Linear_Expression e; for (int i = 0; i < n; ++i) e += Coefficient(x.v[i]) * Variable(i);
                    ref::Gen rg; rg.v.assign(n, Q(0)); for (int i = 0; i < n; ++i) { rg.v[i] = Q(x.v[i], x.d); rg.v[i].canonicalize(); }
                    if (x.t == 'p') { ggs.insert(PPL::grid_point(e, Coefficient(x.d))); rg.t = 'p'; base = rg.v; }
                    else if (x.t == 'q') { ggs.insert(PPL::parameter(e, Coefficient(x.d))); rg.t = 'l'; }
                    else { ggs.insert(PPL::grid_line(e)); rg.t = 'l'; }
                    g.push_back(rg);
                  }
                  gr = PPL::Grid(ggs);
                  RefGuard guard;
                  hullcell = ref::from_gens(g, n, false);        // affine hull: alpha(lattice) = alpha(affine hull)
                  // sample lattice points for the enclosure clause
                  std::vector<Vec> pts(1, base);
                  for (const GG& x : s.grid) if (x.t != 'p') {
                    std::vector<Vec> nx;
                    for (const Vec& b : pts) for (long k : {-7L, -1L, 0L, 1L, 2L}) { if (x.t == 'q' && (k == -7)) k = -2; Vec p = b; for (int i = 0; i < n; ++i) { Q st(x.v[i], x.d); st.canonicalize(); p[i] += st * k; } nx.push_back(p); }
                    pts = nx;
                  }
                  for (const Vec& p : pts) { Cell pt(n); for (int i = 0; i < n; ++i) pt.rows.push_back(Row(ref::unit(n, i), -p[i], ref::EQ)); exact.push_back(pt); }
                } else if (s.gridspecial == 2) { hullcell = Cell::universe(n); exact = one(hullcell); }
                else { hullcell = Cell::empty(n); }
                is_grid = true; best = t.cc == 2; r.reset(new D(gr, ccof(t.cc))); break; }
      case 4: { PPL::Rational_Box b(n); b.add_constraints(cs); exact = one(Ad<PPL::Rational_Box>::gamma(b)); best = true; r.reset(new D(b, ccof(t.cc))); break; }
      case 5: { PPL::BD_Shape<mpq_class> b(n); b.add_constraints(cs); exact = one(Ad<PPL::BD_Shape<mpq_class> >::gamma(b)); best = true; r.reset(new D(b, ccof(t.cc))); break; }
      case 6: { PPL::Octagonal_Shape<mpq_class> b(n); b.add_constraints(cs); exact = one(Ad<PPL::Octagonal_Shape<mpq_class> >::gamma(b)); best = true; r.reset(new D(b, ccof(t.cc))); break; }
      case 7: { PPL::Constraint_System cs2 = cs; if (cs2.space_dimension() < (unsigned)n) cs2.insert(0 * Variable(n - 1) >= -1); exact = one(rows); best = true; r.reset(new D(cs2)); break; }
      default: { PPL::Congruence_System cgs(n); for (const ZC& c : s.rows) cgs.insert((c.e.ppl() %= 0) / 0); exact = one(rows); best = true; r.reset(new D(cgs)); break; }
    }
  } catch (const std::exception& ex) { viol(site, "unexpected-exception", "none", inj, ex.what(), "an object"); return; }
  if ((int)r->space_dimension() != n) { viol(site, "constructor:space-dimension", "none", inj, std::to_string(r->space_dimension()), std::to_string(n)); return; }
  LAST_BAD = false; CUR_PIECES.clear(); CUR_LOST = -1;
  int after = gamma_cls(*r, site, inj);
  LAST_BAD = BAD_ENTRY; CUR_AFTER = after; CUR_CLS = after;
  count(CNT_CHECKS);
  std::vector<int> pieces; int want = -1;
  {
    RefGuard guard;
    for (size_t i = 0; i < exact.size(); ++i) { int c = CL.classify(exact[i]); if (!cls_empty(c)) pieces.push_back(c); }
    if (CFG.c04 && best) { if (is_grid) want = CL.classify(alphaD(one(hullcell), n)); else { USet v; for (int c : pieces) v.push_back(CL[c]); want = CL.classify(alphaD(v, n)); } }
  }
  CUR_PIECES = pieces;
  bool lost = false;
  for (size_t i = 0; i < pieces.size() && !lost; ++i) if (!cls_subset(pieces[i], after)) {
    lost = true; CUR_LOST = pieces[i]; TrigIn ti{0, 0, pieces[i], -1, "enclosure:result-loses-points"};
    viol(site, "enclosure:result-loses-points", "none", inj, cellstr(after), "superset of " + cellstr(pieces[i]), witness_outside(pieces[i], after) + " is in the source"); (void)ti;
  }
  if (!lost && want >= 0 && after != want) {
    std::string clause = cls_subset(want, after) ? "best:result-not-smallest" : "best:result-loses-points-of-alpha";
    viol(site, clause, "none", inj, cellstr(after), cellstr(want), witness_outside(after, want) + " is in the result only");
  }
  terminal_layer(*r, after, site, inj);
}

// ------------------------------------------------------------------ join scenarios (upper_bound_assign[_if_exact])
// The operand pool of phase B holds states of depth <= 1; an inexact union (L, T, cross shape) needs operands with
// three or more rows each.  PAIRS: every ordered pair of "flat" shapes of one dimension: products of intervals
// [l,u], l <= u, over a small coordinate set (points, segments along each axis, boxes), plus - for BD shapes and
// octagons - the proper boxes cut by one diagonal row.  Each receiver is used freshly built and after a closing query.
struct PShape { int dim; std::vector<ZC> rows; std::string name; };
static std::vector<PShape> PSH[4];     // by dimension
static void build_pair_shapes() {
  for (int dim = 2; dim <= std::min(3, std::max(CFG.maxdim, 2)); ++dim) {
    std::vector<long> co = (dim == 2 || CFG.thorough) ? std::vector<long>{0, 2, 4} : std::vector<long>{0, 2};
    std::vector<std::pair<long, long> > iv;
    for (size_t a = 0; a < co.size(); ++a) for (size_t b = a; b < co.size(); ++b) iv.push_back(std::make_pair(co[a], co[b]));
    std::vector<size_t> idx(dim, 0);
    for (;;) {
      PShape sh; sh.dim = dim; bool proper = true;
      for (int k = 0; k < dim; ++k) {
        long l = iv[idx[k]].first, u = iv[idx[k]].second;
        if (l == u) { sh.rows.push_back(mkc(dvec(dim, k, 1), 'E', Q(l))); proper = false; }
        else { sh.rows.push_back(mkc(dvec(dim, k, 1), 'G', Q(l))); sh.rows.push_back(mkc(dvec(dim, k, 1), 'L', Q(u))); }
        sh.name += std::string(k ? "x" : "") + "[" + std::to_string(l) + "," + std::to_string(u) + "]";
      }
      PSH[dim].push_back(sh);
      if (proper && KIND != K_BOX && dim == 2) {
        long lo0 = iv[idx[0]].first, lo1 = iv[idx[1]].first, hi0 = iv[idx[0]].second, hi1 = iv[idx[1]].second;
        { PShape d = sh; d.rows.push_back(mkc({1, -1}, 'L', Q(lo0 - lo1))); d.name += "&A-B<=" + std::to_string(lo0 - lo1); PSH[dim].push_back(d); }
        { PShape d = sh; d.rows.push_back(mkc({-1, 1}, 'L', Q(lo1 - lo0))); d.name += "&B-A<=" + std::to_string(lo1 - lo0); PSH[dim].push_back(d); }
        if (KIND == K_OCT) {
          { PShape d = sh; d.rows.push_back(mkc({1, 1}, 'L', Q(lo0 + hi1))); d.name += "&A+B<=" + std::to_string(lo0 + hi1); PSH[dim].push_back(d); }
          { PShape d = sh; d.rows.push_back(mkc({-1, -1}, 'L', Q(-(hi0 + lo1)))); d.name += "&-A-B<=" + std::to_string(-(hi0 + lo1)); PSH[dim].push_back(d); }
        }
      }
      int k = 0; while (k < dim && ++idx[k] == iv.size()) { idx[k] = 0; ++k; }
      if (k == dim) break;
    }
  }
}
static std::vector<std::pair<int, int> > PAIR_ITEMS;     // (dim, receiver shape index): one work item each
static D* build_pshape(const PShape& sh) { D* p = new D(sh.dim, PPL::UNIVERSE); for (size_t i = 0; i < sh.rows.size(); ++i) p->add_constraint(sh.rows[i].ppl()); return p; }
static int OP_UBX = -1, OP_UB = -1;
static long long pair_steps(int dim) { return (long long)PSH[dim].size() * 4; }      // operand x {fresh, closed receiver} x {if_exact, upper_bound}
static std::string pair_step_name(int dim, int xi, long long sub) {
  int yi = (int)(sub / 4), var = (int)(sub % 4);
  return std::string(var & 1 ? "upper_bound_assign" : "upper_bound_assign_if_exact") + " receiver=" + PSH[dim][xi].name + (var & 2 ? " (after is_empty())" : "") + " operand=" + PSH[dim][yi].name;
}
static void run_pair(int dim, int xi, long long sub) {
  int yi = (int)(sub / 4), var = (int)(sub % 4);
  const PShape& xs = PSH[dim][xi]; const PShape& ys = PSH[dim][yi];
  size_t oi = (var & 1) ? OP_UB : OP_UBX;
  const Op& op = OPS[oi];
  PD x(build_pshape(xs)), y(build_pshape(ys));
  if (var & 2) (void)x->is_empty();
  std::string inj = J().str("shape", SHAPE_NAME).str("op", op.name).str("receiver", xs.name + (var & 2 ? " after is_empty()" : "")).str("operand", ys.name).num("dim", dim).done();
  LAZY_INPUT = [inj]() { return inj; };
  CUR_OP = &op; CUR_Q = 0; CUR_SIG = A::sig(*x); CUR_OSIG = A::sig(*y); LAST_BAD = false; CUR_PIECES.clear(); CUR_LOST = -1; CUR_AFTER = -1;
  int cx = gamma_cls(*x, site_of(op.name), inj), cy = gamma_cls(*y, site_of(op.name), inj);
  CUR_CLS = cx; CUR_OCLS = cy;
  std::string ret;
  try { ret = op.apply(*x, y.get()); }
  catch (const std::exception& ex) { viol(site_of(op.name), "unexpected-exception", "none", inj, ex.what(), "no exception"); return; }
  count(CNT_TRANS);
  check_op_result(cx, cy, oi, *x, ret, inj, (var & 1) == 0);
}

// ------------------------------------------------------------------ main
static int shape_main(int argc, char** argv) {
  ARGS = parse_args(argc, argv);
  sink().open(ARGS.out);
  CFG.thorough = ARGS.thorough();
  CFG.c04 = ARGS.opt("--mode", "C03") == "C04";
  CFG.maxdim = atoi(ARGS.opt("--dim", "2").c_str());
  CFG.mindim = atoi(ARGS.opt("--mindim", "0").c_str());
  CFG.depth = atoi(ARGS.opt("--depth", "2").c_str());
  CFG.depth_ops = atoi(ARGS.opt("--depth-ops", ARGS.opt("--depth", "2")).c_str());
  CFG.consts = ARGS.opt("--consts", "small");
  CFG.what = ARGS.opt("--what", "all");
  POOLQ_DEPTH = atoi(ARGS.opt("--poolq-depth", "1").c_str());
  POOLO_DEPTH = atoi(ARGS.opt("--poolo-depth", "1").c_str());
  CFG.pool_sigs = atoi(ARGS.opt("--poolsigs", "2").c_str());
  if (ARGS.has("--allviol")) violcap().cap = 1 << 30;
  if (CFG.c04 && !EXACT_T) { sink().line(J().str("t", "error").str("msg", "mode C04 needs a rational instantiation").done()); return 2; }
  double t0 = now_s();
  build_menus(); build_ops(); build_queries();
  if (CFG.what == "all" || CFG.what == "ctors") build_sources();
  if (CFG.what != "ctors") phase_a();
  double ta = now_s() - t0;
  choose_reps();
  long long nrep_ops = 0; for (int r : REPS) if (CLS_DEPTH[ST[r].cls] <= CFG.depth_ops) ++nrep_ops;
  fprintf(stderr, "[shapes %s %s] phase A: depth=%d states=%zu transitions=%lld classes=%zu signatures=%zu reps=%zu (ops on %lld) poolq=%zu poolo=%zu ops=%zu queries=%zu sources=%zu in %.1fs\n",
          SHAPE_NAME, CFG.c04 ? "C04" : "C03", CFG.depth, ST.size(), TRANS_A, CL.cells.size(), SIGS.size(), REPS.size(), nrep_ops, POOLQ.size(), POOLO.size(), OPS.size(), QS.size(), SRCS.size(), ta);
  if ((CFG.what == "all" || CFG.what == "ops" || CFG.what == "pairs") && CFG.maxdim >= 2) {
    build_pair_shapes();
    for (size_t oi = 0; oi < OPS.size(); ++oi) { if (OPS[oi].name == "upper_bound_assign_if_exact") OP_UBX = (int)oi; if (OPS[oi].name == "upper_bound_assign") OP_UB = (int)oi; }
    for (int dim = 2; dim <= 3; ++dim) if (dim >= CFG.mindim) for (size_t i = 0; i < PSH[dim].size(); ++i) PAIR_ITEMS.push_back(std::make_pair(dim, (int)i));
  }
  long long NG = (long long)GROUPS.size(), NS = (long long)SRCS.size(), NP = (long long)PAIR_ITEMS.size();
  Pool::Fn fn = [&](long long item, long long sub_start) {
    long long sub = 0;
    if (item < NG) {
      for (size_t gi = 0; gi < GROUPS[item].size(); ++gi) {
        int s = GROUPS[item][gi];
        std::vector<Step> steps; steps_of(s, steps);
        for (size_t k = 0; k < steps.size(); ++k) { long long my = sub++; if (!pool().want(my, sub_start)) continue; pool().step(my); run_step(s, steps[k]); }
        count(CNT_STATES);
      }
    } else if (item < NG + NS) {
      const Src& src = SRCS[item - NG];
      std::vector<CtorStep> steps; ctor_steps(src, steps);
      for (size_t k = 0; k < steps.size(); ++k) { long long my = sub++; if (!pool().want(my, sub_start)) continue; pool().step(my); run_ctor(src, steps[k]); }
    } else {
      std::pair<int, int> pi = PAIR_ITEMS[item - NG - NS];
      long long n = pair_steps(pi.first);
      for (long long k = 0; k < n; ++k) { long long my = sub++; if (!pool().want(my, sub_start)) continue; pool().step(my); run_pair(pi.first, pi.second, k); }
    }
  };
  Pool::CrashFn cf = [&](long long item, long long sub, int sig, bool confirmed) {
    if (!confirmed) return;
    if (item < NG) {
      long long base = 0;
      for (size_t gi = 0; gi < GROUPS[item].size(); ++gi) {
        int s = GROUPS[item][gi];
        std::vector<Step> steps; steps_of(s, steps);
        if (sub < base + (long long)steps.size()) {
          const Step& t = steps[sub - base];
          std::string nm = step_name(t);
          CUR_SIG = ST[s].sig; CUR_OSIG = t.operand >= 0 ? ST[t.operand].sig : std::string();
          CUR_OP = t.kind == 'o' ? &OPS[t.idx] : 0; CUR_Q = t.kind == 'q' ? &QS[t.idx] : 0; CUR_CLS = ST[s].cls; CUR_OCLS = t.operand >= 0 ? ST[t.operand].cls : -1;
          LAST_BAD = false; CUR_PIECES.clear(); CUR_LOST = -1; CUR_AFTER = -1;
          if (t.kind == 'o' && OPS[t.idx].exact) {     // the exact result, for triggers that talk about it
            USet u = OPS[t.idx].exact(CL[ST[s].cls], t.operand >= 0 ? &CL[ST[t.operand].cls] : 0);
            for (size_t k = 0; k < u.size(); ++k) { int c = CL.classify(u[k]); if (!cls_empty(c)) CUR_PIECES.push_back(c); }
          }
          TrigIn ti{t.kind == 'o' ? &OPS[t.idx] : 0, t.kind == 'q' ? &QS[t.idx] : 0, ST[s].cls, t.operand >= 0 ? ST[t.operand].cls : -1, std::string("crash:") + signame(sig)};
          std::string trg = trigger_for(ti);
          count(CNT_VIOL); count(CNT_USER);
          violcap().cap = std::max(violcap().cap, 40);      // crash records are written by the parent only: 40 per group, all are counted
          if (violcap().admit("crash|" + site_of(nm) + "|" + signame(sig) + "|" + trg))
            report_violation(site_of(nm), std::string("crash:") + signame(sig), trg, input_json(s, nm, t.operand), signame(sig), "normal return");
          return;
        }
        base += steps.size();
      }
      sink().line(J().str("t", "error").str("msg", "crash at unknown sub-step").done());
    } else if (item >= NG + NS) {
      std::pair<int, int> pi = PAIR_ITEMS[item - NG - NS];
      std::string nm = pair_step_name(pi.first, pi.second, sub);
      report_violation(site_of(nm.substr(0, nm.find(' '))), std::string("crash:") + signame(sig), "none",
                       J().str("shape", SHAPE_NAME).str("scenario", nm).done(), signame(sig), "normal return");
    } else {
      const Src& src = SRCS[item - NG];
      std::vector<CtorStep> steps; ctor_steps(src, steps);
      if (sub >= (long long)steps.size()) { sink().line(J().str("t", "error").str("msg", "crash at unknown constructor step").done()); return; }
      report_violation(DOM() + "::" + DOM() + "(" + SKN[steps[sub].sk] + ")", std::string("crash:") + signame(sig), trigger_ctor_crash(steps[sub].sk, src.rows, std::string("crash:") + signame(sig)),
                       J().str("shape", SHAPE_NAME).str("source", src.name).str("complexity", CCN[steps[sub].cc]).done(), signame(sig), "normal return");
    }
  };
  limit_memory(6ULL << 30);
  pool().run(NG + NS + NP, ARGS.jobs, fn, cf, ARGS, atoi(ARGS.opt("--step-timeout", "8").c_str()));
  bool complete = counter(CNT_SKIPPED) == 0 && counter(CNT_REFCRASH) == 0;
  std::vector<std::string> samples;
  for (size_t i = 0; i < REPS.size(); i += std::max<size_t>(1, REPS.size() / 3)) samples.push_back(hist_json(REPS[i]));
  if (samples.empty() && !SRCS.empty()) samples.push_back(jstr("constructor from " + SRCS[SRCS.size() / 2].name));
  std::vector<std::string> sigs; for (auto& s : SIGS) sigs.push_back(jstr(s));
  J extra; extra.str("shape", SHAPE_NAME).str("mode", CFG.c04 ? "C04" : "C03").num("phaseA_states", ST.size()).num("phaseA_transitions", TRANS_A).num("value_classes_phaseA", CLS_DEPTH.size())
    .num("representatives", REPS.size()).num("representatives_with_transformers", nrep_ops).num("operand_pool_predicates", POOLQ.size()).num("operand_pool_transformers", POOLO.size())
    .num("ops", OPS.size()).num("queries", QS.size()).num("constructor_sources", SRCS.size()).num("join_scenario_shapes_dim2", PSH[2].size()).num("join_scenario_shapes_dim3", PSH[3].size()).num("join_scenario_receivers", PAIR_ITEMS.size()).num("builder_constraints", BM.size())
    .num("oracle_comparisons", counter(CNT_CHECKS)).num("violating_cases", counter(CNT_VIOL)).num("confirmed_crashes_or_hangs", counter(CNT_USER)).num("items_skipped_by_deadline", counter(CNT_SKIPPED))
    .num("cases_skipped_oracle_resource_limit", counter(CNT_REFCRASH)).arr("signatures_reached", sigs);
  std::string bound = std::string(SHAPE_NAME) + " " + (CFG.c04 ? "C04" : "C03") + ": dims " + std::to_string(CFG.mindim) + ".." + std::to_string(CFG.maxdim) + ", phase A depth " + std::to_string(CFG.depth)
    + " (" + CFG.consts + " constants), transformers on classes of depth<=" + std::to_string(CFG.depth_ops) + ", what=" + CFG.what + ", one representative per (value class, status signature)";
  J st; st.str("t", "stats").num("states", std::max<size_t>(1, ST.size())).num("transitions", std::max<long long>(1, TRANS_A + counter(CNT_TRANS)))
    .num("traces_validated_against_impl", std::max<long long>(1, TRANS_A + counter(CNT_TRANS))).boolean("exhaustive", complete)
    .str("bound", bound).arr("samples", samples).raw("extra", extra.done()).dbl("wall_s", now_s() - t0);
  sink().line(st.done());
  return 0;
}

static shp::Reg REGISTER_THIS_SHAPE(SHAPE_NAME, &shape_main);

} // namespace

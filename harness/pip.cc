// C07 -- PIP_Problem: the solution tree must yield the lexicographic minimum for every parameter valuation.
//
// Two exhaustive explorations, both judged by brute force (ref/milp.hh: lexmin_nonneg, window argument):
//   --mode fresh        every problem built by the constructor from a row set of size <= K of the menu, every layout of
//                       variables / parameters (<= 2 + 2 over 4 dimensions), optionally a big parameter, EVERY value of
//                       CUTTING_STRATEGY x PIVOT_ROW_STRATEGY
//   --mode incremental  call histories over ONE PIP_Problem (add_constraint(s), add_space_dimensions_and_embed,
//                       add_to_parameter_space_dimensions, set_control_parameter, set_big_parameter_dimension, solve,
//                       is_satisfiable, copy, assign, clear), breadth first, states merged by ascii_dump
// Oracle: for every valuation of the parameters in {0..6}^k that satisfies the context rows (rows mentioning no
// variable), the tree is SPANNED as the class documentation prescribes, through the public node interface only
// (artificial parameters appended after the problem dimensions in declaration order along the path, evaluated by floor
// division; node constraints evaluated; child_node(all satisfied); parametric_values), and must reach bottom iff the
// reference finds no point, otherwise yield the reference's lexicographic minimum.
#include "engine/ppl_ref.hh"
#include "engine/common.hh"
#include "ref/milp.hh"
#include <unordered_map>
#include <unordered_set>
#include <memory>
#include <fcntl.h>
#include <cerrno>
#include <sys/prctl.h>

using namespace vf;
using ref::Q; using ref::Vec; using ref::Cell; using ref::Row; using ref::Z;
typedef PPL::PIP_Problem PIP;
static inline Q fq(const mpz_class& z) { return Q(z); }      // Coefficient is mpz_class in the prod variant

static Args ARGS;
static std::map<std::string, std::pair<double, long> > PROF;
struct ProfT { std::string k; double t0; ProfT(const std::string& k_) : k(k_), t0(now_s()) {} ~ProfT() { std::pair<double,long>& p = PROF[k]; p.first += now_s() - t0; p.second++; } };

// ------------------------------------------------------------------ menus
static std::vector<CN> CM;                          // rows over (A, B, C, D)
static std::vector<std::pair<int, int> > PAIRS;     // add_constraints({r1, r2})
static const int MAXDIM = 4;
static size_t NBASE = 0;                            // rows [0, NBASE) form the menu of the fresh / incremental explorations
struct BoxedMenu { int param, box1, box2; std::vector<int> rows, extra; };
static std::vector<BoxedMenu> BOXED;                // rows of the "boxed" one-shot family, appended to CM

static void build_menus() {
  auto ge = [](std::initializer_list<long> a, long b) { return CN(LE(a, b), ref::GE); };
  auto eq = [](std::initializer_list<long> a, long b) { return CN(LE(a, b), ref::EQ); };
  auto gt = [](std::initializer_list<long> a, long b) { return CN(LE(a, b), ref::GT); };
  CM.push_back(ge({-1, -1, 0, 0}, 0));     //  0  A + B <= 0        (feasible only for the smallest values when B is a parameter)
  CM.push_back(ge({1, -1, 0, 0}, 0));      //  1  A >= B
  CM.push_back(ge({-1, 1, 0, 0}, 2));      //  2  A <= B + 2
  CM.push_back(ge({2, -1, 0, 0}, 0));      //  3  2A >= B           (Gomory cut when B is an odd parameter)
  CM.push_back(ge({-2, 1, 0, 0}, 1));      //  4  2A <= B + 1
  CM.push_back(eq({2, -1, 0, 0}, 0));      //  5  2A = B
  CM.push_back(gt({1, -1, 0, 0}, 0));      //  6  A > B
  CM.push_back(ge({1, 0, 0, 0}, -1));      //  7  A >= 1
  CM.push_back(ge({0, 1, 0, 0}, -2));      //  8  B >= 2            (context when B is a parameter)
  CM.push_back(ge({-2, -1, 0, 0}, 0));     //  9  -2A - B >= 0
  CM.push_back(eq({2, 2, 0, 0}, 0));       // 10  2A + 2B = 0
  CM.push_back(ge({1, 0, -1, 0}, 0));      // 11  A >= C
  CM.push_back(ge({-1, 0, 1, 0}, 0));      // 12  A <= C
  CM.push_back(ge({1, 2, -1, 0}, 0));      // 13  A + 2B >= C       (with 14: vertices of denominator 3)
  CM.push_back(ge({2, 1, 0, -1}, 0));      // 14  2A + B >= D
  CM.push_back(eq({1, 1, -1, 0}, 0));      // 15  A + B = C
  CM.push_back(ge({0, -1, 1, 0}, 0));      // 16  B <= C
  CM.push_back(gt({1, 0, 1, 0}, -2));      // 17  A + C > 2
  CM.push_back(ge({0, 0, -1, 1}, 0));      // 18  C <= D            (context when C, D are parameters)
  CM.push_back(ge({0, 0, 1, 1}, -3));      // 19  C + D >= 3
  CM.push_back(ge({-1, -1, 0, 1}, 0));     // 20  A + B <= D
  CM.push_back(ge({1, 0, 0, -1}, 2));      // 21  A >= D - 2        (D big: A is "M - something")
  CM.push_back(ge({-1, -2, 2, 0}, 1));     // 22  A + 2B <= 2C + 1
  CM.push_back(ge({0, 1, 0, 0}, 0));       // 23  B >= 0            (redundant: implicit non-negativity)
  CM.push_back(ge({2, -1, -2, 0}, -2));    // 24  2A - B >= 2C + 2  (pivot on a coefficient 2 with an integral solution: the tableau keeps denominator 2)
  CM.push_back(ge({0, 1, -1, 0}, 3));      // 25  B >= C - 3        (mixes a variable that is still basic with a parameter)
  NBASE = CM.size();
  // "boxed" one-shot family (inequalities only): two variables x, y, one parameter p (at each of the three positions),
  // x <= 5, y <= 5 and rows  a*x + b*y >= c*p - k  with non-unit variable coefficients, parameter coefficients up to 3 and
  // constants of both signs: sequences "pivot on a non-unit coefficient, pivot on a scaled 1, cut" occur there.
  for (int pp = 0; pp < 3; ++pp) {
    int xv = pp == 0 ? 1 : 0, yv = pp == 2 ? 1 : 2;
    BoxedMenu bm; bm.param = pp;
    auto mk = [&](long a, long b, long c, long k) { std::vector<long> v(3, 0); v[xv] = a; v[yv] = b; v[pp] = -c; LE e; e.a = v; e.b = k; return CN(e, ref::GE); };
    bm.box1 = (int)CM.size(); CM.push_back(mk(-1, 0, 0, 5));
    bm.box2 = (int)CM.size(); CM.push_back(mk(0, -1, 0, 5));
    static const long AB[][2] = {{1,0},{0,1},{1,1},{1,-1},{-1,1},{1,2},{2,1},{2,-1},{-1,2},{1,-2},{-2,1},{2,3}};
    static const long CC[] = {0, 1, 2, 3};
    static const long KK[] = {-6, -3, -1, 0, 1, 3, 6};
    for (size_t i = 0; i < sizeof AB / sizeof AB[0]; ++i) for (size_t c = 0; c < 4; ++c) for (size_t k = 0; k < 7; ++k) {
      if (CC[c] == 0 && KK[k] >= 0 && AB[i][0] >= 0 && AB[i][1] >= 0) continue;      // implied by non-negativity
      bm.rows.push_back((int)CM.size()); CM.push_back(mk(AB[i][0], AB[i][1], CC[c], KK[k]));
    }
    // rows added AFTER a first solve by the "resolve" family: parameter-only rows (they empty the context of one branch of a
    // decision node, which is then merged with its surviving child) and a few mixed rows
    for (long k = 0; k <= 6; ++k) { bm.extra.push_back((int)CM.size()); CM.push_back(mk(0, 0, 1, k)); }          // p <= k
    for (long k = 1; k <= 6; ++k) { bm.extra.push_back((int)CM.size()); CM.push_back(mk(0, 0, -1, -k)); }        // p >= k
    bm.extra.push_back((int)CM.size()); CM.push_back(mk(1, 0, 0, -1));                                            // x >= 1
    bm.extra.push_back((int)CM.size()); CM.push_back(mk(0, 1, 0, -1));                                            // y >= 1
    bm.extra.push_back((int)CM.size()); CM.push_back(mk(1, 1, 1, 0));                                             // x + y >= p
    bm.extra.push_back((int)CM.size()); CM.push_back(mk(-1, -1, -1, 3));                                          // x + y <= p + 3
    BOXED.push_back(bm);
  }
  PAIRS.push_back(std::make_pair(3, 4));     // B <= 2A <= B + 1
  PAIRS.push_back(std::make_pair(11, 12));   // A = C as two rows
  PAIRS.push_back(std::make_pair(13, 14));
}

// ------------------------------------------------------------------ abstract data of a problem
struct Data {
  int dim; unsigned params; int big; std::vector<int> rows; int cut, piv;
  Data() : dim(0), params(0), big(-1), cut(0), piv(0) {}
  int nparams() const { return __builtin_popcount(params); }
  int nvars() const { return dim - nparams(); }
  bool is_param(int i) const { return (params >> i) & 1u; }
};
static const char* CUT_NAME[] = {"CUTTING_STRATEGY_FIRST", "CUTTING_STRATEGY_DEEPEST", "CUTTING_STRATEGY_ALL"};
static const char* PIV_NAME[] = {"PIVOT_ROW_STRATEGY_FIRST", "PIVOT_ROW_STRATEGY_MAX_COLUMN"};
static PIP::Control_Parameter_Value CUT_VAL[] = {PIP::CUTTING_STRATEGY_FIRST, PIP::CUTTING_STRATEGY_DEEPEST, PIP::CUTTING_STRATEGY_ALL};
static PIP::Control_Parameter_Value PIV_VAL[] = {PIP::PIVOT_ROW_STRATEGY_FIRST, PIP::PIVOT_ROW_STRATEGY_MAX_COLUMN};

static std::string data_json(const Data& d) {
  std::vector<std::string> rows, ps;
  for (size_t i = 0; i < d.rows.size(); ++i) rows.push_back(jstr(CM[d.rows[i]].str()));
  for (int i = 0; i < d.dim; ++i) if (d.is_param(i)) ps.push_back(jstr(std::string(1, char('A' + i))));
  return J().num("dim", d.dim).arr("parameters", ps).str("big_parameter", d.big < 0 ? "none" : std::string(1, char('A' + d.big))).arr("constraints", rows)
    .str("cutting", CUT_NAME[d.cut]).str("pivot_row", PIV_NAME[d.piv]).done();
}
static std::string qstr(const Q& q) { std::ostringstream s; s << q; return s.str(); }
static std::string zvec_str(const std::vector<Z>& v) { std::ostringstream s; s << "("; for (size_t i = 0; i < v.size(); ++i) { if (i) s << ","; s << v[i]; } s << ")"; return s.str(); }

// ------------------------------------------------------------------ reference: lexmin per valuation (memoised per data)
static const long BIG_M[3] = {64, 129, 260};   // different residues mod 2 and mod 3: a verdict that depends on the parity of M is not judged
struct Valuation { std::vector<long> p; };           // one value per problem dimension (0 at variables)
struct RefEntry { bool context_ok; bool feasible; std::vector<Z> x; };
struct RefTable {
  std::vector<Valuation> vals;                       // window of the non-big parameters
  std::vector<RefEntry> e[3];                        // per value of the big parameter (only e[0] when there is none)
  bool any_feasible;                                 // some context-satisfying valuation of the window has a point
  int fullspace;                                     // -1 not computed, 0 no (x, p) >= 0 integral at all, 1 some exists
  Vec fullspace_witness;
  RefTable() : any_feasible(false), fullspace(-1) {}
};
static std::unordered_map<std::string, RefTable> REFMEMO;

static std::string ref_key(const Data& d) {
  std::vector<int> r = d.rows; std::sort(r.begin(), r.end()); r.erase(std::unique(r.begin(), r.end()), r.end());
  std::string key = std::to_string(d.dim) + "|" + std::to_string(d.params) + "|" + std::to_string(d.big) + "|";
  for (size_t i = 0; i < r.size(); ++i) key += std::to_string(r[i]) + ",";
  return key;
}
static bool row_is_context(const CN& c, const Data& d) {
  for (int i = 0; i < d.dim && i < (int)c.e.a.size(); ++i) if (c.e.a[i] != 0 && !d.is_param(i)) return false;
  return true;
}
static Q row_eval(const CN& c, const std::vector<Q>& x) {
  Q v = c.e.b;
  for (size_t i = 0; i < c.e.a.size() && i < x.size(); ++i) if (c.e.a[i] != 0) v += Q(c.e.a[i]) * x[i];
  return v;
}
static bool row_holds(const CN& c, const std::vector<Q>& x) { Q v = row_eval(c, x); return c.k == ref::EQ ? v == 0 : c.k == ref::GE ? v >= 0 : v > 0; }

static int WINDOW_HI = 6;
static void window_vals(const Data& d, std::vector<Valuation>& out) {
  std::vector<int> ps;
  for (int i = 0; i < d.dim; ++i) if (d.is_param(i) && i != d.big) ps.push_back(i);
  int hi = ps.size() <= 2 ? WINDOW_HI : 4;
  std::vector<long> cur(d.dim, 0);
  std::function<void(size_t)> rec = [&](size_t k) {
    if (k == ps.size()) { Valuation v; v.p = cur; out.push_back(v); return; }
    for (long x = 0; x <= hi; ++x) { cur[ps[k]] = x; rec(k + 1); }
  };
  rec(0);
}
static RefEntry ref_entry(const Data& d, const std::vector<long>& pv) {
  RefEntry e; e.context_ok = true; e.feasible = false;
  std::vector<Q> full(d.dim); for (int i = 0; i < d.dim; ++i) full[i] = Q(pv[i]);
  std::vector<int> vars; for (int i = 0; i < d.dim; ++i) if (!d.is_param(i)) vars.push_back(i);
  Cell c((int)vars.size());
  for (size_t r = 0; r < d.rows.size(); ++r) {
    const CN& cn = CM[d.rows[r]];
    if (row_is_context(cn, d)) { if (!row_holds(cn, full)) e.context_ok = false; continue; }
    Vec a(vars.size()); Q b = cn.e.b;
    for (int i = 0; i < d.dim && i < (int)cn.e.a.size(); ++i) if (cn.e.a[i] != 0 && d.is_param(i)) b += Q(cn.e.a[i]) * full[i];
    for (size_t j = 0; j < vars.size(); ++j) a[j] = vars[j] < (int)cn.e.a.size() ? Q(cn.e.a[vars[j]]) : Q(0);
    c.rows.push_back(Row(a, b, cn.k));
  }
  if (!e.context_ok) return e;
  ref::LexMin lm = ref::lexmin_nonneg(c);
  e.feasible = lm.feasible; e.x = lm.x;
  return e;
}
enum { CNT_SOLVES = CNT_USER, CNT_SPANS, CNT_REFS, CNT_VALS_SKIPPED_CONTEXT, CNT_TERMINAL, CNT_MERGED, CNT_FRESH, CNT_UNFEAS, CNT_BIGCASES, CNT_ARTPARAMS, CNT_DECISIONS, CNT_LEXMINS, CNT_HANGS, CNT_SANDBOXED };

static const RefTable& reference(const Data& d) {
  std::string key = ref_key(d);
  std::unordered_map<std::string, RefTable>::iterator it = REFMEMO.find(key);
  if (it != REFMEMO.end()) return it->second;
  RefGuard guard;
  ProfT pt_("reference");
  RefTable t;
  window_vals(d, t.vals);
  int nb = d.big >= 0 ? 3 : 1;
  for (int b = 0; b < nb; ++b) {
    for (size_t i = 0; i < t.vals.size(); ++i) {
      std::vector<long> pv = t.vals[i].p;
      if (d.big >= 0) pv[d.big] = BIG_M[b];
      RefEntry e = ref_entry(d, pv);
      count(CNT_LEXMINS);
      if (e.context_ok && e.feasible) t.any_feasible = true;
      t.e[b].push_back(e);
    }
  }
  count(CNT_REFS);
  return REFMEMO[key] = t;
}
// Is there any non-negative integral (x, p) satisfying every row?  (decides an UNFEASIBLE verdict beyond the window)
static int fullspace_feasible(const Data& d, Vec& witness) {
  RefTable& t = REFMEMO[ref_key(d)];
  if (t.fullspace >= 0) { witness = t.fullspace_witness; return t.fullspace; }
  RefGuard guard;
  Cell c(d.dim);
  for (size_t r = 0; r < d.rows.size(); ++r) c.rows.push_back(CM[d.rows[r]].row(d.dim));
  c = ref::integer_closure_of_strict(c);
  for (int j = 0; j < d.dim; ++j) c.rows.push_back(Row(ref::unit(d.dim, j), Q(0), ref::GE));
  std::vector<bool> all(d.dim, true);
  Vec x; bool f = ref::int_feasible(c, all, x);
  t.fullspace = f ? 1 : 0; t.fullspace_witness = x; witness = x;
  return t.fullspace;
}

// ------------------------------------------------------------------ spanning the tree (public node interface only)
struct Span {
  bool bottom; std::vector<Q> x;          // values of the variables (in increasing dimension order)
  std::string defect;                     // structural defect met on the path ("" if none)
  int depth, arts;
  Span() : bottom(false), depth(0), arts(0) {}
};
// value of a linear expression on `vals`; *bad is set when it mentions a dimension >= vals.size() or a variable
template <typename E>
static Q eval_le(const E& e, const std::vector<Q>& vals, const Data& d, std::string* bad) {
  Q v = fq(e.inhomogeneous_term());
  for (PPL::dimension_type i = 0; i < e.space_dimension(); ++i) {
    const PPL::Coefficient& c = e.coefficient(PPL::Variable(i));
    if (c == 0) continue;
    if (i >= vals.size()) { if (bad && bad->empty()) *bad = "mentions undeclared artificial parameter (dimension " + std::to_string(i) + ", declared up to " + std::to_string(vals.size()) + ")"; continue; }
    if ((int)i < d.dim && !d.is_param((int)i)) { if (bad && bad->empty()) *bad = std::string("mentions problem variable ") + char('A' + i); continue; }
    v += fq(c) * vals[i];
  }
  return v;
}
// optional per-node statistics of a batch of spans: node -> (times reached, times its own constraints all held)
static std::map<const void*, std::pair<long, long> >* NODE_STATS = 0;
static std::vector<const void*>* FALSE_CHILDREN_TAKEN = 0;     // non-null false children entered by the current span
static int FLIP_AT = -1;                                        // >= 0: the FLIP_AT-th decision node of the path takes the other child
static Span span_tree(const PPL::PIP_Tree_Node* node, const Data& d, const std::vector<long>& pv) {
  Span s;
  std::vector<Q> vals(d.dim);
  for (int i = 0; i < d.dim; ++i) vals[i] = Q(pv[i]);
  if (node == 0) { s.bottom = true; return s; }
  for (;;) {
    ++s.depth;
    for (PPL::PIP_Tree_Node::Artificial_Parameter_Sequence::const_iterator a = node->art_parameter_begin(); a != node->art_parameter_end(); ++a) {
      std::string bad;
      Q num = eval_le(*a, vals, d, &bad);
      if (!bad.empty() && s.defect.empty()) s.defect = "artificial parameter " + bad;
      Q den = fq(a->denominator());
      if (den <= 0) { if (s.defect.empty()) s.defect = "artificial parameter with non-positive denominator"; den = 1; }
      if (!ref::is_integer(num) && s.defect.empty()) s.defect = "artificial parameter numerator not integral";
      Q quo = num / den;
      vals.push_back(Q(ref::floor_q(quo)));
      ++s.arts;
    }
    bool all = true;
    const PPL::Constraint_System& cs = node->constraints();
    for (PPL::Constraint_System::const_iterator c = cs.begin(); c != cs.end(); ++c) {
      std::string bad;
      Q v = eval_le(*c, vals, d, &bad);
      if (!bad.empty() && s.defect.empty()) s.defect = "node constraint " + bad;
      bool ok = c->is_equality() ? v == 0 : c->is_strict_inequality() ? v > 0 : v >= 0;
      if (!ok) all = false;
    }
    if (NODE_STATS && cs.begin() != cs.end()) { std::pair<long, long>& st = (*NODE_STATS)[node]; ++st.first; if (all) ++st.second; }
    if (const PPL::PIP_Decision_Node* dn = node->as_decision()) {
      if (FLIP_AT >= 0 && s.depth - 1 == FLIP_AT) all = !all;
      const PPL::PIP_Tree_Node* ch = dn->child_node(all);
      if (dn->child_node(true) == 0 && s.defect.empty()) s.defect = "decision node without a true child";
      if (FALSE_CHILDREN_TAKEN && !all && ch != 0) FALSE_CHILDREN_TAKEN->push_back(ch);
      if (ch == 0) { s.bottom = true; return s; }
      node = ch;
      continue;
    }
    const PPL::PIP_Solution_Node* sn = node->as_solution();
    if (sn == 0) { s.defect = "node is neither a decision nor a solution node"; s.bottom = true; return s; }
    if (!all) { s.bottom = true; return s; }
    for (int i = 0; i < d.dim; ++i) if (!d.is_param(i)) {
      std::string bad;
      const PPL::Linear_Expression& e = sn->parametric_values(PPL::Variable(i));
      Q v = eval_le(e, vals, d, &bad);
      if (!bad.empty() && s.defect.empty()) s.defect = std::string("parametric_values(") + char('A' + i) + ") " + bad;
      s.x.push_back(v);
    }
    return s;
  }
}

// ------------------------------------------------------------------ operations
enum Kind { AC, ACS, ADDV, ADDP, TOPARAM, CTRL_CUT, CTRL_PIV, BIG, SOLVE, ISSAT, CLEAR, COPY, ASSIGN };
struct Op { Kind k; int arg; };
static std::vector<Op> OPS;
static bool solve_like(Kind k) { return k == SOLVE || k == ISSAT; }
static void build_ops() {
  for (size_t i = 0; i < NBASE; ++i) OPS.push_back(Op{AC, (int)i});
  for (size_t i = 0; i < PAIRS.size(); ++i) OPS.push_back(Op{ACS, (int)i});
  OPS.push_back(Op{ADDV, 1}); OPS.push_back(Op{ADDP, 1});
  for (int i = 0; i < MAXDIM; ++i) OPS.push_back(Op{TOPARAM, i});
  for (int i = 0; i < 3; ++i) OPS.push_back(Op{CTRL_CUT, i});
  for (int i = 0; i < 2; ++i) OPS.push_back(Op{CTRL_PIV, i});
  for (int i = 0; i < MAXDIM; ++i) OPS.push_back(Op{BIG, i});
  OPS.push_back(Op{SOLVE, 0}); OPS.push_back(Op{ISSAT, 0});
  OPS.push_back(Op{CLEAR, 0}); OPS.push_back(Op{COPY, 0}); OPS.push_back(Op{ASSIGN, 0});
}
static std::string op_name(const Op& o) {
  switch (o.k) {
    case AC: return "add_constraint(" + CM[o.arg].str() + ")";
    case ACS: return "add_constraints({" + CM[PAIRS[o.arg].first].str() + ", " + CM[PAIRS[o.arg].second].str() + "})";
    case ADDV: return "add_space_dimensions_and_embed(1, 0)";
    case ADDP: return "add_space_dimensions_and_embed(0, 1)";
    case TOPARAM: return std::string("add_to_parameter_space_dimensions({") + char('A' + o.arg) + "})";
    case CTRL_CUT: return std::string("set_control_parameter(") + CUT_NAME[o.arg] + ")";
    case CTRL_PIV: return std::string("set_control_parameter(") + PIV_NAME[o.arg] + ")";
    case BIG: return std::string("set_big_parameter_dimension(") + char('A' + o.arg) + ")";
    case SOLVE: return "solve()";
    case ISSAT: return "is_satisfiable()";
    case CLEAR: return "clear()";
    case COPY: return "copy-construct";
    case ASSIGN: return "operator=";
  }
  return "?";
}
static std::string op_site(Kind k) { return k == ISSAT ? "PIP_Problem::is_satisfiable" : "PIP_Problem::solve"; }
static int MAXVARS = 3, MAXPARAMS = 3;
static bool enabled(const Op& o, const Data& d, const PIP& p) {
  int internal = (int)p.internal_space_dim;
  switch (o.k) {
    case AC: return CM[o.arg].e.dim() <= d.dim;
    case ACS: return CM[PAIRS[o.arg].first].e.dim() <= d.dim && CM[PAIRS[o.arg].second].e.dim() <= d.dim;
    case ADDV: return d.dim < MAXDIM && d.nvars() < MAXVARS;
    case ADDP: return d.dim < MAXDIM && d.nparams() < MAXPARAMS;
    case TOPARAM: return o.arg < d.dim && o.arg >= internal && !d.is_param(o.arg) && d.nparams() < MAXPARAMS;
    case BIG: return o.arg < d.dim && o.arg >= internal && d.is_param(o.arg) && d.big != o.arg;
    case CTRL_CUT: return d.cut != o.arg;
    case CTRL_PIV: return d.piv != o.arg;
    default: return true;
  }
}
struct Outcome { int status; bool sat; Outcome() : status(-1), sat(false) {} };   // status: 0 UNFEASIBLE, 1 OPTIMIZED

static Outcome apply(std::unique_ptr<PIP>& p, Data& d, const Op& o) {
  Outcome out;
  switch (o.k) {
    case AC: p->add_constraint(CM[o.arg].ppl()); d.rows.push_back(o.arg); break;
    case ACS: { PPL::Constraint_System cs; cs.insert(CM[PAIRS[o.arg].first].ppl()); cs.insert(CM[PAIRS[o.arg].second].ppl());
                p->add_constraints(cs); d.rows.push_back(PAIRS[o.arg].first); d.rows.push_back(PAIRS[o.arg].second); break; }
    case ADDV: p->add_space_dimensions_and_embed(1, 0); d.dim += 1; break;
    case ADDP: p->add_space_dimensions_and_embed(0, 1); d.params |= 1u << d.dim; d.dim += 1; break;
    case TOPARAM: { PPL::Variables_Set s; s.insert(PPL::Variable(o.arg)); p->add_to_parameter_space_dimensions(s); d.params |= 1u << o.arg; break; }
    case CTRL_CUT: p->set_control_parameter(CUT_VAL[o.arg]); d.cut = o.arg; break;
    case CTRL_PIV: p->set_control_parameter(PIV_VAL[o.arg]); d.piv = o.arg; break;
    case BIG: p->set_big_parameter_dimension(o.arg); d.big = o.arg; break;
    case CLEAR: p->clear(); d = Data(); break;
    case COPY: { std::unique_ptr<PIP> q(new PIP(*p)); p.swap(q); break; }
    case ASSIGN: { std::unique_ptr<PIP> q(new PIP(1)); *q = *p; p.swap(q); break; }
    case SOLVE: out.status = p->solve() == PPL::OPTIMIZED_PIP_PROBLEM ? 1 : 0; break;
    case ISSAT: out.sat = p->is_satisfiable(); out.status = out.sat ? 1 : 0; break;
  }
  return out;
}

static std::unique_ptr<PIP> build_fresh(const Data& d, bool via_ctor) {
  std::unique_ptr<PIP> p;
  PPL::Variables_Set ps;
  for (int i = 0; i < d.dim; ++i) if (d.is_param(i)) ps.insert(PPL::Variable(i));
  if (via_ctor) {
    std::vector<PPL::Constraint> cs;
    for (size_t i = 0; i < d.rows.size(); ++i) cs.push_back(CM[d.rows[i]].ppl());
    p.reset(new PIP(d.dim, cs.begin(), cs.end(), ps));
  } else {
    p.reset(new PIP(d.dim));
    if (!ps.empty()) p->add_to_parameter_space_dimensions(ps);
    for (size_t i = 0; i < d.rows.size(); ++i) p->add_constraint(CM[d.rows[i]].ppl());
  }
  if (d.big >= 0) p->set_big_parameter_dimension(d.big);
  p->set_control_parameter(CUT_VAL[d.cut]);
  p->set_control_parameter(PIV_VAL[d.piv]);
  return p;
}

// input predicate for the big-parameter findings: the big parameter occurs in a row together with a variable whose
// coefficient is not +-1 (the solution then needs artificial parameters that grow with the big parameter, while
// row_sign() decides signs from the coefficient of the big parameter alone)
static bool big_with_non_unit_coefficient(const Data& d) {
  if (d.big < 0) return false;
  for (size_t r = 0; r < d.rows.size(); ++r) {
    const LE& e = CM[d.rows[r]].e;
    if (d.big >= (int)e.a.size() || e.a[d.big] == 0) continue;
    for (int i = 0; i < d.dim && i < (int)e.a.size(); ++i) if (!d.is_param(i) && e.a[i] != 0 && e.a[i] != 1 && e.a[i] != -1) return true;
  }
  return false;
}
static std::string hang_trigger(const Data& d, int rc);
// the rational relaxation over (x, p) >= 0 keeps some parameter below 1: the region exists only where that parameter is 0
static bool some_parameter_forced_to_zero(const Data& d) {
  Cell c(d.dim);
  for (size_t r = 0; r < d.rows.size(); ++r) { Row rw = CM[d.rows[r]].row(d.dim); if (rw.k == ref::GT) rw.k = ref::GE; c.rows.push_back(rw); }
  for (int j = 0; j < d.dim; ++j) c.rows.push_back(Row(ref::unit(d.dim, j), Q(0), ref::GE));
  for (int j = 0; j < d.dim; ++j) if (d.is_param(j) && j != d.big) {
    ref::Range rg = ref::range_of(c, ref::unit(d.dim, j), Q(0));
    if (!rg.empty && rg.has_hi && rg.hi < 1) return true;
  }
  return false;
}

// ------------------------------------------------------------------ guard for solves that may not terminate
// PPL's cooperative cancellation: a CPU-time signal makes `abandon_expensive_computations` point to a throwable and the
// main loop of PIP_Solution_Node::solve calls maybe_abandon() at every iteration.  The object is discarded afterwards.
// (A divergence that never reaches maybe_abandon() is caught by Pool's per-step alarm.)
static double GUARD_S = 0.05, CONFIRM_S = 1.0;
// (An earlier version recorded WHERE the computation was abandoned -- inside compatibility_check(Matrix&) or in the main
// loop of PIP_Solution_Node::solve -- and used that location as the trigger of a known finding.  The non-terminating
// computation was a cycle of the main loop that calls compatibility_check once per iteration, so the location depended on
// the machine's speed: removed.  A hang is attributed by deterministic predicates over the data / the tree only.)
struct Abandoned : public PPL::Throwable { void throw_me() const { throw *this; } };
static Abandoned ABANDONED;
// The timer keeps ticking after the request: a computation that does not reach maybe_abandon() within HARD_S more
// seconds of CPU ends the worker with exit status 97; Pool re-runs that very step alone, sees the same exit, and the
// parent reports a non-cooperative hang of that step.
static const double TICK_S = 0.25, HARD_S = 3.0;
static volatile int TICKS_AFTER_REQUEST = 0;
static void on_prof(int) {
  if (PPL::abandon_expensive_computations == 0) { PPL::abandon_expensive_computations = &ABANDONED; TICKS_AFTER_REQUEST = 0; return; }
  if (++TICKS_AFTER_REQUEST * TICK_S >= HARD_S) _exit(97);
}
// Step-wide watchdog on a second timer (user CPU time) for the library code executed outside guarded(): copies, OK(),
// ascii_dump, the public node interface used by the spanning code.
static void on_vtalrm(int) { _exit(97); }
static void watchdog(double cpu_s) {
  static bool installed = false;
  if (!installed) { struct sigaction sa; memset(&sa, 0, sizeof sa); sa.sa_handler = on_vtalrm; sigaction(SIGVTALRM, &sa, 0); installed = true; }
  struct itimerval tv; memset(&tv, 0, sizeof tv);
  tv.it_value.tv_sec = (long)cpu_s; tv.it_value.tv_usec = (long)((cpu_s - (long)cpu_s) * 1e6);
  setitimer(ITIMER_VIRTUAL, &tv, 0);
}
// 0 if f() returned, SIGPROF if abandoned after cpu_s seconds of CPU, 1077 on memory exhaustion
static int guarded(const std::function<void()>& f, double cpu_s) {
  static bool installed = false;
  if (!installed) { struct sigaction sa; memset(&sa, 0, sizeof sa); sa.sa_handler = on_prof; sigaction(SIGPROF, &sa, 0); installed = true; }
  struct itimerval tv, off; memset(&tv, 0, sizeof tv); memset(&off, 0, sizeof off);
  tv.it_value.tv_sec = (long)cpu_s; tv.it_value.tv_usec = (long)((cpu_s - (long)cpu_s) * 1e6);
  tv.it_interval.tv_sec = 0; tv.it_interval.tv_usec = (long)(TICK_S * 1e6);
  PPL::abandon_expensive_computations = 0;
  setitimer(ITIMER_PROF, &tv, 0);
  int rc = 0;
  try { f(); }
  catch (const Abandoned&) { rc = SIGPROF; }
  catch (const std::bad_alloc&) { rc = 1077; }
  setitimer(ITIMER_PROF, &off, 0);
  PPL::abandon_expensive_computations = 0;
  return rc;
}
static std::string guard_clause(int rc) { return (rc == SIGPROF || rc == 1090 || rc == 1091 || rc == 1092) ? "hang" : rc == 1077 ? "crash:memory-exhausted" : std::string("crash:") + signame(rc); }
// Hard guard: the call is first executed in a forked child under a CPU budget (the child is killed by SIGPROF when it
// is exhausted).  Used where a loop without cancellation points was met: Tableau::is_better_pivot, reached only under
// PIVOT_ROW_STRATEGY_MAX_COLUMN.  Returns 0 if the child finished.
static double SANDBOX_S = 0.3;
// in the sandbox child: first expiry asks for cooperative abandonment and re-arms the timer; the second one kills
static void on_prof_child(int) {
  if (PPL::abandon_expensive_computations != 0) { signal(SIGPROF, SIG_DFL); raise(SIGPROF); return; }
  PPL::abandon_expensive_computations = &ABANDONED;
  // a generous window: one iteration (one cancellation point) can take longer than a fraction of a second on a loaded
  // machine
  struct itimerval tv; memset(&tv, 0, sizeof tv); tv.it_value.tv_sec = 4; setitimer(ITIMER_PROF, &tv, 0);
}
static int sandbox(const std::function<void()>& f, double cpu_s) {
  fflush(stdout); fflush(stderr);
  pid_t pid = fork();
  if (pid < 0) { perror("fork"); _exit(3); }
  if (pid == 0) {
    alarm(0);
    struct rlimit rl; rl.rlim_cur = rl.rlim_max = 0; setrlimit(RLIMIT_CORE, &rl);
    struct itimerval tv; memset(&tv, 0, sizeof tv);
    tv.it_value.tv_sec = (long)cpu_s; tv.it_value.tv_usec = (long)((cpu_s - (long)cpu_s) * 1e6);
    setitimer(ITIMER_PROF, &tv, 0);
    // inside the hard limit, the cooperative guard first: it also tells where the computation was stuck
    try {
      PPL::abandon_expensive_computations = 0;
      struct sigaction sa; memset(&sa, 0, sizeof sa); sa.sa_handler = on_prof_child; sigaction(SIGPROF, &sa, 0);
      try { f(); } catch (const Abandoned&) { _exit(91); }
    } catch (const std::bad_alloc&) { _exit(77); } catch (...) { _exit(78); }
    _exit(0);
  }
  int st = 0;
  while (waitpid(pid, &st, 0) < 0 && errno == EINTR) {}
  if (WIFEXITED(st) && WEXITSTATUS(st) == 0) return 0;
  if (WIFSIGNALED(st)) return WTERMSIG(st) == SIGPROF ? 1092 : WTERMSIG(st);
  return 1000 + WEXITSTATUS(st);
}
static std::string hang_trigger(const Data& d, int rc) {
  // rc: SIGPROF = abandoned by the in-process guard; 1091 = abandoned in the sandbox child; 1092 = the child had to be
  // killed (loop without cancellation points)
  if (rc == 1092 && d.piv == 1) return "pivot_row_strategy_max_column";
  return "none";
}
// Runs body() in a forked child that then exits; returns 0, the terminating signal, or 1000 + exit status.
static int isolated(const std::function<void()>& body) {
  fflush(stdout); fflush(stderr);
  pid_t pid = fork();
  if (pid < 0) { perror("fork"); _exit(3); }
  if (pid == 0) {
    alarm(0);
    prctl(PR_SET_PDEATHSIG, SIGKILL);
    struct rlimit rl; rl.rlim_cur = rl.rlim_max = 0; setrlimit(RLIMIT_CORE, &rl);
    int fd = open("/dev/null", O_WRONLY); if (fd >= 0) dup2(fd, 2);
    watchdog(20.0);
    try { body(); } catch (...) { _exit(78); }
    _exit(0);
  }
  int st = 0;
  while (waitpid(pid, &st, 0) < 0 && errno == EINTR) {}
  if (WIFEXITED(st) && WEXITSTATUS(st) == 0) return 0;
  if (WIFSIGNALED(st)) return WTERMSIG(st);
  return 1000 + WEXITSTATUS(st);
}
// cooperative guard everywhere, hard guard in addition where needed
static int run_solve_guarded(bool hard, const std::function<void()>& probe, const std::function<void()>& real, bool confirm) {
  if (hard) { count(CNT_SANDBOXED); int rc = sandbox(probe, confirm ? SANDBOX_S * 10 : SANDBOX_S); if (rc) return rc; }
  return guarded(real, confirm ? CONFIRM_S : GUARD_S);
}

// ------------------------------------------------------------------ triggers (predicates over the final data)
// "feasible only for small parameter values": some context-satisfying valuation of the window is feasible, and every
// feasible one lies strictly inside the window on at least one parameter while larger values of it are infeasible --
// approximated by: the rational relaxation over (x, p) >= 0 is bounded in some parameter direction.
static bool some_parameter_bounded(const Data& d) {
  Cell c(d.dim);
  for (size_t r = 0; r < d.rows.size(); ++r) { Row rw = CM[d.rows[r]].row(d.dim); if (rw.k == ref::GT) rw.k = ref::GE; c.rows.push_back(rw); }
  for (int j = 0; j < d.dim; ++j) c.rows.push_back(Row(ref::unit(d.dim, j), Q(0), ref::GE));
  for (int j = 0; j < d.dim; ++j) if (d.is_param(j) && j != d.big) {
    ref::Range rg = ref::range_of(c, ref::unit(d.dim, j), Q(0));
    if (!rg.empty && rg.has_hi) return true;
  }
  return false;
}


// Symptom predicate on the returned tree: some node is reached for valuations of the enlarged window {0..12}^k but its
// own condition holds for none of them -- the algorithm only splits on conditions that are compatible with the context,
// so such a node means that a test above it was lost or replaced (PIP_Solution_Node::solve, "SWAP BRANCHES" exit).
static bool tree_has_dead_condition(const PPL::PIP_Tree_Node* root, const Data& d) {
  std::map<const void*, std::pair<long, long> > stats;
  NODE_STATS = &stats;
  std::vector<int> ps; for (int i = 0; i < d.dim; ++i) if (d.is_param(i) && i != d.big) ps.push_back(i);
  std::vector<long> cur(d.dim, 0); if (d.big >= 0) cur[d.big] = BIG_M[0];
  long hi = ps.size() <= 2 ? 12 : 6;
  std::function<void(size_t)> rec = [&](size_t k) {
    if (k == ps.size()) { span_tree(root, d, cur); return; }
    for (long x = 0; x <= hi; ++x) { cur[ps[k]] = x; rec(k + 1); }
  };
  rec(0);
  NODE_STATS = 0;
  for (std::map<const void*, std::pair<long, long> >::iterator i = stats.begin(); i != stats.end(); ++i) if (i->second.first > 0 && i->second.second == 0) return true;
  return false;
}

// Second symptom predicate of the same defect: some decision node has a false child that is entered only by valuations
// for which the reference finds no point at all (enlarged window, context-satisfying valuations only).  The solver
// returns a null child for an unfeasible branch, so a non-null false child that serves unfeasible valuations only is the
// node that was kept by the "SWAP BRANCHES" exit after its own test had been overwritten.
static bool false_child_only_where_unfeasible(const PPL::PIP_Tree_Node* root, const Data& d) {
  std::map<const void*, std::pair<long, long> > stats;     // false child -> (valuations entering it, feasible ones among them)
  std::vector<int> ps; for (int i = 0; i < d.dim; ++i) if (d.is_param(i) && i != d.big) ps.push_back(i);
  std::vector<long> cur(d.dim, 0); if (d.big >= 0) cur[d.big] = BIG_M[0];
  long hi = ps.size() <= 2 ? 12 : 6;
  std::vector<const void*> taken;
  std::function<void(size_t)> rec = [&](size_t k) {
    if (k == ps.size()) {
      RefEntry re = ref_entry(d, cur);
      if (!re.context_ok) return;
      taken.clear(); FALSE_CHILDREN_TAKEN = &taken;
      span_tree(root, d, cur);
      FALSE_CHILDREN_TAKEN = 0;
      for (size_t i = 0; i < taken.size(); ++i) { std::pair<long, long>& st = stats[taken[i]]; ++st.first; if (re.feasible) ++st.second; }
      return;
    }
    for (long x = 0; x <= hi; ++x) { cur[ps[k]] = x; rec(k + 1); }
  };
  rec(0);
  for (std::map<const void*, std::pair<long, long> >::iterator i = stats.begin(); i != stats.end(); ++i) if (i->second.first > 0 && i->second.second == 0) return true;
  return false;
}

static int lexcmp(const std::vector<Q>& a, const std::vector<Z>& b);
// Third symptom predicate of the same defect.  The "SWAP BRANCHES" exit overwrites the condition of ONE node (a decision
// constraint is replaced, or a solution node loses its own condition); every other node, and every solution expression,
// is still right.  So each wrong answer must be repaired by ONE change of route: either the leaf that was reached should
// not have been (the reference says bottom), or taking the other child at exactly one decision node of the path yields
// the reference's answer.  Wrong VALUES (a point that no leaf of the tree produces for that valuation) are not explained.
static bool wrong_answers_explained_by_one_condition(const PPL::PIP_Tree_Node* root, const Data& d) {
  std::vector<int> ps; for (int i = 0; i < d.dim; ++i) if (d.is_param(i) && i != d.big) ps.push_back(i);
  std::vector<long> cur(d.dim, 0); if (d.big >= 0) cur[d.big] = BIG_M[0];
  long hi = ps.size() <= 2 ? 12 : 6;
  bool all_explained = true; long wrong = 0;
  auto same = [](const Span& s, const RefEntry& re) { if (s.bottom || !re.feasible) return s.bottom == !re.feasible; return lexcmp(s.x, re.x) == 0; };
  std::function<void(size_t)> rec = [&](size_t k) {
    if (!all_explained) return;
    if (k == ps.size()) {
      RefEntry re = ref_entry(d, cur);
      if (!re.context_ok) return;
      Span s = span_tree(root, d, cur);
      if (!s.defect.empty()) { all_explained = false; return; }
      if (same(s, re)) return;
      ++wrong;
      if (!re.feasible) return;                      // a leaf was reached that should not have been
      bool fixed = false;
      for (int f = 0; f < s.depth - 1 && !fixed; ++f) { FLIP_AT = f; Span t = span_tree(root, d, cur); FLIP_AT = -1; if (t.defect.empty() && same(t, re)) fixed = true; }
      if (!fixed) all_explained = false;
      return;
    }
    for (long x = 0; x <= hi; ++x) { cur[ps[k]] = x; rec(k + 1); }
  };
  rec(0);
  FLIP_AT = -1;
  return all_explained && wrong > 0;
}
// ------------------------------------------------------------------ the oracle for one solved problem
struct Reporter {
  std::string input; bool live;
  std::string override_none, override_all;     // state-based triggers of the incremental exploration
  bool first_solve;                             // the object had no solution tree before this solve (symptom triggers of the first-solve defects apply)
  Reporter() : live(true), first_solve(true) {}
  void viol(const std::string& site, const std::string& clause, const std::string& trig0, const std::string& obs, const std::string& exp, const std::string& detail = "") const {
    if (!live) return;
    std::string trig = !override_all.empty() ? override_all : (trig0 == "none" && !override_none.empty()) ? override_none : trig0;
    // a malformed tree after a re-solve (artificial parameters used before / without their declaration) is never
    // attributed to the state-based incremental findings
    // (except to T2, whose very symptom is a stale artificial-parameter index in a node)
    // -- this holds for the "used before / without its declaration" form; a node that mentions a problem VARIABLE (a stale
    // index) also comes out of the unchanged library's heap-corrupting re-solves and stays attributed.
    if (clause == "tree:malformed" && !first_solve && trig != "dimensions_added_to_tree_with_artificial_parameters" && obs.find("undeclared") != std::string::npos) trig = "none";
    count(CNT_VIOL);
    // one finding group for the incremental-update family: the sub-check that failed goes to the detail
    std::string st = site, cl = clause, det = detail;
    { size_t q = st.find("(incremental)"); if (q != std::string::npos) { st = st.substr(0, q); det = "INCREMENTAL ONLY: a fresh problem built from the same final data is right. " + det; } }
    if (trig == "resolve_of_tree_with_decision_nodes" || trig == "resolve_of_decision_node_declaring_artificial_parameters" ||
        trig == "pending_row_parameter_column_overwritten_after_nonbasic_variable" || trig == "dimensions_added_to_tree_with_artificial_parameters") {
      cl = "incremental:wrong-answer"; det = "failed check: " + clause + ". " + detail;
    }
    if (!violcap().admit(st + "|" + cl + "|" + trig)) return;
    report_violation(st, cl, trig, input, obs, exp, det);
  }
};
static std::string val_str(const Data& d, const std::vector<long>& pv) {
  std::string s;
  for (int i = 0; i < d.dim; ++i) if (d.is_param(i)) { if (!s.empty()) s += ","; s += std::string(1, char('A' + i)) + "=" + std::to_string(pv[i]); }
  return s.empty() ? "(no parameters)" : s;
}
static std::string tree_text(const PIP& p) { std::ostringstream s; try { p.print_solution(s); } catch (...) { s << "(not printable)"; } std::string t = s.str(); if (t.size() > 900) t = t.substr(0, 900) + "..."; return t; }

// direct evaluation of every row on (x, p)
static std::string point_defect(const Data& d, const std::vector<long>& pv, const std::vector<Q>& x) {
  std::vector<Q> full(d.dim); size_t k = 0;
  for (int i = 0; i < d.dim; ++i) full[i] = d.is_param(i) ? Q(pv[i]) : x[k++];
  for (size_t i = 0; i < x.size(); ++i) { if (!ref::is_integer(x[i])) return "non-integral value " + qstr(x[i]); if (x[i] < 0) return "negative value " + qstr(x[i]); }
  for (size_t r = 0; r < d.rows.size(); ++r) if (!row_holds(CM[d.rows[r]], full)) return "violates " + CM[d.rows[r]].str();
  return "";
}
static int lexcmp(const std::vector<Q>& a, const std::vector<Z>& b) {
  for (size_t i = 0; i < a.size(); ++i) { Q bb(b[i]); if (a[i] < bb) return -1; if (a[i] > bb) return 1; }
  return 0;
}

// Returns false when some answer is wrong.
static bool judge(const PIP& p, int status, const Data& d, const Reporter& rp, const std::string& site) {
  const RefTable& rt = reference(d);
  bool ok = true;
  count(CNT_CHECKS);
  const PPL::PIP_Tree_Node* root = 0;
  if (status == 1) {
    root = p.solution();
    if (root == 0) { rp.viol(site, "optimized-but-null-tree", "none", "solution() == 0", "a tree"); return false; }
  } else {
    count(CNT_UNFEAS);
    if (p.solution() != 0) { rp.viol(site, "unfeasible-but-tree", "none", "solution() != 0", "null"); ok = false; }
  }
  std::string bounded_trig;     // computed lazily
  auto small_param_trigger = [&]() -> std::string {
    if (bounded_trig.empty()) {
      std::set<int> distinct(d.rows.begin(), d.rows.end());
      // the defect repaired by 41459f2 showed with <= 3 rows; what is left of it needs at least 4
      bounded_trig = !some_parameter_bounded(d) ? "none" : distinct.size() < 4 ? "feasible_region_bounds_a_parameter"
                   : some_parameter_forced_to_zero(d) ? "region_forces_a_parameter_to_zero_with_4_or_more_rows" : "feasible_region_bounds_a_parameter_with_4_or_more_rows";
    }
    return bounded_trig;
  };
  int nb = d.big >= 0 ? 3 : 1;
  if (d.big >= 0) count(CNT_BIGCASES);
  size_t tree_bottom_everywhere = 1;
  for (size_t i = 0; i < rt.vals.size(); ++i) {
    // a mismatch must persist for every value of the big parameter
    std::string clause[3], obs[3], exp[3], det[3], trig[3];
    int nbad = 0, nctx = 0;
    for (int b = 0; b < nb; ++b) {
      const RefEntry& re = rt.e[b][i];
      if (!re.context_ok) { count(CNT_VALS_SKIPPED_CONTEXT); continue; }
      ++nctx;
      std::vector<long> pv = rt.vals[i].p;
      if (d.big >= 0) pv[d.big] = BIG_M[b];
      if (status == 0) {
        if (re.feasible) { clause[b] = "status:unfeasible-but-some-valuation-feasible"; obs[b] = "UNFEASIBLE_PIP_PROBLEM"; exp[b] = "lexmin " + zvec_str(re.x) + " at " + val_str(d, pv); trig[b] = small_param_trigger(); ++nbad; }
        continue;
      }
      Span s = span_tree(root, d, pv);
      count(CNT_SPANS); count(CNT_ARTPARAMS, s.arts); count(CNT_DECISIONS, s.depth - 1);
      if (!s.bottom) tree_bottom_everywhere = 0;
      if (!s.defect.empty()) { clause[b] = "tree:malformed"; obs[b] = s.defect + " at " + val_str(d, pv); exp[b] = "well-formed path"; trig[b] = (rp.first_solve && s.defect.find("undeclared") != std::string::npos) ? "undeclared_artificial_parameter" : "none"; ++nbad; continue; }
      if (s.bottom) {
        if (re.feasible) { clause[b] = "tree:bottom-on-feasible-valuation"; obs[b] = "_|_ at " + val_str(d, pv); exp[b] = "lexmin " + zvec_str(re.x); trig[b] = small_param_trigger(); ++nbad; }
        continue;
      }
      std::string def = point_defect(d, pv, s.x);
      if (!re.feasible) {
        if (def.empty()) { sink().line(J().str("t", "error").str("msg", "reference found no point but the tree's point " + ref::vec_str(s.x) + " is feasible at " + val_str(d, pv) + " for " + data_json(d)).done()); continue; }
        clause[b] = "tree:point-on-unfeasible-valuation"; obs[b] = ref::vec_str(s.x) + " at " + val_str(d, pv) + " (" + def + ")"; exp[b] = "_|_"; trig[b] = "none"; ++nbad; continue;
      }
      int cmp = lexcmp(s.x, re.x);
      if (cmp == 0) continue;
      if (!def.empty()) { clause[b] = "tree:point-not-feasible"; obs[b] = ref::vec_str(s.x) + " at " + val_str(d, pv) + " (" + def + ")"; exp[b] = "lexmin " + zvec_str(re.x); trig[b] = "none"; ++nbad; continue; }
      if (cmp < 0) { sink().line(J().str("t", "error").str("msg", "the tree's feasible point " + ref::vec_str(s.x) + " is lexicographically smaller than the reference's " + zvec_str(re.x) + " at " + val_str(d, pv) + " for " + data_json(d)).done()); continue; }
      clause[b] = "tree:not-lexicographic-minimum"; obs[b] = ref::vec_str(s.x) + " at " + val_str(d, pv); exp[b] = "lexmin " + zvec_str(re.x); trig[b] = "none"; ++nbad;
    }
    if (nbad > 0 && nbad == nctx && (d.big < 0 || nctx == nb)) {
      std::string dt = det[0];
      if (status == 1) dt += "tree: " + tree_text(p);
      int b0 = 0; while (clause[b0].empty()) ++b0;
      if (trig[b0] == "none" && big_with_non_unit_coefficient(d)) trig[b0] = "big_parameter_in_row_with_non_unit_variable_coefficient";
      if (rp.first_solve && status == 1 && trig[b0] == "none" && clause[b0].compare(0, 5, "tree:") == 0 && tree_has_dead_condition(root, d)) trig[b0] = "tree_node_condition_never_true_when_reached";
      if (rp.first_solve && status == 1 && trig[b0] == "none" && clause[b0].compare(0, 5, "tree:") == 0) { RefGuard g; if (false_child_only_where_unfeasible(root, d)) trig[b0] = "false_child_entered_only_where_unfeasible"; }
      if (rp.first_solve && status == 1 && trig[b0] == "none" && clause[b0].compare(0, 5, "tree:") == 0 && clause[b0] != "tree:malformed") { RefGuard g; if (wrong_answers_explained_by_one_condition(root, d)) trig[b0] = "wrong_answers_repaired_by_one_lost_or_flipped_condition"; }
      rp.viol(site, clause[b0], trig[b0], obs[b0], exp[b0], dt);
      ok = false;
      break;          // one finding per judged problem: the first valuation that fails
    }
  }
  // verdicts that the finite window cannot settle are decided over all of N^(vars + params) (no big parameter)
  if (ok && d.big < 0 && !rt.any_feasible) {
    Vec w;
    int fs = fullspace_feasible(d, w);
    if (status == 0 && fs == 1) {
      std::vector<Q> full(w.begin(), w.end()); bool sat = true;
      for (size_t r = 0; r < d.rows.size(); ++r) if (!row_holds(CM[d.rows[r]], full)) sat = false;
      if (sat) { rp.viol(site, "status:unfeasible-but-some-valuation-feasible", "none", "UNFEASIBLE_PIP_PROBLEM", "feasible at (dimensions in order) " + ref::vec_str(w), "witness outside the window"); ok = false; }
    }
    if (status == 1 && fs == 0 && tree_bottom_everywhere) {
      rp.viol(site, "status:optimized-but-unfeasible-for-every-valuation", rp.first_solve ? "none" : "resolve_over_existing_tree", "OPTIMIZED_PIP_PROBLEM, tree: " + tree_text(p), "UNFEASIBLE_PIP_PROBLEM (no non-negative integral (x, p) satisfies the rows)");
      ok = false;
    }
  }
  return ok;
}

// ------------------------------------------------------------------ shared crash bookkeeping
struct BadList { volatile long long n; long long item[8192], sub[8192]; };
static BadList* BAD = 0;
static bool is_bad(long long item, long long sub) { for (long long i = 0; i < BAD->n; ++i) if (BAD->item[i] == item && BAD->sub[i] == sub) return true; return false; }
struct CrashInfo { volatile int mode, init, n, ops[12], trig; char desc[1500]; };     // trig: 0 none, 1 max_column, 2 re-solve over a tree
static CrashInfo* CRASH = 0;
// state predicates of the incremental findings <-> small codes published to the parent before a risky step
static int trig_code(const std::string& t) {
  if (t.empty()) return 0;
  if (t[0] == 'p') return 2;
  if (t[0] == 'd') return 3;
  return t.find("declaring") != std::string::npos ? 6 : 4;
}
static std::string trig_name(int c) {
  return c == 2 ? "pending_row_parameter_column_overwritten_after_nonbasic_variable" : c == 3 ? "dimensions_added_to_tree_with_artificial_parameters"
       : c == 4 ? "resolve_of_tree_with_decision_nodes" : c == 6 ? "resolve_of_decision_node_declaring_artificial_parameters" : "none";
}

// ------------------------------------------------------------------ mode fresh
struct Layout { int dim; unsigned params; int big; };
static std::vector<Layout> LAYOUTS;
struct FreshCase { int layout; std::vector<int> rows; };
static std::vector<FreshCase> FRESH;
static const int FRESH_BATCH = 8;
static int NSTRAT = 6;          // strategy combinations tried per fresh problem (the first NSTRAT of cutting x pivot-row)
static bool WITH_ADD_ROUTE = true;

static Data fresh_data(const FreshCase& fc, int strat) {
  Data d; const Layout& l = LAYOUTS[fc.layout];
  d.dim = l.dim; d.params = l.params; d.big = l.big; d.rows = fc.rows; d.cut = strat % 3; d.piv = strat / 3;
  return d;
}
static void run_fresh_item(long long item, long long sub_start) {
  prctl(PR_SET_PDEATHSIG, SIGKILL); if (getppid() == 1) _exit(0);      // a worker never outlives the harness process
  long long only = pool().only_sub;
  size_t lo = (size_t)item * FRESH_BATCH, hi = std::min(FRESH.size(), lo + FRESH_BATCH);
  long long sub = 0;
  for (size_t ci = lo; ci < hi; ++ci) for (int strat = 0; strat < 6; ++strat) for (int ctor = 1; ctor >= 0; --ctor) {
    if (strat >= NSTRAT || (ctor == 0 && !WITH_ADD_ROUTE)) { ++sub; continue; }
    long long my = sub++;
    if (only >= 0 && my > only) return;
    if (!pool().want(my, sub_start)) continue;
    if (ctor == 0 && strat != 0) continue;                 // the add_constraint route once per problem
    if (ARGS.expired()) { count(CNT_SKIPPED); return; }
    Data d = fresh_data(FRESH[ci], strat);
    if (pool().worker_id >= 0) { CrashInfo& c = CRASH[pool().worker_id]; c.mode = 0; std::string dj = data_json(d); strncpy(c.desc, dj.c_str(), sizeof c.desc - 1); c.desc[sizeof c.desc - 1] = 0; }
    pool().step(my);
    watchdog(20.0);
    std::unique_ptr<PIP> p = build_fresh(d, ctor != 0);
    int st = 0;
    Reporter rp; rp.live = true;
    rp.input = J().str("mode", "fresh").str("built_by", ctor ? "PIP_Problem(dim, first, last, params)" : "PIP_Problem(dim) + add_to_parameter_space_dimensions + add_constraint...").raw("problem", data_json(d)).done();
    bool ctor_b = ctor != 0;
    int rc = run_solve_guarded(d.piv == 1, [&]() { std::unique_ptr<PIP> t = build_fresh(d, ctor_b); t->solve(); },
                               [&]() { st = p->solve() == PPL::OPTIMIZED_PIP_PROBLEM ? 1 : 0; }, false);
    count(CNT_SOLVES); count(CNT_TRANS); count(CNT_FRESH); count(CNT_STATES);
    if (rc) {
      count(CNT_HANGS);
      std::string trig = hang_trigger(d, rc);
      if (violcap().admit("hang|" + guard_clause(rc))) {
        // re-run alone with a much larger budget before calling it a hang
        std::unique_ptr<PIP> q = build_fresh(d, ctor_b);
        int rc2 = run_solve_guarded(d.piv == 1, [&]() { std::unique_ptr<PIP> t = build_fresh(d, ctor_b); t->solve(); }, [&]() { q->solve(); }, true);
        if (rc2 && trig == "none") trig = hang_trigger(d, rc2);      // the location of either run
        if (rc2) report_violation("PIP_Problem::solve", guard_clause(rc2), trig, rp.input, guard_clause(rc2) + " (no answer within " + std::to_string(d.piv == 1 ? SANDBOX_S * 10 : CONFIRM_S) + " s CPU, alone)", "an answer");
      }
      continue;
    }
    if (!p->OK()) rp.viol("PIP_Problem::solve", "invariant:OK()", "none", "OK() false", "OK() true");
    judge(*p, st, d, rp, "PIP_Problem::solve");
  }
}

// ------------------------------------------------------------------ mode resolve: structured incremental family
// Base problems = the boxed one-shot problems whose solution tree has a DECISION node that declares an artificial
// parameter above a node that declares one of its own (a cut generated before a parametric split); each is solved,
// then each row of a small menu (parameter-only and mixed rows) is added to a copy and the copy is re-solved and judged
// against the brute-force lexicographic minimum of the extended problem.
static bool has_art_under_art_decision(const PPL::PIP_Tree_Node* n, bool above) {
  if (n == 0) return false;
  bool here = n->art_parameter_count() != 0;
  if (here && above) return true;
  const PPL::PIP_Decision_Node* dn = n->as_decision();
  if (dn == 0) return false;
  bool a = above || here;
  return has_art_under_art_decision(dn->child_node(true), a) || has_art_under_art_decision(dn->child_node(false), a);
}
static std::string incremental_trigger(const PIP& p);
static bool wrong_answers_explained_by_one_condition(const PPL::PIP_Tree_Node* root, const Data& d);
static void run_resolve_item(long long item, long long sub_start) {
  prctl(PR_SET_PDEATHSIG, SIGKILL); if (getppid() == 1) _exit(0);
  long long only = pool().only_sub;
  size_t lo = (size_t)item * FRESH_BATCH, hi = std::min(FRESH.size(), lo + FRESH_BATCH);
  long long sub = 0;
  for (size_t ci = lo; ci < hi; ++ci) for (int strat = 0; strat < NSTRAT; ++strat) {
    const BoxedMenu& bm = BOXED[FRESH[ci].layout];
    // sub-steps: 0 = first solve, 1 + e = re-solve with extra row e
    long long base_sub = sub; sub += 1 + (long long)bm.extra.size();
    if (only >= 0 && base_sub > only) return;
    if (only >= 0 ? (only >= sub) : (sub_start >= sub)) continue;
    if (ARGS.expired()) { count(CNT_SKIPPED); return; }
    Data d = fresh_data(FRESH[ci], strat);
    if (pool().worker_id >= 0) { CrashInfo& c = CRASH[pool().worker_id]; c.mode = 0; c.trig = 0; std::string dj = data_json(d); strncpy(c.desc, dj.c_str(), sizeof c.desc - 1); c.desc[sizeof c.desc - 1] = 0; }
    pool().step(base_sub);
    watchdog(20.0);
    std::unique_ptr<PIP> p = build_fresh(d, true);
    int st = 0;
    int rc = run_solve_guarded(d.piv == 1, [&]() { std::unique_ptr<PIP> t = build_fresh(d, true); t->solve(); }, [&]() { st = p->solve() == PPL::OPTIMIZED_PIP_PROBLEM ? 1 : 0; }, false);
    count(CNT_SOLVES); count(CNT_TRANS);
    if (rc || st == 0) continue;                                   // first solves are judged by the boxed family
    if (!has_art_under_art_decision(p->solution(), false)) continue;
    count(CNT_STATES);
    for (size_t e = 0; e < bm.extra.size(); ++e) {
      long long my = base_sub + 1 + (long long)e;
      if (!pool().want(my, sub_start)) continue;
      if (is_bad(item, my)) continue;
      Data d1 = d; d1.rows.push_back(bm.extra[e]);
      std::string inj = J().str("mode", "resolve").raw("problem", data_json(d)).str("then", "solve(); add_constraint(" + CM[bm.extra[e]].str() + "); solve()").raw("final_data", data_json(d1)).done();
      if (pool().worker_id >= 0) { CrashInfo& c = CRASH[pool().worker_id]; c.mode = 0; c.trig = 5; strncpy(c.desc, data_json(d1).c_str(), sizeof c.desc - 1); c.desc[sizeof c.desc - 1] = 0; }
      pool().step(my);
      watchdog(20.0);
      std::unique_ptr<PIP> c(new PIP(*p));
      c->add_constraint(CM[bm.extra[e]].ppl());
      std::string it_trig = incremental_trigger(*c);
      if (pool().worker_id >= 0) CRASH[pool().worker_id].trig = it_trig.empty() ? 5 : trig_code(it_trig);
      // The re-solve runs in a forked child: in this family the unchanged library corrupts the heap (see T4), and the
      // damage must not reach the cases that follow.  The child judges and reports; the parent only attributes its death.
      count(CNT_SOLVES); count(CNT_TRANS); count(CNT_FRESH);
      int died = isolated([&]() {
        Reporter rp; rp.live = true; rp.input = inj; rp.first_solve = false;
        int st1 = 0;
        int rc1 = guarded([&]() { st1 = c->solve() == PPL::OPTIMIZED_PIP_PROBLEM ? 1 : 0; }, GUARD_S);
        if (rc1) {
          count(CNT_HANGS);
          std::string cl = guard_clause(rc1), tr = "none";
          if (!it_trig.empty()) { tr = it_trig; cl = cl == "hang" ? "incremental:hang" : "incremental:crash"; }
          else tr = hang_trigger(d1, rc1);
          report_violation("PIP_Problem::solve", cl, tr, inj, guard_clause(rc1), "an answer");
          return; }
        if (!c->OK()) { rp.viol("PIP_Problem::solve", "invariant:OK()", it_trig.find("declaring") != std::string::npos ? it_trig : "none", "OK() false", "OK() true"); return; }
        Reporter probe; probe.live = false; probe.first_solve = false;
        if (!judge(*c, st1, d1, probe, "PIP_Problem::solve")) {
          std::string t2 = it_trig;
          if (t2 == "resolve_of_tree_with_decision_nodes" && st1 == 1 && !wrong_answers_explained_by_one_condition(c->solution(), d1)) t2 = "";
          if (!t2.empty()) rp.override_all = t2;      // a state predicate of the tree being re-solved outranks the data-based triggers
          judge(*c, st1, d1, rp, "PIP_Problem::solve");
        }
      });
      if (died) {
        count(CNT_HANGS);
        bool hang = died == 1097 || died == SIGPROF || died == SIGVTALRM || died == SIGALRM;
        std::string cl = hang ? "hang" : std::string("crash:") + signame(died), tr = "none";
        if (!it_trig.empty()) { tr = it_trig; cl = hang ? "incremental:hang" : "incremental:crash"; }
        if (violcap().admit("died|resolve|" + cl + tr)) report_violation("PIP_Problem::solve", cl, tr, inj, hang ? "hang (worker child ended itself in a loop without cancellation points)" : signame(died), "an answer");
      }
    }
  }
}

// ------------------------------------------------------------------ mode incremental
struct Init { Data d; };
static std::vector<Init> INITS;
struct Item { int init; int first_op; };
static std::vector<Item> ITEMS;
struct Rec { int parent; int op; };
static std::vector<Rec> RECS;
static int DEPTH = 3;

static std::vector<int> history_ops(int rec) {
  std::vector<int> h;
  while (rec >= 0 && RECS[rec].parent >= 0) { h.push_back(RECS[rec].op); rec = RECS[rec].parent; }
  std::reverse(h.begin(), h.end());
  return h;
}
static std::string input_json(int init, int rec, int op, const Data& final_data) {
  std::vector<int> h = history_ops(rec);
  if (op >= 0) h.push_back(op);
  std::vector<std::string> names, idx;
  for (size_t i = 0; i < h.size(); ++i) { names.push_back(jstr(op_name(OPS[h[i]]))); idx.push_back(std::to_string(h[i])); }
  return J().str("mode", "incremental").num("init", init).raw("init_problem", data_json(INITS[init].d)).arr("history", names).arr("ops", idx).raw("final_data", data_json(final_data)).done();
}
struct Key { unsigned long long a, b; bool operator==(const Key& o) const { return a == o.a && b == o.b; } };
struct KeyHash { size_t operator()(const Key& k) const { return (size_t)(k.a ^ (k.b * 0x9e3779b97f4a7c15ULL)); } };
static Key key_of(const std::string& s) {
  Key k; k.a = 1469598103934665603ULL; k.b = 0xcbf29ce484222325ULL ^ 0x5bd1e995;
  for (size_t i = 0; i < s.size(); ++i) { k.a = (k.a ^ (unsigned char)s[i]) * 1099511628211ULL; k.b = (k.b + (unsigned char)s[i]) * 0x100000001b3ULL; k.b ^= k.b >> 29; }
  return k;
}
struct Node { std::unique_ptr<PIP> p; Data d; int rec; bool dirty; };   // dirty: the data changed since the last judged solve (tracked by the harness, not read from the object)

// Fresh problem from the same final data (same strategies): must give the same answers on every valuation; since both
// are compared with the reference this is implied, the explicit comparison only labels the finding.
static std::unordered_map<std::string, int> FRESHOK;    // data key + strategies -> 1 fresh is right, 0 fresh is wrong
static bool fresh_is_right(const Data& d) {
  std::string key = ref_key(d) + "#" + std::to_string(d.cut) + std::to_string(d.piv);
  std::unordered_map<std::string, int>::iterator it = FRESHOK.find(key);
  if (it != FRESHOK.end()) return it->second != 0;
  Data dd = d; std::sort(dd.rows.begin(), dd.rows.end()); dd.rows.erase(std::unique(dd.rows.begin(), dd.rows.end()), dd.rows.end());
  std::unique_ptr<PIP> p = build_fresh(dd, true);
  int st = 0;
  int rc = run_solve_guarded(dd.piv == 1, [&]() { std::unique_ptr<PIP> t = build_fresh(dd, true); t->solve(); }, [&]() { st = p->solve() == PPL::OPTIMIZED_PIP_PROBLEM ? 1 : 0; }, false);
  count(CNT_FRESH);
  if (rc) { FRESHOK[key] = 0; return false; }
  Reporter rp; rp.live = true; rp.input = J().str("mode", "fresh-from-final-data").raw("problem", data_json(dd)).done();
  bool ok = judge(*p, st, dd, rp, "PIP_Problem::solve");
  FRESHOK[key] = ok ? 1 : 0;
  return ok;
}

// State predicate for the incremental findings: the problem already owns a solution tree that is more than a bare
// solution node (decision nodes, node constraints or artificial parameters) and is re-solved after a change.
// update_tableau() then adds the new rows / columns to tableaux that were pivoted and cut, and the constraints stored
// in the nodes keep the old numbering of the artificial parameters.
static bool nontrivial_tree(const PIP& p) {
  const PPL::PIP_Tree_Node* n = p.current_solution;
  if (n == 0) return false;
  if (n->as_decision() != 0) return true;
  if (n->art_parameter_count() != 0 || n->constraints().begin() != n->constraints().end()) return true;
  const PPL::PIP_Solution_Node* sn = n->as_solution();
  for (size_t i = 0; sn != 0 && i < sn->tableau.s.num_columns() && i < sn->basis.size(); ++i) if (!sn->basis[i]) return true;
  return false;
}
// Precise state predicates of the two open incremental defects (read-only inspection of the tree about to be updated).
//  (T1) PIP_Solution_Node::update_tableau builds the row of a pending constraint dimension by dimension; for a non-basic
//       variable it ADDS coeff * (that variable's tableau row) to the new row, but for a parameter it SETS the column
//       (p_row.insert(p_index, coeff * denom)).  A parameter that comes after such a variable in the constraint, and
//       whose column the variable's row had filled, loses that contribution.
//  (T2) Dimensions are added to a problem whose tree declares artificial parameters: the Constraint_Systems stored in
//       the nodes keep the old dimension numbers of the artificial parameters (no renumbering takes place).
static void collect_leaves(const PPL::PIP_Tree_Node* n, std::vector<const PPL::PIP_Solution_Node*>& out, bool& any_art) {
  if (n == 0) return;
  if (n->art_parameter_count() != 0) any_art = true;
  if (const PPL::PIP_Decision_Node* dn = n->as_decision()) { collect_leaves(dn->child_node(true), out, any_art); collect_leaves(dn->child_node(false), out, any_art); return; }
  if (const PPL::PIP_Solution_Node* sn = n->as_solution()) out.push_back(sn);
}
static std::string incremental_trigger(const PIP& p) {
  if (p.current_solution == 0) return "";
  std::vector<const PPL::PIP_Solution_Node*> leaves; bool any_art = false;
  collect_leaves(p.current_solution, leaves, any_art);
  if (p.external_space_dim > p.internal_space_dim && any_art) return "dimensions_added_to_tree_with_artificial_parameters";
  // (new dimensions are the highest ones: the indices of the old variables and parameters used below are unaffected)
  const PPL::Variables_Set& ps = p.parameters;
  for (size_t ci = p.first_pending_constraint; ci < p.input_cs.size(); ++ci) {
    const PPL::Constraint& c = p.input_cs[ci];
    for (size_t l = 0; l < leaves.size(); ++l) {
      const PPL::PIP_Solution_Node& sn = *leaves[l];
      // columns of the parameter matrix already filled by non-basic variables met so far
      std::set<PPL::dimension_type> filled;
      PPL::dimension_type v_index = 0, p_index = 1;
      for (PPL::dimension_type dim = 0; dim < c.space_dimension(); ++dim) {
        bool is_param = ps.count(dim) == 1;
        const PPL::Coefficient& co = c.coefficient(PPL::Variable(dim));
        if (is_param) { if (co != 0 && filled.count(p_index)) return "pending_row_parameter_column_overwritten_after_nonbasic_variable"; ++p_index; }
        else {
          if (co != 0 && v_index < sn.tableau.s.num_columns() && v_index < sn.basis.size() && !sn.basis[v_index] && sn.mapping[v_index] < sn.tableau.t.num_rows()) {
            const PPL::PIP_Tree_Node::Row& tr = sn.tableau.t[sn.mapping[v_index]];
            for (PPL::PIP_Tree_Node::Row::const_iterator j = tr.begin(); j != tr.end(); ++j) if (j.index() > 0 && *j != 0) filled.insert(j.index());
          }
          ++v_index;
        }
      }
    }
  }
  //  (T4) a decision node of the tree declares artificial parameters: re-solving it builds context matrices whose rows
  //       are wider than the matrix says (compatibility_check then writes past the end of its index vectors: heap
  //       corruption, valgrind-confirmed), so ANY symptom may follow, and not deterministically.
  { std::function<bool(const PPL::PIP_Tree_Node*)> dn_art = [&](const PPL::PIP_Tree_Node* n) -> bool {
      if (n == 0) return false; const PPL::PIP_Decision_Node* dn = n->as_decision(); if (dn == 0) return false;
      return dn->art_parameter_count() != 0 || dn_art(dn->child_node(true)) || dn_art(dn->child_node(false)); };
    if (dn_art(p.current_solution)) return "resolve_of_decision_node_declaring_artificial_parameters"; }
  //  (T3) none of the above, but the tree to be updated has decision nodes: the pending rows are pushed through
  //       PIP_Decision_Node::update_tableau / solve into sub-trees solved under different contexts (cause not isolated).
  if (p.current_solution->as_decision() != 0) return "resolve_of_tree_with_decision_nodes";
  return "";
}
static void run_incr_item(long long item, long long sub_start) {
  prctl(PR_SET_PDEATHSIG, SIGKILL); if (getppid() == 1) _exit(0);
  const Item& it = ITEMS[item];
  RECS.clear();
  long long only = pool().only_sub;
  long long sub = 0;
  std::unordered_set<Key, KeyHash> seen;
  std::vector<Node> frontier, next;
  int solve_op = -1; for (size_t i = 0; i < OPS.size(); ++i) if (OPS[i].k == SOLVE) solve_op = (int)i;
  {
    Node n; n.d = INITS[it.init].d; n.p = build_fresh(n.d, true); RECS.push_back(Rec{-1, -1}); n.rec = 0; n.dirty = true;
    seen.insert(key_of(dump_of(*n.p)));
    frontier.push_back(std::move(n));
  }
  for (int depth = 1; depth <= DEPTH + 1; ++depth) {
    bool terminal = depth == DEPTH + 1;
    for (size_t s = 0; s < frontier.size(); ++s) {
      Node& src = frontier[s];
      if (!terminal) {
        std::unique_ptr<PIP> c(new PIP(*src.p));
        if (dump_of(*c) != dump_of(*src.p)) { sink().line(J().str("t", "error").str("msg", "copy is not faithful to the dump: " + input_json(it.init, src.rec, -1, src.d)).done()); _exit(4); }
      }
      for (size_t k = 0; k < (terminal ? 1 : OPS.size()); ++k) {
        int opi = terminal ? solve_op : (int)k;
        if (depth == 1 && it.first_op >= 0 && opi != it.first_op) continue;
        if (!enabled(OPS[opi], src.d, *src.p)) continue;
        if (terminal && !src.dirty) continue;       // already judged when it was solved
        long long my = sub++;
        if (only >= 0 && my > only) return;
        if (is_bad(item, my)) continue;
        bool live = pool().want(my, sub_start);
        const Op& o = OPS[opi];
        if (live) {
          if (ARGS.expired()) { count(CNT_SKIPPED); return; }
          if (pool().worker_id >= 0) {
            CrashInfo& ci = CRASH[pool().worker_id]; std::vector<int> h = history_ops(src.rec); h.push_back(opi);
            ci.mode = 1; ci.init = it.init; ci.n = (int)std::min<size_t>(h.size(), 12); for (int q = 0; q < ci.n; ++q) ci.ops[q] = h[q];
            { std::string t_ = solve_like(o.k) ? incremental_trigger(*src.p) : std::string();
              ci.trig = t_.empty() ? (solve_like(o.k) && src.d.piv == 1 ? 1 : 0) : trig_code(t_); }
          }
          pool().step(my);
        }
        watchdog(20.0);
        if (solve_like(o.k) && src.dirty) {
          // (T4) states: the unchanged library corrupts the heap there; the transition runs in a forked child, which judges
          // and reports, and the state is not expanded further
          std::string t4 = incremental_trigger(*src.p);
          if (t4.find("declaring") != std::string::npos) {
            if (live) { count(CNT_TRANS); count(CNT_SOLVES); if (terminal) count(CNT_TERMINAL); }
            Data dq = src.d;
            std::string inj = input_json(it.init, src.rec, opi, dq);
            int died = !live ? 0 : isolated([&]() {
              std::unique_ptr<PIP> q(new PIP(*src.p)); Outcome oq;
              int rcq = guarded([&]() { oq = apply(q, dq, o); }, GUARD_S);
              if (rcq) { report_violation(op_site(o.k), guard_clause(rcq) == "hang" ? "incremental:hang" : "incremental:crash", t4, inj, guard_clause(rcq), "an answer"); return; }
              Reporter rq; rq.live = true; rq.input = inj; rq.first_solve = false; rq.override_all = t4;
              if (!q->OK()) { rq.viol(op_site(o.k), "invariant:OK()", t4, "OK() false", "OK() true"); return; }
              judge(*q, oq.status, dq, rq, op_site(o.k));
            });
            if (died) {
              bool hang = died == 1097 || died == SIGPROF || died == SIGVTALRM || died == SIGALRM;
              if (violcap().admit("died|incr|" + t4)) report_violation(op_site(o.k), hang ? "incremental:hang" : "incremental:crash", t4, inj, hang ? "hang" : signame(died), "an answer");
            }
            continue;
          }
        }
        std::unique_ptr<PIP> c(new PIP(*src.p));
        Data d1 = src.d;
        Outcome out;
        Reporter rp; rp.live = live;
        int rc = 0;
        try {
          if (solve_like(o.k)) rc = run_solve_guarded(src.d.piv == 1 && src.dirty,
                                                      [&]() { std::unique_ptr<PIP> t(new PIP(*src.p)); Data dt = src.d; apply(t, dt, o); }, [&]() { out = apply(c, d1, o); }, false);
          else out = apply(c, d1, o);
        }
        catch (const std::exception& e) {
          rp.input = input_json(it.init, src.rec, opi, src.d);
          rp.viol(std::string("PIP_Problem::") + op_name(o).substr(0, op_name(o).find('(')), "unexpected-exception", "none", e.what(), "no exception");
          continue;
        }
        if (live) { count(CNT_TRANS); if (terminal) count(CNT_TERMINAL); }
        if (rc) {
          if (live) {
            count(CNT_HANGS);
            std::string trig = hang_trigger(d1, rc);
            if (violcap().admit("hang|" + guard_clause(rc))) {
              std::unique_ptr<PIP> q(new PIP(*src.p)); Data dq = src.d;
              int rc2 = run_solve_guarded(src.d.piv == 1, [&]() { std::unique_ptr<PIP> t(new PIP(*src.p)); Data dt = src.d; apply(t, dt, o); }, [&]() { apply(q, dq, o); }, true);
              if (rc2 && trig == "none") trig = hang_trigger(d1, rc2);
              std::string cl2 = guard_clause(rc2);
              if (rc2 && trig == "none") { std::string t_ = incremental_trigger(*src.p); if (!t_.empty()) { trig = t_; cl2 = cl2 == "hang" ? "incremental:hang" : "incremental:crash"; } }
              if (rc2) report_violation(op_site(o.k), cl2, trig, input_json(it.init, src.rec, opi, d1), guard_clause(rc2) + " (no answer within " + std::to_string(src.d.piv == 1 ? SANDBOX_S * 10 : CONFIRM_S) + " s CPU, alone)", "an answer");
            }
          }
          continue;
        }
        bool good = true;
        if (!c->OK()) {
          rp.input = input_json(it.init, src.rec, opi, d1);
          std::string tr = (o.k == ASSIGN && src.p->current_solution != 0) ? "assigned_from_problem_with_solution_tree" : "none";
          if (solve_like(o.k)) { std::string t_ = incremental_trigger(*src.p); if (t_.find("declaring") != std::string::npos) tr = t_; }
          rp.viol(std::string("PIP_Problem::") + op_name(o).substr(0, op_name(o).find('(')), "invariant:OK()", tr, "OK() false (nodes of the tree are not owned by the assigned object)", "OK() true");
          good = false; }
        if (good && solve_like(o.k)) {
          if (live) count(CNT_SOLVES);
          if (src.dirty) {     // otherwise this very verdict was judged before
            rp.input = input_json(it.init, src.rec, opi, d1);
            // label: is a fresh problem from the same data right?
            rp.first_solve = src.p->current_solution == 0;
            Reporter probe; probe.live = false; probe.first_solve = rp.first_solve;
            bool inc_ok = judge(*c, out.status, d1, probe, op_site(o.k));
            if (!inc_ok) {
              bool fr = fresh_is_right(d1);
              Reporter r2 = rp;
              { std::string it_trig = incremental_trigger(*src.p);
                // (T3) covers lost conditions only: every wrong answer must be repaired by one change of route in the tree
                if (it_trig == "resolve_of_tree_with_decision_nodes" && out.status == 1 && !wrong_answers_explained_by_one_condition(c->solution(), d1)) it_trig = "";
                if (!it_trig.empty()) { if (fr) r2.override_all = it_trig; else r2.override_none = it_trig; } }
              if (fr) r2.input = input_json(it.init, src.rec, opi, d1).substr(0, input_json(it.init, src.rec, opi, d1).size() - 1) + ",\"fresh_problem_from_same_data\":\"right\"}";
              // re-judge with reporting; the site tells incremental-only defects apart
              // "(incremental)": a fresh problem is right AND this object had been solved before
              judge(*c, out.status, d1, r2, (fr && src.p->current_solution != 0) ? op_site(o.k) + "(incremental)" : op_site(o.k));
              good = false;
            }
          }
        }
        if (!good || terminal) continue;
        Key key = key_of(dump_of(*c));
        if (!seen.insert(key).second) { if (live) count(CNT_MERGED); continue; }
        if (live) count(CNT_STATES);
        RECS.push_back(Rec{src.rec, opi});
        Node n; n.p = std::move(c); n.d = d1; n.rec = (int)RECS.size() - 1;
        n.dirty = solve_like(o.k) ? false : (o.k == COPY || o.k == ASSIGN) ? src.dirty : true;
        next.push_back(std::move(n));
      }
      src.p.reset();
    }
    frontier.swap(next); next.clear();
    if (frontier.empty()) break;
  }
}

// ------------------------------------------------------------------ self-test of the spanning code on the class documentation's example
static std::string doc_example_selftest() {
  using namespace PPL;
  Variable i(0), j(1), n(2), m(3);
  Variables_Set params(n, m);
  Constraint_System cs;
  cs.insert(3*j >= -2*i+8); cs.insert(j <= 4*i - 4); cs.insert(j <= m); cs.insert(i <= n);
  PIP_Problem pip(cs.space_dimension(), cs.begin(), cs.end(), params);
  if (pip.solve() != OPTIMIZED_PIP_PROBLEM) return "documentation example not optimized";
  Data d; d.dim = 4; d.params = 12;
  for (long nv = 0; nv <= 8; ++nv) for (long mv = 0; mv <= 8; ++mv) {
    std::vector<long> pv = {0, 0, nv, mv};
    Span s = span_tree(pip.solution(), d, pv);
    // brute force
    bool found = false; long bi = 0, bj = 0;
    for (long a = 0; a <= 20 && !found; ++a) for (long b = 0; b <= 20 && !found; ++b)
      if (3*b >= -2*a+8 && b <= 4*a-4 && b <= mv && a <= nv) { found = true; bi = a; bj = b; }
    if (!s.defect.empty()) return "documentation example: " + s.defect;
    if (found == s.bottom) return "documentation example: feasibility differs at n=" + std::to_string(nv) + " m=" + std::to_string(mv);
    if (found && (s.x[0] != bi || s.x[1] != bj)) return "documentation example: point differs at n=" + std::to_string(nv) + " m=" + std::to_string(mv);
  }
  return "";
}

// ------------------------------------------------------------------ replay of one recorded violation
static std::string json_field(const std::string& t, const std::string& k, size_t from = 0) {     // raw text after "k":
  size_t p = t.find("\"" + k + "\"", from); if (p == std::string::npos) return "";
  p = t.find(':', p); if (p == std::string::npos) return "";
  ++p; while (p < t.size() && t[p] == ' ') ++p;
  if (t[p] == '[') { size_t e = t.find(']', p); return t.substr(p, e - p + 1); }
  if (t[p] == '"') { size_t e = t.find('"', p + 1); return t.substr(p + 1, e - p - 1); }
  size_t e = t.find_first_of(",}", p); return t.substr(p, e - p);
}
static std::vector<std::string> json_strings(const std::string& arr) {
  std::vector<std::string> out; size_t p = 0;
  while ((p = arr.find('"', p)) != std::string::npos) { size_t e = arr.find('"', p + 1); out.push_back(arr.substr(p + 1, e - p - 1)); p = e + 1; }
  return out;
}
static bool parse_problem(const std::string& t, size_t from, Data& d) {
  d = Data();
  d.dim = atoi(json_field(t, "dim", from).c_str());
  std::vector<std::string> ps = json_strings(json_field(t, "parameters", from));
  for (size_t i = 0; i < ps.size(); ++i) d.params |= 1u << (ps[i][0] - 'A');
  std::string big = json_field(t, "big_parameter", from); d.big = big == "none" || big.empty() ? -1 : big[0] - 'A';
  std::vector<std::string> rows = json_strings(json_field(t, "constraints", from));
  for (size_t i = 0; i < rows.size(); ++i) { int f = -1; for (size_t r = 0; r < CM.size(); ++r) if (CM[r].str() == rows[i]) f = (int)r; if (f < 0) return false; d.rows.push_back(f); }
  std::string cut = json_field(t, "cutting", from), piv = json_field(t, "pivot_row", from);
  for (int i = 0; i < 3; ++i) if (cut == CUT_NAME[i]) d.cut = i;
  for (int i = 0; i < 2; ++i) if (piv == PIV_NAME[i]) d.piv = i;
  return true;
}
static void show_answers(const PIP& p, int status, const Data& d) {
  printf("status: %s\n", status ? "OPTIMIZED_PIP_PROBLEM" : "UNFEASIBLE_PIP_PROBLEM");
  if (status) printf("tree:\n%s", tree_text(p).c_str());
  const RefTable& rt = reference(d);
  int nb = d.big >= 0 ? 3 : 1;
  for (int b = 0; b < nb; ++b) for (size_t i = 0; i < rt.vals.size(); ++i) {
    const RefEntry& re = rt.e[b][i];
    std::vector<long> pv = rt.vals[i].p; if (d.big >= 0) pv[d.big] = BIG_M[b];
    std::string mine = !re.context_ok ? "(context violated: not judged)" : re.feasible ? zvec_str(re.x) : "_|_";
    std::string theirs = "_|_";
    if (status) { Span s = span_tree(p.solution(), d, pv); theirs = !s.defect.empty() ? "MALFORMED: " + s.defect : s.bottom ? "_|_" : ref::vec_str(s.x); }
    bool same = !re.context_ok || (re.feasible ? (theirs == ref::vec_str(std::vector<Q>(re.x.begin(), re.x.end()))) : theirs == "_|_");
    printf("  %-16s tree: %-28s reference: %-20s %s\n", val_str(d, pv).c_str(), theirs.c_str(), mine.c_str(), same ? "" : "<== MISMATCH");
  }
}
static int replay(const std::string& path) {
  std::ifstream f(path.c_str()); std::stringstream ss; ss << f.rdbuf(); std::string t = ss.str();
  size_t pin = t.find("\"input\"");
  std::string mode = json_field(t, "mode", pin == std::string::npos ? 0 : pin);
  if (mode == "incremental") {
    size_t pi = t.find("\"init_problem\"");
    Data d; if (pi == std::string::npos || !parse_problem(t, pi, d)) { fprintf(stderr, "replay: cannot parse the initial problem\n"); return 2; }
    std::unique_ptr<PIP> p = build_fresh(d, true);
    printf("initial problem: %s\n", data_json(d).c_str());
    std::string arr = json_field(t, "ops", pi); std::vector<int> ops; std::stringstream as(arr); std::string tok;
    while (std::getline(as, tok, ',')) { size_t q = tok.find_first_of("0123456789"); if (q != std::string::npos) ops.push_back(atoi(tok.c_str() + q)); }
    int last_status = -1;
    for (size_t i = 0; i < ops.size(); ++i) {
      const Op& o = OPS[ops[i]];
      printf("  %s\n", op_name(o).c_str()); fflush(stdout);
      Outcome out = apply(p, d, o);
      if (solve_like(o.k)) { last_status = out.status; printf("    -> %s\n", out.status ? "OPTIMIZED" : "UNFEASIBLE"); }
    }
    printf("final data: %s\n", data_json(d).c_str());
    if (last_status >= 0) show_answers(*p, last_status, d);
    return 0;
  }
  size_t pp = t.find("\"problem\"");
  Data d; if (pp == std::string::npos || !parse_problem(t, pp, d)) { fprintf(stderr, "replay: cannot parse the problem\n"); return 2; }
  printf("problem: %s\n", data_json(d).c_str()); fflush(stdout);
  std::unique_ptr<PIP> p = build_fresh(d, true);
  int st = p->solve() == PPL::OPTIMIZED_PIP_PROBLEM ? 1 : 0;
  show_answers(*p, st, d);
  return 0;
}

int main(int argc, char** argv) {
  ARGS = parse_args(argc, argv);
  sink().open(ARGS.out);
  build_menus(); build_ops();
  std::string mode = ARGS.opt("--mode", "fresh");
  int K = atoi(ARGS.opt("--rows", "2").c_str());
  DEPTH = atoi(ARGS.opt("--depth", "3").c_str());
  bool with_big = !ARGS.has("--no-big");
  NSTRAT = atoi(ARGS.opt("--strategies", "6").c_str());
  if (mode == "boxed") WITH_ADD_ROUTE = false;
  double t0 = now_s();
  if (!ARGS.replay.empty()) return replay(ARGS.replay);
  { std::string msg; int fl = ref::milp_selftest(&msg);
    if (fl) { sink().line(J().str("t", "error").str("msg", "R.MILP self-test failed: " + msg).done()); return 2; }
    // The class documentation's example, spanned by the code below and compared with plain enumeration.  On the
    // unchanged library it agrees on all 81 valuations (that validates the spanning code); a disagreement is therefore a
    // defect of the library on a documented example, reported as such, and the exploration goes on.
    std::string e = doc_example_selftest();
    if (!e.empty()) report_violation("PIP_Problem::solve", "documentation-example", "none", J().str("mode", "documentation-example").str("problem", "3*j >= -2*i+8, j <= 4*i-4, j <= m, i <= n; parameters n, m").done(), e, "the lexicographic minimum found by enumeration"); }
  BAD = (BadList*)mmap(0, sizeof(BadList), PROT_READ | PROT_WRITE, MAP_SHARED | MAP_ANONYMOUS, -1, 0); BAD->n = 0;
  CRASH = (CrashInfo*)mmap(0, sizeof(CrashInfo) * 64, PROT_READ | PROT_WRITE, MAP_SHARED | MAP_ANONYMOUS, -1, 0);
  // layouts: every choice of the parameter set with <= 2 variables and <= 2 parameters, dimension 1..4
  int fresh_maxdim = atoi(ARGS.opt("--maxdim", "4").c_str()), fresh_mindim = atoi(ARGS.opt("--mindim", "1").c_str());
  for (int dim = 1; dim <= MAXDIM; ++dim) for (unsigned ps = 0; ps < (1u << dim); ++ps) {
    int np = __builtin_popcount(ps), nv = dim - np;
    if (nv > 2 || np > 2) continue;
    if (mode == "fresh" && (dim > fresh_maxdim || dim < fresh_mindim)) continue;
    LAYOUTS.push_back(Layout{dim, ps, -1});
  }
  size_t n_plain = LAYOUTS.size();
  if (with_big) {
    // the last parameter designated as the big one (<= 2 ordinary parameters besides it)
    for (int dim = 2; dim <= MAXDIM; ++dim) for (unsigned ps = 1; ps < (1u << dim); ++ps) {
      int np = __builtin_popcount(ps), nv = dim - np;
      if (nv < 1 || nv > 2 || np > 2) continue;
      if (mode == "fresh" && (dim > fresh_maxdim || dim < fresh_mindim)) continue;
      int last = 31 - __builtin_clz(ps);
      LAYOUTS.push_back(Layout{dim, ps, last});
    }
  }
  long long nitems = 0;
  Pool::Fn fn;
  std::string bound;
  if (mode == "fresh") {
    for (size_t l = 0; l < LAYOUTS.size(); ++l) {
      std::vector<int> fit;
      for (size_t r = 0; r < NBASE; ++r) if (CM[r].e.dim() <= LAYOUTS[l].dim) fit.push_back((int)r);
      int kk = l < n_plain ? K : std::min(K, 2);
      // row sets of size 0..kk in menu order
      std::function<void(size_t, std::vector<int>&)> rec = [&](size_t from, std::vector<int>& cur) {
        FRESH.push_back(FreshCase{(int)l, cur});
        if ((int)cur.size() == kk) return;
        for (size_t i = from; i < fit.size(); ++i) { cur.push_back(fit[i]); rec(i + 1, cur); cur.pop_back(); }
      };
      std::vector<int> cur; rec(0, cur);
    }
    // interleave layouts so that batches are balanced
    { std::vector<FreshCase> sh(FRESH.size()); size_t n = FRESH.size(), stride = 7919 % n == 0 ? 7907 : 7919;
      for (size_t i = 0; i < n; ++i) sh[i] = FRESH[(i * stride) % n];
      if (n > 1 && std::__gcd(stride, n) == 1) FRESH.swap(sh); }
    nitems = (long long)((FRESH.size() + FRESH_BATCH - 1) / FRESH_BATCH);
    fn = [&](long long item, long long sub_start) { run_fresh_item(item, sub_start); };
    bound = "fresh problems: " + std::to_string(LAYOUTS.size()) + " layouts (dimension " + std::to_string(fresh_mindim) + ".." + std::to_string(fresh_maxdim) + ", <= 2 variables, <= 2 parameters" + (with_big ? ", plus the last parameter as big parameter" : "") +
            "), every row set of size <= " + std::to_string(K) + " of a menu of " + std::to_string(NBASE) + " rows (size <= 2 with a big parameter), 3 cutting x 2 pivot-row strategies, built by the constructor (and once by add_constraint); parameter window {0.." + std::to_string(WINDOW_HI) + "}^k, big parameter at 64/129/260";
  } else if (mode == "resolve") {
    int nlay = atoi(ARGS.opt("--layouts", "1").c_str());
    LAYOUTS.clear();
    for (int l = 0; l < nlay && l < (int)BOXED.size(); ++l) {
      const BoxedMenu& bm = BOXED[l];
      LAYOUTS.push_back(Layout{3, 1u << bm.param, -1});
      for (size_t i = 0; i < bm.rows.size(); ++i) for (size_t j = i + 1; j < bm.rows.size(); ++j)
        FRESH.push_back(FreshCase{l, {bm.box1, bm.box2, bm.rows[i], bm.rows[j]}});
    }
    { std::vector<FreshCase> sh(FRESH.size()); size_t n = FRESH.size(), stride = 7919;
      for (size_t i = 0; i < n; ++i) sh[i] = FRESH[(i * stride) % n];
      if (n > 1 && std::__gcd(stride, n) == 1) FRESH.swap(sh); }
    nitems = (long long)((FRESH.size() + FRESH_BATCH - 1) / FRESH_BATCH);
    fn = [&](long long item, long long sub_start) { run_resolve_item(item, sub_start); };
    bound = "structured re-solves: every boxed one-shot problem (" + std::to_string(LAYOUTS.size()) + " position(s) of p, " + std::to_string(FRESH.size()) + " problems, " + std::to_string(NSTRAT) +
            " strategy combinations) whose tree has a decision node declaring an artificial parameter above a node declaring its own; solve(), add_constraint(r), solve() for each of " +
            std::to_string(BOXED[0].extra.size()) + " rows r (p <= 0..6, p >= 1..6, x >= 1, y >= 1, x + y >= p, x + y <= p + 3); parameter window {0.." + std::to_string(WINDOW_HI) + "}";
  } else if (mode == "boxed") {
    int nlay = atoi(ARGS.opt("--layouts", "3").c_str());
    LAYOUTS.clear();
    for (int l = 0; l < nlay && l < (int)BOXED.size(); ++l) {
      const BoxedMenu& bm = BOXED[l];
      LAYOUTS.push_back(Layout{3, 1u << bm.param, -1});
      for (size_t i = 0; i < bm.rows.size(); ++i) for (size_t j = i + 1; j < bm.rows.size(); ++j)
        FRESH.push_back(FreshCase{l, {bm.box1, bm.box2, bm.rows[i], bm.rows[j]}});
    }
    { std::vector<FreshCase> sh(FRESH.size()); size_t n = FRESH.size(), stride = 7919;
      for (size_t i = 0; i < n; ++i) sh[i] = FRESH[(i * stride) % n];
      if (n > 1 && std::__gcd(stride, n) == 1) FRESH.swap(sh); }
    nitems = (long long)((FRESH.size() + FRESH_BATCH - 1) / FRESH_BATCH);
    fn = [&](long long item, long long sub_start) { run_fresh_item(item, sub_start); };
    bound = "boxed one-shot problems: 2 variables x, y and 1 parameter p (" + std::to_string(LAYOUTS.size()) + " positions of p), rows x <= 5, y <= 5 and EVERY pair of a menu of " + std::to_string(BOXED[0].rows.size()) +
            " rows a*x + b*y >= c*p - k (a, b in -2..3, c in 0..3, k in {-6,-3,-1,0,1,3,6}), " + std::to_string(NSTRAT) + " strategy combinations, built by the constructor; parameter window {0.." + std::to_string(WINDOW_HI) + "}";
  } else {
    // initial problems for the histories: every plain layout with no row, plus a few one-row problems
    for (size_t l = 0; l < n_plain; ++l) { Init in; in.d.dim = LAYOUTS[l].dim; in.d.params = LAYOUTS[l].params; INITS.push_back(in); }
    struct S { int dim; unsigned params; std::vector<int> rows; };
    std::vector<S> seeds = { {2, 2, {3}}, {2, 2, {0}}, {3, 4, {11, 13}}, {2, 1, {1}}, {4, 12, {13, 14}}, {3, 6, {15}}, {2, 2, {5}}, {1, 0, {7}},
                             {3, 2, {3}}, {3, 4, {13}}, {4, 8, {14}}, {3, 4, {24}}, {4, 12, {24}} };     // a pivot on a coefficient 2 (tableau denominator 2) with a spare variable
    for (size_t i = 0; i < seeds.size(); ++i) { Init in; in.d.dim = seeds[i].dim; in.d.params = seeds[i].params; in.d.rows = seeds[i].rows; INITS.push_back(in); }
    { Init in; in.d.dim = 0; INITS.push_back(in); }
    int only_init = atoi(ARGS.opt("--only-init", "-1").c_str());
    for (size_t i = 0; i < INITS.size(); ++i) {
      if (only_init >= 0 && (int)i != only_init) continue;
      std::unique_ptr<PIP> p = build_fresh(INITS[i].d, true);
      for (size_t o = 0; o < OPS.size(); ++o) if (enabled(OPS[o], INITS[i].d, *p)) ITEMS.push_back(Item{(int)i, (int)o});
    }
    nitems = (long long)ITEMS.size();
    fn = [&](long long item, long long sub_start) { run_incr_item(item, sub_start); };
    bound = "histories of depth <= " + std::to_string(DEPTH) + " (+ terminal solve) below " + std::to_string(INITS.size()) + " initial problems; alphabet of " + std::to_string(OPS.size()) +
            " operations (" + std::to_string(NBASE) + " rows, add dimensions / parameters, 5 strategy values, big parameter, solve, is_satisfiable, copy, assign, clear); dimension <= 4, <= 3 variables, <= 3 parameters; states merged by ascii_dump per (init, first op)";
  }
  Pool::CrashFn cf = [&](long long item, long long sub, int sig, bool confirmed) {
    if (!confirmed) return;
    if (BAD->n < 8192) { BAD->item[BAD->n] = item; BAD->sub[BAD->n] = sub; BAD->n = BAD->n + 1; }
    const CrashInfo& ci = CRASH[item % ARGS.jobs];
    std::string clause = (sig == SIGALRM || sig == 1097) ? "hang" : std::string("crash:") + signame(sig);     // 1097: the worker ended itself in a loop without cancellation points
    if (ci.mode == 0) {
      std::string desc(ci.desc);
      std::string trig = desc.find("PIVOT_ROW_STRATEGY_MAX_COLUMN") != std::string::npos ? "pivot_row_strategy_max_column" : "none";
      if (ci.trig == 2 || ci.trig == 3 || ci.trig == 4 || ci.trig == 6) {      // a re-solve of the structured family: state predicate published by the worker
        trig = trig_name(ci.trig);
        clause = clause == "hang" ? "incremental:hang" : "incremental:crash";
      }
      report_violation("PIP_Problem::solve", clause, trig, J().str("mode", ci.trig >= 2 ? "resolve: solve(); add the LAST constraint; solve()" : "fresh").str("failure", sig == SIGALRM || sig == 1097 ? "hang" : signame(sig)).raw("problem", desc.empty() ? "{}" : desc).num("item", item).num("sub", sub).done(), signame(sig), "an answer");
    } else {
      std::vector<std::string> names, idx;
      for (int q = 0; q < ci.n; ++q) { names.push_back(jstr(op_name(OPS[ci.ops[q]]))); idx.push_back(std::to_string(ci.ops[q])); }
      std::string trig = ci.trig == 1 ? "pivot_row_strategy_max_column" : trig_name(ci.trig);
      if (ci.trig >= 2) clause = clause == "hang" ? "incremental:hang" : "incremental:crash";
      report_violation("PIP_Problem::solve", clause, trig, J().str("mode", "incremental").str("failure", sig == SIGALRM ? "hang" : signame(sig)).num("init", ci.init).raw("init_problem", data_json(INITS[ci.init].d)).arr("history", names).arr("ops", idx).num("item", item).num("sub", sub).done(), signame(sig), "an answer");
    }
  };
  limit_memory(6ULL << 30);
  if (getenv("VERIF_PROFILE")) pool().at_worker_exit = []() { for (auto& kv : PROF) fprintf(stderr, "PROF %-30s %8.3f %8ld\n", kv.first.c_str(), kv.second.first, kv.second.second); };
  if (!ARGS.opt("--single-item").empty()) { fn(atoll(ARGS.opt("--single-item").c_str()), 0); fprintf(stderr, "states=%lld trans=%lld solves=%lld spans=%lld viol=%lld\n", counter(CNT_STATES), counter(CNT_TRANS), counter(CNT_SOLVES), counter(CNT_SPANS), counter(CNT_VIOL)); return 0; }
  GUARD_S = atof(ARGS.opt("--guard-s", "0.05").c_str()); CONFIRM_S = atof(ARGS.opt("--confirm-s", "1.0").c_str());
  violcap().cap = atoi(ARGS.opt("--cap", "5").c_str());
  int step_timeout = atoi(ARGS.opt("--step-timeout", "60").c_str());   // wall clock, last resort only: divergence is caught by the CPU-time guards
  pool().run(nitems, ARGS.jobs, fn, cf, ARGS, step_timeout);
  bool complete = counter(CNT_SKIPPED) == 0 && counter(CNT_REFCRASH) == 0;
  std::vector<std::string> samples;
  if (mode != "incremental") { for (size_t i = 0; i < FRESH.size(); i += std::max<size_t>(1, FRESH.size() / 3)) samples.push_back(data_json(fresh_data(FRESH[i], (int)(i % 6)))); }
  else {
    // histories of length DEPTH that the exploration certainly executed (every enabled operation is applied at every depth)
    std::vector<std::string> h1 = {jstr(op_name(OPS[7])), jstr("solve()"), jstr("add_space_dimensions_and_embed(1, 0)"), jstr("solve()")};
    std::vector<std::string> h2 = {jstr("solve()"), jstr("add_space_dimensions_and_embed(0, 1)"), jstr(op_name(OPS[11])), jstr("solve()")};
    h1.resize(std::min<size_t>(h1.size(), DEPTH)); h2.resize(std::min<size_t>(h2.size(), DEPTH));
    samples.push_back(J().raw("init_problem", data_json(INITS[0].d)).arr("history", h1).done());
    samples.push_back(J().raw("init_problem", data_json(INITS[n_plain].d)).arr("history", h2).done()); }
  J extra; extra.str("mode", mode).num("items", nitems).num("solves_judged", counter(CNT_SOLVES)).num("tree_spans", counter(CNT_SPANS)).num("reference_tables", counter(CNT_REFS)).num("reference_lexmins", counter(CNT_LEXMINS))
    .num("valuations_skipped_context_violated", counter(CNT_VALS_SKIPPED_CONTEXT)).num("unfeasible_verdicts", counter(CNT_UNFEAS)).num("big_parameter_cases", counter(CNT_BIGCASES))
    .num("artificial_parameters_evaluated", counter(CNT_ARTPARAMS)).num("decision_nodes_traversed", counter(CNT_DECISIONS)).num("fresh_problems", counter(CNT_FRESH))
    .num("solves_abandoned_as_hang", counter(CNT_HANGS)).num("solves_run_in_forked_sandbox_first", counter(CNT_SANDBOXED)).num("terminal_layer_solves", counter(CNT_TERMINAL)).num("transitions_merged_by_state_key", counter(CNT_MERGED)).num("oracle_comparisons", counter(CNT_CHECKS))
    .num("violation_records_before_cap", counter(CNT_VIOL)).num("items_skipped_by_deadline", counter(CNT_SKIPPED)).num("cases_skipped_oracle_resource_limit", counter(CNT_REFCRASH));
  J st; st.str("t", "stats").num("states", std::max<long long>(1, counter(CNT_STATES))).num("transitions", std::max<long long>(1, counter(CNT_TRANS)))
    .num("traces_validated_against_impl", counter(CNT_TRANS)).boolean("exhaustive", complete).str("bound", bound)
    .arr("samples", samples).raw("extra", extra.done()).dbl("wall_s", now_s() - t0);
  sink().line(st.done());
  return 0;
}

// C17 oracle: direct evaluation of printed rows / congruences on explicit points, enumeration of the
// integer points of an argument, exact integer-point existence.  GMP only (plus __int128 fast paths
// that are taken only when every magnitude is below 2^40).
#ifndef VERIF_C17_ORACLE_HH
#define VERIF_C17_ORACLE_HH 1
#include "harness/c17_common.hh"
#include "harness/c17_menu.hh"
#include "ref/dd.hh"

namespace c17 {

typedef mpq_class Q;
typedef __int128 I128;
static const long FAST_LIM = 1L << 40;
inline bool fits(const Z& z) { return z.fits_slong_p() && z.get_si() < FAST_LIM && z.get_si() > -FAST_LIM; }

// ---- points ----------------------------------------------------------------------------------------
struct Pt {
  std::vector<Z> num; Z den;          // coordinates num[i] / den, den > 0
  bool fast; long fn[4]; long fd;
  Pt() : den(1), fast(false), fd(1) {}
  void finish() {
    fast = num.size() <= 4 && fits(den);
    for (size_t i = 0; i < num.size() && fast; ++i) fast = fits(num[i]);
    if (fast) { fd = den.get_si(); for (size_t i = 0; i < num.size(); ++i) fn[i] = num[i].get_si(); }
  }
  Q coord(int i) const { Q q(num[i], den); q.canonicalize(); return q; }
  std::string str() const {
    std::string s = "(";
    for (size_t i = 0; i < num.size(); ++i) { if (i) s += ","; s += coord(i).get_str(); }
    return s + ")";
  }
};
inline Pt make_pt(const std::vector<Q>& v) {
  Pt p; p.den = 1;
  for (size_t i = 0; i < v.size(); ++i) { Z d = v[i].get_den(); Z g; mpz_lcm(g.get_mpz_t(), p.den.get_mpz_t(), d.get_mpz_t()); p.den = g; }
  p.num.resize(v.size());
  for (size_t i = 0; i < v.size(); ++i) p.num[i] = v[i].get_num() * (p.den / v[i].get_den());
  p.finish();
  return p;
}

// ---- descriptions prepared for evaluation -------------------------------------------------------------
struct FRow { long a[4]; long b; int k; };
struct FCong { long a[4]; long b; long m; };
struct Eval {
  Desc d;
  bool fast;
  std::vector<std::vector<FRow> > frows; std::vector<std::vector<FCong> > fcongs;
  void prepare() {
    fast = d.n <= 4;
    frows.assign(d.d.size(), std::vector<FRow>()); fcongs.assign(d.d.size(), std::vector<FCong>());
    for (size_t i = 0; i < d.d.size() && fast; ++i) {
      for (size_t j = 0; j < d.d[i].rows.size() && fast; ++j) {
        const IRow& r = d.d[i].rows[j]; FRow f; f.k = r.k;
        if (!fits(r.b)) { fast = false; break; } f.b = r.b.get_si();
        for (int v = 0; v < d.n; ++v) { if (!fits(r.a[v])) { fast = false; break; } f.a[v] = r.a[v].get_si(); }
        frows[i].push_back(f);
      }
      for (size_t j = 0; j < d.d[i].congs.size() && fast; ++j) {
        const ICong& r = d.d[i].congs[j]; FCong f;
        if (!fits(r.b) || !fits(r.m)) { fast = false; break; } f.b = r.b.get_si(); f.m = r.m.get_si();
        for (int v = 0; v < d.n; ++v) { if (!fits(r.a[v])) { fast = false; break; } f.a[v] = r.a[v].get_si(); }
        fcongs[i].push_back(f);
      }
    }
  }
};

inline bool sat_row(const IRow& r, const Pt& p) {
  Z s = r.b * p.den;
  for (size_t i = 0; i < p.num.size(); ++i) if (r.a[i] != 0) s += r.a[i] * p.num[i];
  int sg = sgn(s);
  return r.k == ref::EQ ? sg == 0 : r.k == ref::GE ? sg >= 0 : sg > 0;
}
inline bool sat_cong(const ICong& c, const Pt& p) {
  Z s = c.b * p.den;
  for (size_t i = 0; i < p.num.size(); ++i) if (c.a[i] != 0) s += c.a[i] * p.num[i];
  if (c.m == 0) return s == 0;
  Z md = c.m * p.den; if (md < 0) md = -md;
  return mpz_divisible_p(s.get_mpz_t(), md.get_mpz_t()) != 0;
}
inline bool in_disj_slow(const Disj& d, const Pt& p) {
  for (size_t j = 0; j < d.rows.size(); ++j) if (!sat_row(d.rows[j], p)) return false;
  for (size_t j = 0; j < d.congs.size(); ++j) if (!sat_cong(d.congs[j], p)) return false;
  return true;
}
inline bool in_disj_fast(const std::vector<FRow>& rows, const std::vector<FCong>& congs, const Pt& p, int n) {
  for (size_t j = 0; j < rows.size(); ++j) {
    const FRow& r = rows[j];
    I128 s = (I128)r.b * p.fd;
    for (int i = 0; i < n; ++i) s += (I128)r.a[i] * p.fn[i];
    if (r.k == ref::EQ ? s != 0 : r.k == ref::GE ? s < 0 : s <= 0) return false;
  }
  for (size_t j = 0; j < congs.size(); ++j) {
    const FCong& r = congs[j];
    I128 s = (I128)r.b * p.fd;
    for (int i = 0; i < n; ++i) s += (I128)r.a[i] * p.fn[i];
    if (r.m == 0) { if (s != 0) return false; }
    else { I128 md = (I128)r.m * p.fd; if (md < 0) md = -md; if (s % md != 0) return false; }
  }
  return true;
}
// membership by direct evaluation of the printed description
inline bool member(const Eval& e, const Pt& p) {
  if (e.d.empty_flag) return false;
  if (e.fast && p.fast) {
    for (size_t i = 0; i < e.d.d.size(); ++i) if (in_disj_fast(e.frows[i], e.fcongs[i], p, e.d.n)) return true;
    return false;
  }
  for (size_t i = 0; i < e.d.d.size(); ++i) if (in_disj_slow(e.d.d[i], p)) return true;
  return false;
}

// ---- conversion to the reference cells (bounds, subset tests) ---------------------------------------
inline ref::Cell cell_of_disj(const Disj& d, int n) {
  ref::Cell c(n);
  for (size_t i = 0; i < d.rows.size(); ++i) {
    ref::Row r; r.a.assign(n, Q(0));
    for (int j = 0; j < n; ++j) r.a[j] = Q(d.rows[i].a[j]);
    r.b = Q(d.rows[i].b); r.k = d.rows[i].k; c.rows.push_back(r);
  }
  return c;
}
inline ref::USet uset_of(const Desc& d) {
  ref::USet u;
  if (!d.empty_flag) for (size_t i = 0; i < d.d.size(); ++i) u.push_back(cell_of_disj(d.d[i], d.n));
  return u;
}

struct Bound { bool lo_fin, hi_fin; Q lo, hi; bool empty; Bound() : lo_fin(false), hi_fin(false), empty(false) {} };
inline Bound bound_of(const ref::Cell& c, int v) {
  Bound b;
  ref::Sup s = ref::sup(c, ref::unit(c.n, v), Q(0));
  if (s.status == 0) { b.empty = true; return b; }
  if (s.status == 1) { b.hi_fin = true; b.hi = s.value; }
  ref::Sup i = ref::inf(c, ref::unit(c.n, v), Q(0));
  if (i.status == 1) { b.lo_fin = true; b.lo = i.value; }
  return b;
}
inline Z floor_q(const Q& q) { Z r; mpz_fdiv_q(r.get_mpz_t(), q.get_num().get_mpz_t(), q.get_den().get_mpz_t()); return r; }
inline Z ceil_q(const Q& q) { Z r; mpz_cdiv_q(r.get_mpz_t(), q.get_num().get_mpz_t(), q.get_den().get_mpz_t()); return r; }
inline Z fmod_z(const Z& a, const Z& m) { Z r; mpz_fdiv_r(r.get_mpz_t(), a.get_mpz_t(), m.get_mpz_t()); return r; }

// the sparse window used in unbounded directions: neighbourhoods of every multiple of 2^(w-1) in
// [-3*2^(w-1), 5*2^(w-1)] plus a coarse comb (for w = 8: 16 | v, v in [-300, 600])
inline std::vector<Z> sparse_window(int w) {
  std::set<Z> s;
  Z H = pow2(w - 1);
  for (int k = -3; k <= 5; ++k) for (int d = -3; d <= 3; ++d) s.insert(Z(k) * H + d);
  Z step = H / 8; if (step < 1) step = 1;
  for (int j = -19; j <= 38; ++j) s.insert(Z(j) * step);
  for (int d = -12; d <= 12; ++d) s.insert(Z(d));
  return std::vector<Z>(s.begin(), s.end());
}

// ---- per-variable information of a grid read from its printed generators ----------------------------
struct GridVar { bool line; bool constant; Q value; Q freq; };   // x = value + k*freq (k integer), or constant, or any real
inline Q gcd_q(const Q& a, const Q& b) {
  if (a == 0) return abs(b); if (b == 0) return abs(a);
  Z n1 = a.get_num() * b.get_den(), n2 = b.get_num() * a.get_den(), g; mpz_gcd(g.get_mpz_t(), n1.get_mpz_t(), n2.get_mpz_t());
  Q r(g, a.get_den() * b.get_den()); r.canonicalize(); return r;
}
inline GridVar grid_var(const std::vector<GGen>& gg, int v) {
  GridVar g; g.line = false; g.constant = true; g.value = 0; g.freq = 0;
  for (size_t i = 0; i < gg.size(); ++i) {
    Q c(gg[i].v[v], gg[i].d); c.canonicalize();
    if (gg[i].t == 'p') g.value = c;
    else if (gg[i].t == 'l') { if (c != 0) g.line = true; }
    else if (c != 0) g.freq = gcd_q(g.freq, c);
  }
  g.constant = !g.line && g.freq == 0;
  return g;
}

// ---- enumeration of the test points of an argument -----------------------------------------------------
// Every point has integer values on the variables of `wmask'; the other coordinates (at most one) take
// sample values of the fibre.  `window' is set when some wrapped variable is unbounded in the argument
// (then only the sparse window is enumerated: a necessary condition).
struct PointSet {
  std::vector<Pt> pts; bool window; bool skipped;
  std::vector<Bound> vb;      // per variable: bounds of the argument (union over the disjuncts); empty = no point at all
  std::vector<std::vector<Bound> > dvb;   // the same per non-empty disjunct
  PointSet() : window(false), skipped(false) {}
};

inline void fibre_samples(const Disj& d, int n, int ov, const std::vector<Q>& x, std::vector<Q>& out, const std::vector<Z>& win) {
  // rows restricted to the line { x with coordinate ov free }
  bool lo_fin = false, hi_fin = false; Q lo, hi;
  for (size_t i = 0; i < d.rows.size(); ++i) {
    const IRow& r = d.rows[i];
    Q c(r.b); for (int j = 0; j < n; ++j) if (j != ov) c += Q(r.a[j]) * x[j];
    Q a(r.a[ov]);
    if (a == 0) { int sg = sgn(c); if (r.k == ref::EQ ? sg != 0 : r.k == ref::GE ? sg < 0 : sg <= 0) return; continue; }
    Q v = -c / a;
    if (r.k == ref::EQ || a > 0) { if (!lo_fin || v > lo) { lo = v; lo_fin = true; } }
    if (r.k == ref::EQ || a < 0) { if (!hi_fin || v < hi) { hi = v; hi_fin = true; } }
  }
  if (lo_fin && hi_fin && lo > hi) return;
  std::set<Q> s;
  if (lo_fin && hi_fin) {
    s.insert(lo); s.insert(hi); s.insert((lo + hi) / 2); s.insert(lo + (hi - lo) / 3);
    Z a = ceil_q(lo), b = floor_q(hi);
    for (Z k = a; k <= b && k < a + 3; ++k) s.insert(Q(k));
    for (Z k = b; k >= a && k > b - 3; --k) s.insert(Q(k));
    if (!d.congs.empty()) for (Z k = a; k <= b && k < a + 40; ++k) s.insert(Q(k));
  } else if (lo_fin) {
    s.insert(lo); s.insert(lo + Q(1, 2)); Z a = ceil_q(lo); s.insert(Q(a)); s.insert(Q(a + 1)); s.insert(Q(a + 1000)); s.insert(lo + Q(1, 1000));
  } else if (hi_fin) {
    s.insert(hi); s.insert(hi - Q(1, 2)); Z b = floor_q(hi); s.insert(Q(b)); s.insert(Q(b - 1)); s.insert(Q(b - 1000)); s.insert(hi - Q(1, 1000));
  } else {
    s.insert(Q(0)); s.insert(Q(1, 3)); s.insert(Q(-7, 2)); s.insert(Q(1000)); s.insert(Q(-1));
  }
  if (!d.congs.empty() || d.rows.empty()) {
    // congruences on the free coordinate: rational candidates k/D and window integers
    Z D = 1;
    for (size_t i = 0; i < d.congs.size(); ++i) if (d.congs[i].a[ov] != 0) { Z g; Z a = abs(d.congs[i].a[ov]); mpz_lcm(g.get_mpz_t(), D.get_mpz_t(), a.get_mpz_t()); D = g; }
    if (D > 60) D = 60;
    for (Z k = -2 * D; k <= 3 * D; ++k) { Q q(k, D); q.canonicalize(); s.insert(q); }
    for (size_t i = 0; i < win.size(); ++i) s.insert(Q(win[i]));
  }
  for (std::set<Q>::iterator i = s.begin(); i != s.end(); ++i) {
    if (lo_fin && *i < lo) continue; if (hi_fin && *i > hi) continue;
    out.push_back(*i);
  }
}

static const long POINT_CAP = 300000;

// arg: evaluated description of the argument (with gg when it is a grid / product)
inline PointSet enumerate_points(const Eval& arg, unsigned wmask, int w) {
  PointSet ps;
  const Desc& D = arg.d; int n = D.n;
  if (D.empty_flag) return ps;
  std::vector<int> wv, ov;
  for (int v = 0; v < n; ++v) ((wmask >> v) & 1 ? wv : ov).push_back(v);
  std::vector<Z> win = sparse_window(w);
  ps.vb.assign(n, Bound()); for (int v = 0; v < n; ++v) ps.vb[v].empty = true;
  for (size_t di = 0; di < D.d.size(); ++di) {
    const Disj& dj = D.d[di];
    ref::Cell cell = cell_of_disj(dj, n);
    if (!dj.rows.empty() && ref::is_empty(cell)) continue;
    std::vector<std::vector<Z> > cand(wv.size());
    bool none = false, dense_used = false;
    for (size_t k = 0; k < wv.size() && !none; ++k) {
      int v = wv[k];
      Bound b = dj.rows.empty() ? Bound() : bound_of(cell, v);
      bool gconst = false; Q gval;
      if (D.has_gg) { GridVar g = grid_var(D.gg, v); if (g.constant) { gconst = true; gval = g.value; } }
      if (gconst) {
        if (gval.get_den() == 1 && (!b.lo_fin || gval >= b.lo) && (!b.hi_fin || gval <= b.hi)) cand[k].push_back(gval.get_num());
        else none = true;
        continue;
      }
      if (b.lo_fin && b.hi_fin) {
        Z a = ceil_q(b.lo), e = floor_q(b.hi);
        if (e - a + 1 > POINT_CAP) { ps.skipped = true; return ps; }
        for (Z x = a; x <= e; ++x) cand[k].push_back(x);
        if (cand[k].empty()) none = true;
      } else {
        ps.window = true;
        std::set<Z> cs(win.begin(), win.end());
        bool lattice = D.has_gg || !dj.congs.empty();
        if (lattice && w == 8 && !dense_used) { dense_used = true; for (long x = -300; x <= 600; ++x) cs.insert(Z(x)); }
        if (D.has_gg) {
          // values of the lattice of this variable: the first ones and those next to every multiple of 2^(w-1)
          GridVar g = grid_var(D.gg, v);
          if (!g.line && g.freq != 0) {
            for (int kk = -4; kk <= 4; ++kk) { Q x = g.value + g.freq * kk; if (x.get_den() == 1) cs.insert(x.get_num()); }
            Z H = pow2(w - 1);
            for (int mI = -3; mI <= 5; ++mI) {
              Z t = floor_q((Q(Z(mI) * H) - g.value) / g.freq);
              for (int kk = -3; kk <= 3; ++kk) { Q x = g.value + g.freq * Q(t + kk); if (x.get_den() == 1) cs.insert(x.get_num()); }
            }
          }
        }
        for (std::set<Z>::iterator i = cs.begin(); i != cs.end(); ++i) {
          if (b.lo_fin && Q(*i) < b.lo) continue; if (b.hi_fin && Q(*i) > b.hi) continue;
          cand[k].push_back(*i);
        }
        if (cand[k].empty()) none = true;
      }
    }
    if (none) continue;
    ps.dvb.push_back(std::vector<Bound>(n));
    for (int v = 0; v < n; ++v) {
      Bound b = dj.rows.empty() ? Bound() : bound_of(cell, v);
      if (D.has_gg) { GridVar g = grid_var(D.gg, v); if (g.constant) { b.lo_fin = b.hi_fin = true; b.lo = b.hi = g.value; } }
      ps.dvb.back()[v] = b;
      Bound& t = ps.vb[v];
      if (t.empty) { t = b; t.empty = false; }
      else {
        if (!b.lo_fin) t.lo_fin = false; else if (t.lo_fin && b.lo < t.lo) t.lo = b.lo;
        if (!b.hi_fin) t.hi_fin = false; else if (t.hi_fin && b.hi > t.hi) t.hi = b.hi;
      }
    }
    double tot = 1; for (size_t k = 0; k < cand.size(); ++k) tot *= (double)cand[k].size();
    if (tot > 4000000.0)   // candidates before the membership filter; accepted points are capped by POINT_CAP below
      { ps.skipped = true; return ps; }
    // cartesian product of the candidates
    std::vector<size_t> idx(wv.size(), 0);
    std::vector<Q> x(n, Q(0));
    for (;;) {
      for (size_t k = 0; k < wv.size(); ++k) x[wv[k]] = Q(cand[k][idx[k]]);
      if (ov.empty()) {
        Pt p = make_pt(x);
        if ((arg.fast && p.fast) ? in_disj_fast(arg.frows[di], arg.fcongs[di], p, n) : in_disj_slow(dj, p)) ps.pts.push_back(p);
      } else if (ov.size() == 1) {
        std::vector<Q> ys; fibre_samples(dj, n, ov[0], x, ys, win);
        for (size_t j = 0; j < ys.size(); ++j) {
          x[ov[0]] = ys[j];
          Pt p = make_pt(x);
          if ((arg.fast && p.fast) ? in_disj_fast(arg.frows[di], arg.fcongs[di], p, n) : in_disj_slow(dj, p)) ps.pts.push_back(p);
        }
      } else {
        // two or more free coordinates: vertices and barycentre of the residual cell (closed cells only)
        ref::Cell res(n); res.rows = cell.rows;
        for (size_t k = 0; k < wv.size(); ++k) res.rows.push_back(ref::Row(ref::unit(n, wv[k]), -x[wv[k]], ref::EQ));
        ref::Gens gs;
        if (ref::gens_of_closed_cell(res, gs)) {
          std::vector<Q> bar(n, Q(0)); int np = 0;
          for (size_t g = 0; g < gs.size(); ++g) if (gs[g].t == 'p') {
            Pt p = make_pt(gs[g].v); if (in_disj_slow(dj, p)) ps.pts.push_back(p);
            for (int j = 0; j < n; ++j) bar[j] += gs[g].v[j]; ++np;
          }
          if (np) { for (int j = 0; j < n; ++j) bar[j] /= np; Pt p = make_pt(bar); if (in_disj_slow(dj, p)) ps.pts.push_back(p); }
        }
      }
      if ((long)ps.pts.size() > POINT_CAP) { ps.skipped = true; ps.pts.clear(); return ps; }
      size_t k = 0;
      while (k < idx.size() && ++idx[k] == cand[k].size()) { idx[k] = 0; ++k; }
      if (k == idx.size()) break;
    }
  }
  return ps;
}

// ---- exact integer-point existence ----------------------------------------------------------------------
// closed or NNC cell given by printed rows, by the window argument (see DESIGN 3.2 R.MILP): with Q the
// vertices and r_i the integer-scaled rays and lines of the closure, an integer point exists iff there
// is an integer p in the bounding box of Q + sum [0,1] r_i with p in P or p + sum(rays) in P.
// Returns 1 / 0, or -1 when the enumeration would be too large.
inline Z lcm_den(const ref::Vec& v) { Z l = 1; for (size_t i = 0; i < v.size(); ++i) { Z g; mpz_lcm(g.get_mpz_t(), l.get_mpz_t(), v[i].get_den().get_mpz_t()); l = g; } return l; }
inline int cell_has_integer_point(const Disj& dj, int n, long* examined = 0) {
  ref::Cell cell = cell_of_disj(dj, n);
  ref::Gens gs;
  if (!ref::gens_of_closed_cell(cell, gs)) return 0;
  if (n == 0) { Pt p; p.finish(); return in_disj_slow(dj, p) ? 1 : 0; }
  std::vector<Q> lo(n), hi(n); bool first = true;
  std::vector<Z> raysum(n, Z(0));
  std::vector<std::vector<Z> > dirs;
  for (size_t g = 0; g < gs.size(); ++g) {
    if (gs[g].t == 'p') {
      for (int j = 0; j < n; ++j) { if (first || gs[g].v[j] < lo[j]) lo[j] = gs[g].v[j]; if (first || gs[g].v[j] > hi[j]) hi[j] = gs[g].v[j]; }
      first = false;
    } else {
      Z l = lcm_den(gs[g].v); std::vector<Z> d(n);
      for (int j = 0; j < n; ++j) { Q t = gs[g].v[j] * Q(l); d[j] = t.get_num(); }
      dirs.push_back(d);
      if (gs[g].t == 'r') for (int j = 0; j < n; ++j) raysum[j] += d[j];
    }
  }
  if (first) return 0;
  for (size_t i = 0; i < dirs.size(); ++i) for (int j = 0; j < n; ++j) { if (dirs[i][j] > 0) hi[j] += Q(dirs[i][j]); else lo[j] += Q(dirs[i][j]); }
  std::vector<Z> a(n), b(n); double tot = 1;
  for (int j = 0; j < n; ++j) { a[j] = ceil_q(lo[j]); b[j] = floor_q(hi[j]); if (b[j] < a[j]) return 0; Z c = b[j] - a[j] + 1; tot *= c.get_d(); }
  if (tot > 4e6) return -1;
  std::vector<Z> x = a;
  for (;;) {
    Pt p; p.num = x; p.den = 1; p.finish();
    if (examined) ++*examined;
    if (in_disj_slow(dj, p)) return 1;
    if (!dirs.empty()) { Pt q; q.num = x; for (int j = 0; j < n; ++j) q.num[j] += raysum[j]; q.den = 1; q.finish(); if (in_disj_slow(dj, q)) return 1; }
    int k = 0;
    while (k < n && ++x[k] > b[k]) { x[k] = a[k]; ++k; }
    if (k == n) break;
  }
  return 0;
}
// plain enumeration for bounded cells (cross-check of the window method): -1 if unbounded / too large
inline int cell_has_integer_point_bounded(const Disj& dj, int n) {
  ref::Cell cell = cell_of_disj(dj, n);
  if (ref::is_empty(cell)) return 0;
  if (n == 0) return -1;
  std::vector<Z> a(n), b(n); double tot = 1;
  for (int j = 0; j < n; ++j) {
    Bound bd = bound_of(cell, j); if (bd.empty) return 0; if (!bd.lo_fin || !bd.hi_fin) return -1;
    a[j] = ceil_q(bd.lo); b[j] = floor_q(bd.hi); if (b[j] < a[j]) return 0; Z c = b[j] - a[j] + 1; tot *= c.get_d();
  }
  if (tot > 4e6) return -1;
  std::vector<Z> x = a;
  for (;;) {
    Pt p; p.num = x; p.den = 1; p.finish();
    if (in_disj_slow(dj, p)) return 1;
    int k = 0;
    while (k < n && ++x[k] > b[k]) { x[k] = a[k]; ++k; }
    if (k == n) break;
  }
  return 0;
}

// grids of dimension <= 2 given by printed congruences: direct lattice reasoning.
// The set of integer solutions is empty or a coset of a sublattice L of Z^n; L contains M*Z^n restricted to
// the equalities' solution space, M = lcm of the moduli, so a bounded search is exact.  -1: not handled.
inline int grid_has_integer_point(const Disj& dj, int n) {
  if (n == 0) { Pt p; p.finish(); return in_disj_slow(dj, p) ? 1 : 0; }
  if (n > 2) return -1;
  Z M = 1; std::vector<const ICong*> eqs;
  for (size_t i = 0; i < dj.congs.size(); ++i) {
    const ICong& c = dj.congs[i];
    bool zero = true; for (int j = 0; j < n; ++j) if (c.a[j] != 0) zero = false;
    if (zero) { if (c.m == 0 ? c.b != 0 : fmod_z(c.b, abs(c.m)) != 0) return 0; continue; }
    if (c.m == 0) eqs.push_back(&c);
    else {
      // a.x changes by a multiple of m whenever x changes by a multiple of m / gcd(m, a_0, .., a_{n-1})
      Z g, m = abs(c.m), d = m; for (int j = 0; j < n; ++j) { Z t; mpz_gcd(t.get_mpz_t(), d.get_mpz_t(), c.a[j].get_mpz_t()); d = t; }
      m /= d; mpz_lcm(g.get_mpz_t(), M.get_mpz_t(), m.get_mpz_t()); M = g;
    }
  }
  if (M > 5000) return -1;
  std::vector<Z> x(n);
  if (n == 1) {
    if (!eqs.empty()) {
      const ICong& e = *eqs[0];
      if (fmod_z(e.b, abs(e.a[0])) != 0) return 0;
      Pt p; p.num.push_back(-e.b / e.a[0]); p.den = 1; p.finish(); return in_disj_slow(dj, p) ? 1 : 0;
    }
    for (Z v = 0; v < M; ++v) { Pt p; p.num.push_back(v); p.den = 1; p.finish(); if (in_disj_slow(dj, p)) return 1; }
    return 0;
  }
  // n == 2
  // rank of the equalities
  const ICong* e1 = eqs.empty() ? 0 : eqs[0]; const ICong* e2 = 0;
  for (size_t i = 1; i < eqs.size(); ++i) if (e1->a[0] * eqs[i]->a[1] - e1->a[1] * eqs[i]->a[0] != 0) { e2 = eqs[i]; break; }
  if (e1 && e2) {
    Z det = e1->a[0] * e2->a[1] - e1->a[1] * e2->a[0];
    Z nx = -(e1->b * e2->a[1] - e1->a[1] * e2->b), ny = -(e1->a[0] * e2->b - e1->b * e2->a[0]);
    if (fmod_z(nx, abs(det)) != 0 || fmod_z(ny, abs(det)) != 0) return 0;
    Pt p; p.num.push_back(nx / det); p.num.push_back(ny / det); p.den = 1; p.finish();
    return in_disj_slow(dj, p) ? 1 : 0;
  }
  if (e1) {
    // a1 x + a2 y + b = 0: integer solutions are periodic along (a2, -a1)/g; congruences have period M
    Z a1 = e1->a[0], a2 = e1->a[1], g; mpz_gcd(g.get_mpz_t(), a1.get_mpz_t(), a2.get_mpz_t());
    if (a2 != 0) {
      Z per = M * abs(a2) / g; if (per > 2000000) return -1;
      for (Z xv = 0; xv < per; ++xv) {
        Z t = -(a1 * xv + e1->b); if (fmod_z(t, abs(a2)) != 0) continue;
        Pt p; p.num.push_back(xv); p.num.push_back(t / a2); p.den = 1; p.finish(); if (in_disj_slow(dj, p)) return 1;
      }
      return 0;
    }
    if (fmod_z(e1->b, abs(a1)) != 0) return 0;
    for (Z yv = 0; yv < M; ++yv) { Pt p; p.num.push_back(-e1->b / a1); p.num.push_back(yv); p.den = 1; p.finish(); if (in_disj_slow(dj, p)) return 1; }
    return 0;
  }
  // without equalities the solution set is periodic with period Mx in x and My in y (lcm of the moduli of
  // the congruences that mention the variable)
  Z Mx = 1, My = 1;
  for (size_t i = 0; i < dj.congs.size(); ++i) {
    const ICong& c = dj.congs[i]; if (c.m == 0) continue; Z m = abs(c.m), g, t;
    if (c.a[0] != 0) { mpz_gcd(t.get_mpz_t(), m.get_mpz_t(), c.a[0].get_mpz_t()); Z q = m / t; mpz_lcm(g.get_mpz_t(), Mx.get_mpz_t(), q.get_mpz_t()); Mx = g; }
    if (c.a[1] != 0) { mpz_gcd(t.get_mpz_t(), m.get_mpz_t(), c.a[1].get_mpz_t()); Z q = m / t; mpz_lcm(g.get_mpz_t(), My.get_mpz_t(), q.get_mpz_t()); My = g; }
  }
  if (Mx * My > 4000000) return -1;
  for (Z xv = 0; xv < Mx; ++xv) for (Z yv = 0; yv < My; ++yv) {
    Pt p; p.num.push_back(xv); p.num.push_back(yv); p.den = 1; p.finish(); if (in_disj_slow(dj, p)) return 1;
  }
  return 0;
}

// grid inclusion by direct evaluation: every printed generator of `res' satisfies every printed congruence of `arg'
inline bool grid_gens_satisfy(const std::vector<GGen>& gg, const Disj& arg, int n, std::string* why) {
  for (size_t g = 0; g < gg.size(); ++g) {
    for (size_t i = 0; i < arg.congs.size(); ++i) {
      const ICong& c = arg.congs[i];
      Z s = 0; for (int j = 0; j < n; ++j) s += c.a[j] * gg[g].v[j];
      bool ok;
      if (gg[g].t == 'p') { Z t = s + c.b * gg[g].d; ok = c.m == 0 ? t == 0 : fmod_z(t, abs(c.m * gg[g].d)) == 0; }
      else if (gg[g].t == 'q') ok = c.m == 0 ? s == 0 : fmod_z(s, abs(c.m * gg[g].d)) == 0;
      else ok = s == 0;
      if (!ok) { if (why) *why = std::string("generator #") + std::to_string(g) + " (" + gg[g].t + ") violates congruence #" + std::to_string(i); return false; }
    }
  }
  return true;
}

} // namespace c17
#endif

// C17 adapters: C/NNC polyhedra, Pointset_Powerset<C_Polyhedron>, Grid, Constraints_Product<C_Polyhedron, Grid>.
#include "harness/c17_adapt.hh"

namespace c17 {

// ---- polyhedra: four lazy states ----------------------------------------------------------------
//   0 "constraints"  only constraints, never minimized
//   1 "generators"   only generators
//   2 "minimized"    both descriptions up to date and minimized
//   3 "pending"      minimized, then the last constraint added (pending / not minimized)
template <class PH>
struct PolyDomain : Domain {
  PolyDomain(const std::string& nm) { name = nm; kind = K_ROWS; modes = 4; has_wrap = true; has_cip = true; }
  const char* mode_name(int m) const { return m == 0 ? "constraints" : m == 1 ? "generators" : m == 2 ? "minimized" : "pending"; }
  Subject* build(const Built& b, int mode) const {
    SimpleSubject<PH>* s = new SimpleSubject<PH>(b.n);
    const PPL::Constraint_System& cs = b.cs[0];
    if (mode == 1) {
      if (b.gs[0].begin() == b.gs[0].end()) { PH t(b.n, PPL::EMPTY); s->d.m_swap(t); }
      else { PH t(b.gs[0]); s->d.m_swap(t); }
      return s;
    }
    if (mode == 3) {
      std::vector<PPL::Constraint> rows;
      for (PPL::Constraint_System::const_iterator i = cs.begin(), e = cs.end(); i != e; ++i) rows.push_back(*i);
      for (size_t i = 0; i + 1 < rows.size(); ++i) s->d.refine_with_constraint(rows[i]);
      (void)s->d.minimized_generators();
      if (!rows.empty()) s->d.refine_with_constraint(rows.back());
      return s;
    }
    s->d.refine_with_constraints(cs);
    if (mode == 2) { (void)s->d.minimized_generators(); (void)s->d.minimized_constraints(); }
    return s;
  }
};

// ---- powerset of C polyhedra -------------------------------------------------------------------
typedef PPL::Pointset_Powerset<PPL::C_Polyhedron> PS;
struct PSSubject : Subject {
  PS d; int n;
  explicit PSSubject(int n_) : d(n_, PPL::EMPTY), n(n_) {}
  void describe(Desc& out, bool) const {
    out.n = n; out.d.clear(); out.gg.clear(); out.has_gg = false;
    out.empty_flag = d.is_empty();
    for (PS::const_iterator i = d.begin(), e = d.end(); i != e; ++i) {
      Disj dj; read_rows(i->pointset().constraints(), n, dj); out.d.push_back(dj);
    }
  }
  std::string print() const { return vf::print_of(d); }
  void wrap(const WrapCall& c) { d.wrap_assign(c.vars, c.w, c.r, c.o, c.cs_p, c.thr, c.ind); }
  void drop_all(PPL::Complexity_Class cc) { d.drop_some_non_integer_points(cc); }
  void drop_vars(const PPL::Variables_Set& vs, PPL::Complexity_Class cc) { d.drop_some_non_integer_points(vs, cc); }
  bool cip() const { return d.contains_integer_point(); }
};
struct PSDomain : Domain {
  PSDomain() { name = "Pointset_Powerset<C_Polyhedron>"; kind = K_POWERSET; modes = 2; has_wrap = true; has_cip = true; }
  const char* mode_name(int m) const { return m == 0 ? "disjuncts_from_constraints" : "disjuncts_from_generators"; }
  Subject* build(const Built& b, int mode) const {
    PSSubject* s = new PSSubject(b.n);
    for (size_t i = 0; i < b.cs.size(); ++i) {
      if (mode == 0) { PPL::C_Polyhedron p(b.n, PPL::UNIVERSE); p.refine_with_constraints(b.cs[i]); s->d.add_disjunct(p); }
      else if (b.gs[i].begin() != b.gs[i].end()) { PPL::C_Polyhedron p(b.gs[i]); s->d.add_disjunct(p); }
    }
    return s;
  }
};

// ---- grids ---------------------------------------------------------------------------------------
struct GridSubject : Subject {
  PPL::Grid d; int n;
  explicit GridSubject(int n_) : d(n_, PPL::UNIVERSE), n(n_) {}
  void describe(Desc& out, bool want_gg) const {
    out.n = n; out.d.clear(); out.gg.clear(); out.has_gg = false;
    out.empty_flag = d.is_empty();
    Disj dj; read_congs(d.congruences(), n, dj); out.d.push_back(dj);
    if (want_gg && !out.empty_flag) { read_ggens(d.grid_generators(), n, out.gg); out.has_gg = true; }
  }
  std::string print() const { return vf::print_of(d); }
  void wrap(const WrapCall& c) { d.wrap_assign(c.vars, c.w, c.r, c.o, c.cs_p, c.thr, c.ind); }
  void drop_all(PPL::Complexity_Class cc) { d.drop_some_non_integer_points(cc); }
  void drop_vars(const PPL::Variables_Set& vs, PPL::Complexity_Class cc) { d.drop_some_non_integer_points(vs, cc); }
  bool cip() const { return d.contains_integer_point(); }
};
//   0 "congruences"  only congruences;  1 "generators" built from the grid generators of a twin;
//   2 "minimized"    congruences, then both minimized descriptions requested
struct GridDomain : Domain {
  GridDomain() { name = "Grid"; kind = K_GRID; modes = 3; has_wrap = true; has_cip = true; }
  const char* mode_name(int m) const { return m == 0 ? "congruences" : m == 1 ? "generators" : "minimized"; }
  Subject* build(const Built& b, int mode) const {
    GridSubject* s = new GridSubject(b.n);
    if (mode == 1) {
      PPL::Grid tw(b.n, PPL::UNIVERSE); tw.add_congruences(b.cgs);
      if (tw.is_empty()) { PPL::Grid t(b.n, PPL::EMPTY); s->d.m_swap(t); }
      else { PPL::Grid t(tw.grid_generators()); s->d.m_swap(t); }
      return s;
    }
    s->d.add_congruences(b.cgs);
    if (mode == 2) { (void)s->d.minimized_grid_generators(); (void)s->d.minimized_congruences(); }
    return s;
  }
};

// ---- one product: polyhedron x grid with constraint reduction ----------------------------------------
typedef PPL::Domain_Product<PPL::C_Polyhedron, PPL::Grid>::Constraints_Product PROD;
struct ProdSubject : Subject {
  PROD d; int n;
  explicit ProdSubject(int n_) : d(n_, PPL::UNIVERSE), n(n_) {}
  void describe(Desc& out, bool want_gg) const {
    out.n = n; out.d.clear(); out.gg.clear(); out.has_gg = false;
    // the components are read separately (no reduction is requested by the harness)
    out.empty_flag = d.domain1().is_empty() || d.domain2().is_empty();
    Disj dj; read_rows(d.domain1().constraints(), n, dj); read_congs(d.domain2().congruences(), n, dj);
    out.d.push_back(dj);
    if (want_gg && !d.domain2().is_empty()) { read_ggens(d.domain2().grid_generators(), n, out.gg); out.has_gg = true; }
  }
  std::string print() const { return vf::print_of(d); }
  void wrap(const WrapCall&) {}
  void drop_all(PPL::Complexity_Class cc) { d.drop_some_non_integer_points(cc); }
  void drop_vars(const PPL::Variables_Set& vs, PPL::Complexity_Class cc) { d.drop_some_non_integer_points(vs, cc); }
  bool cip() const { return false; }
};
struct ProdDomain : Domain {
  ProdDomain() { name = "Constraints_Product<C_Polyhedron,Grid>"; kind = K_PRODUCT; modes = 1; has_wrap = false; has_cip = false; }
  const char* mode_name(int) const { return "refined"; }
  Subject* build(const Built& b, int) const {
    ProdSubject* s = new ProdSubject(b.n);
    s->d.refine_with_constraints(b.cs[0]);
    s->d.refine_with_congruences(b.cgs);
    return s;
  }
};

std::vector<Domain*> domains_poly() {
  std::vector<Domain*> v;
  v.push_back(new PolyDomain<PPL::C_Polyhedron>("C_Polyhedron"));
  v.push_back(new PolyDomain<PPL::NNC_Polyhedron>("NNC_Polyhedron"));
  v.push_back(new PSDomain());
  v.push_back(new GridDomain());
  v.push_back(new ProdDomain());
  return v;
}

} // namespace c17

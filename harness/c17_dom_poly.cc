// C17 adapters: C/NNC polyhedra, Pointset_Powerset<C_Polyhedron>, Grid, Constraints_Product<C_Polyhedron, Grid>.
#include "harness/c17_adapt.hh"

namespace c17 {

// ---- polyhedra: four lazy states ----------------------------------------------------------------
//   0 "constraints"  only constraints, never minimized
//   1 "generators"   only generators
//   2 "minimized"    both descriptions up to date and minimized
//   3 "pending"      minimized, then the last constraint added (pending / not minimized)
//   4 "pending_generator"    all generators but the last, minimized, then the last generator added (pending generator)
//   5 "redundant_generators" only generators, not minimized, with redundant points (midpoints) appended
template <class PH>
struct PolyDomain : Domain {
  PolyDomain(const std::string& nm) { name = nm; kind = K_ROWS; modes = 6; extra_from = 4; has_wrap = true; has_cip = true; }
  const char* mode_name(int m) const { return m == 0 ? "constraints" : m == 1 ? "generators" : m == 2 ? "minimized" : m == 3 ? "pending" : m == 4 ? "pending_generator" : "redundant_generators"; }
  Subject* build(const Built& b, int mode) const {
    SimpleSubject<PH>* s = new SimpleSubject<PH>(b.n);
    const PPL::Constraint_System& cs = b.cs[0];
    if (mode == 1) {
      if (b.gs[0].begin() == b.gs[0].end()) { PH t(b.n, PPL::EMPTY); s->d.m_swap(t); }
      else { PH t(b.gs[0]); s->d.m_swap(t); }
      return s;
    }
    if (mode == 4 || mode == 5) {
      std::vector<PPL::Generator> gens, pts;
      for (PPL::Generator_System::const_iterator i = b.gs[0].begin(), e = b.gs[0].end(); i != e; ++i) { if (i->is_point()) pts.push_back(*i); else gens.push_back(*i); }
      if (pts.empty()) { PH t(b.n, PPL::EMPTY); s->d.m_swap(t); return s; }
      if (mode == 4) {
        // points first: the last generator (a ray / line if there is one, else a point) is added after minimization
        std::vector<PPL::Generator> all(pts); all.insert(all.end(), gens.begin(), gens.end());
        PPL::Generator_System g0; for (size_t i = 0; i + 1 < all.size(); ++i) g0.insert(all[i]);
        if (all.size() == 1) g0.insert(all[0]);
        PH t(g0); (void)t.minimized_constraints(); (void)t.minimized_generators();
        if (all.size() > 1) t.add_generator(all.back());
        s->d.m_swap(t); return s;
      }
      PPL::Generator_System g1(b.gs[0]);
      for (size_t i = 0; i + 1 < pts.size() && i < 3; ++i) {
        // midpoint of two vertices: (e1/d1 + e2/d2)/2
        PPL::Linear_Expression e = PPL::Linear_Expression(pts[i].expression()) * pts[i + 1].divisor() + PPL::Linear_Expression(pts[i + 1].expression()) * pts[i].divisor();
        if (b.n > 0) e += 0 * PPL::Variable(b.n - 1);
        g1.insert(PPL::Generator::point(e, 2 * pts[i].divisor() * pts[i + 1].divisor()));
      }
      g1.insert(pts[0]);
      PH t(g1); s->d.m_swap(t); return s;
    }
    if (mode == 3) {
      std::vector<PPL::Constraint> rows;
      for (PPL::Constraint_System::const_iterator i = cs.begin(), e = cs.end(); i != e; ++i) rows.push_back(*i);
      for (size_t i = 0; i + 1 < rows.size(); ++i) s->d.refine_with_constraint(rows[i]);
      (void)s->d.minimized_generators();
      if (!rows.empty()) s->d.refine_with_constraint(rows.back());
      return s;
    }
    s->d.refine_with_constraints(cs);
    if (mode == 2) { (void)s->d.minimized_generators(); (void)s->d.minimized_constraints(); }
    return s;
  }
};

// ---- powerset of C polyhedra -------------------------------------------------------------------
typedef PPL::Pointset_Powerset<PPL::C_Polyhedron> PS;
struct PSSubject : Subject {
  PS d; int n;
  explicit PSSubject(int n_) : d(n_, PPL::EMPTY), n(n_) {}
  void describe(Desc& out, bool) const {
    out.n = n; out.d.clear(); out.gg.clear(); out.has_gg = false;
    out.empty_flag = d.is_empty();
    for (PS::const_iterator i = d.begin(), e = d.end(); i != e; ++i) {
      Disj dj; read_rows(i->pointset().constraints(), n, dj); out.d.push_back(dj);
    }
  }
  std::string print() const { return vf::print_of(d); }
  void wrap(const WrapCall& c) { d.wrap_assign(c.vars, c.w, c.r, c.o, c.cs_p, c.thr, c.ind); }
  void drop_all(PPL::Complexity_Class cc) { d.drop_some_non_integer_points(cc); }
  void drop_vars(const PPL::Variables_Set& vs, PPL::Complexity_Class cc) { d.drop_some_non_integer_points(vs, cc); }
  bool cip() const { return d.contains_integer_point(); }
};
struct PSDomain : Domain {
  PSDomain() { name = "Pointset_Powerset<C_Polyhedron>"; kind = K_POWERSET; modes = 3; extra_from = 2; has_wrap = true; has_cip = true; }
  const char* mode_name(int m) const { return m == 0 ? "disjuncts_from_constraints" : m == 1 ? "disjuncts_from_generators" : "minimized_disjuncts_plus_duplicate_not_reduced"; }
  Subject* build(const Built& b, int mode) const {
    PSSubject* s = new PSSubject(b.n);
    for (size_t i = 0; i < b.cs.size(); ++i) {
      if (mode == 0) { PPL::C_Polyhedron p(b.n, PPL::UNIVERSE); p.refine_with_constraints(b.cs[i]); s->d.add_disjunct(p); }
      else if (mode == 2) { PPL::C_Polyhedron p(b.n, PPL::UNIVERSE); p.refine_with_constraints(b.cs[i]); (void)p.minimized_generators(); (void)p.minimized_constraints(); if (!p.is_empty()) s->d.add_disjunct(p); }
      else if (b.gs[i].begin() != b.gs[i].end()) { PPL::C_Polyhedron p(b.gs[i]); s->d.add_disjunct(p); }
    }
    if (mode == 2 && !b.cs.empty()) {
      // the first disjunct once more, from its generators: the sequence is not omega-reduced
      if (b.gs[0].begin() != b.gs[0].end()) { PPL::C_Polyhedron p(b.gs[0]); s->d.add_disjunct(p); }
    }
    return s;
  }
};

// ---- grids ---------------------------------------------------------------------------------------
struct GridSubject : Subject {
  PPL::Grid d; int n;
  explicit GridSubject(int n_) : d(n_, PPL::UNIVERSE), n(n_) {}
  void describe(Desc& out, bool want_gg) const {
    out.n = n; out.d.clear(); out.gg.clear(); out.has_gg = false;
    out.empty_flag = d.is_empty();
    Disj dj; read_congs(d.congruences(), n, dj); out.d.push_back(dj);
    if (want_gg && !out.empty_flag) { read_ggens(d.grid_generators(), n, out.gg); out.has_gg = true; }
  }
  std::string print() const { return vf::print_of(d); }
  void wrap(const WrapCall& c) { d.wrap_assign(c.vars, c.w, c.r, c.o, c.cs_p, c.thr, c.ind); }
  void drop_all(PPL::Complexity_Class cc) { d.drop_some_non_integer_points(cc); }
  void drop_vars(const PPL::Variables_Set& vs, PPL::Complexity_Class cc) { d.drop_some_non_integer_points(vs, cc); }
  bool cip() const { return d.contains_integer_point(); }
};
//   0 "congruences"      only congruences
//   1 "generators"       built from the (minimal) grid generators of a twin: generators up to date, not marked minimized
//   2 "minimized"        congruences, then both minimized descriptions requested
//   3 "several_points"   built from a NON-minimal generator system: every parameter q replaced by the point p + q
//   4 "joined"           upper_bound_assign of two grids (the lattice without its last parameter, and its translate by it)
//   5 "added_point"      the lattice without its last parameter, minimized, then add_grid_generator(grid_point(p + q))
//   6 "added_congruence" all congruences but the last, minimized, then the last congruence added (generators out of date)
struct GridParts { bool empty; PPL::Linear_Expression pe; PPL::Coefficient pd; std::vector<PPL::Grid_Generator> params, lines; };
static GridParts grid_parts(const Built& b) {
  GridParts g; g.empty = false; g.pd = 1;
  PPL::Grid tw(b.n, PPL::UNIVERSE); tw.add_congruences(b.cgs);
  if (tw.is_empty()) { g.empty = true; return g; }
  const PPL::Grid_Generator_System& gs = tw.minimized_grid_generators();
  for (PPL::Grid_Generator_System::const_iterator i = gs.begin(), e = gs.end(); i != e; ++i) {
    if (i->is_point()) { g.pe = PPL::Linear_Expression(i->expression()); g.pd = i->divisor(); }
    else if (i->is_parameter()) g.params.push_back(*i);
    else g.lines.push_back(*i);
  }
  return g;
}
// the point p + q
static PPL::Grid_Generator shifted_point(const GridParts& g, const PPL::Grid_Generator& q, int n) {
  PPL::Linear_Expression e = g.pe * q.divisor() + PPL::Linear_Expression(q.expression()) * g.pd;
  if (n > 0) e += 0 * PPL::Variable(n - 1);
  return PPL::grid_point(e, g.pd * q.divisor());
}
static PPL::Grid_Generator base_point(const GridParts& g, int n) {
  PPL::Linear_Expression e = g.pe; if (n > 0) e += 0 * PPL::Variable(n - 1);
  return PPL::grid_point(e, g.pd);
}
struct GridDomain : Domain {
  GridDomain() { name = "Grid"; kind = K_GRID; modes = 7; has_wrap = true; has_cip = true; ignores_thr = true; }
  const char* mode_name(int m) const {
    static const char* nm[] = { "congruences", "generators", "minimized", "several_points", "joined", "added_point", "added_congruence" };
    return nm[m];
  }
  Subject* build(const Built& b, int mode) const {
    GridSubject* s = new GridSubject(b.n);
    if (mode == 1) {
      PPL::Grid tw(b.n, PPL::UNIVERSE); tw.add_congruences(b.cgs);
      if (tw.is_empty()) { PPL::Grid t(b.n, PPL::EMPTY); s->d.m_swap(t); }
      else { PPL::Grid t(tw.grid_generators()); s->d.m_swap(t); }
      return s;
    }
    if (mode == 3 || mode == 4 || mode == 5) {
      GridParts g = grid_parts(b);
      if (g.empty) { PPL::Grid t(b.n, PPL::EMPTY); s->d.m_swap(t); return s; }
      if (mode == 3) {
        PPL::Grid_Generator_System gs;
        gs.insert(base_point(g, b.n));
        for (size_t i = 0; i < g.params.size(); ++i) gs.insert(shifted_point(g, g.params[i], b.n));
        for (size_t i = 0; i < g.lines.size(); ++i) gs.insert(g.lines[i]);
        PPL::Grid t(gs); s->d.m_swap(t); return s;
      }
      // the lattice without its last parameter ...
      PPL::Grid_Generator_System g0; g0.insert(base_point(g, b.n));
      for (size_t i = 0; i + 1 < g.params.size(); ++i) g0.insert(g.params[i]);
      for (size_t i = 0; i < g.lines.size(); ++i) g0.insert(g.lines[i]);
      PPL::Grid t(g0);
      if (mode == 4) {
        // ... joined with its translate (or with itself when there is no parameter)
        PPL::Grid_Generator_System g1;
        g1.insert(g.params.empty() ? base_point(g, b.n) : shifted_point(g, g.params.back(), b.n));
        for (size_t i = 0; i + 1 < g.params.size(); ++i) g1.insert(g.params[i]);
        for (size_t i = 0; i < g.lines.size(); ++i) g1.insert(g.lines[i]);
        PPL::Grid u(g1);
        t.upper_bound_assign(u);
      } else {
        (void)t.minimized_grid_generators(); (void)t.minimized_congruences();
        t.add_grid_generator(g.params.empty() ? base_point(g, b.n) : shifted_point(g, g.params.back(), b.n));
      }
      s->d.m_swap(t); return s;
    }
    if (mode == 6) {
      std::vector<PPL::Congruence> rows;
      for (PPL::Congruence_System::const_iterator i = b.cgs.begin(), e = b.cgs.end(); i != e; ++i) rows.push_back(*i);
      for (size_t i = 0; i + 1 < rows.size(); ++i) s->d.add_congruence(rows[i]);
      (void)s->d.minimized_grid_generators(); (void)s->d.minimized_congruences();
      if (!rows.empty()) s->d.add_congruence(rows.back());
      return s;
    }
    s->d.add_congruences(b.cgs);
    if (mode == 2) { (void)s->d.minimized_grid_generators(); (void)s->d.minimized_congruences(); }
    return s;
  }
};

// ---- one product: polyhedron x grid with constraint reduction ----------------------------------------
typedef PPL::Domain_Product<PPL::C_Polyhedron, PPL::Grid>::Constraints_Product PROD;
struct ProdSubject : Subject {
  PROD d; int n;
  explicit ProdSubject(int n_) : d(n_, PPL::UNIVERSE), n(n_) {}
  void describe(Desc& out, bool want_gg) const {
    out.n = n; out.d.clear(); out.gg.clear(); out.has_gg = false;
    // the components are read separately (no reduction is requested by the harness)
    out.empty_flag = d.domain1().is_empty() || d.domain2().is_empty();
    Disj dj; read_rows(d.domain1().constraints(), n, dj); read_congs(d.domain2().congruences(), n, dj);
    out.d.push_back(dj);
    if (want_gg && !d.domain2().is_empty()) { read_ggens(d.domain2().grid_generators(), n, out.gg); out.has_gg = true; }
  }
  std::string print() const { return vf::print_of(d); }
  void wrap(const WrapCall&) {}
  void drop_all(PPL::Complexity_Class cc) { d.drop_some_non_integer_points(cc); }
  void drop_vars(const PPL::Variables_Set& vs, PPL::Complexity_Class cc) { d.drop_some_non_integer_points(vs, cc); }
  bool cip() const { return false; }
};
struct ProdDomain : Domain {
  ProdDomain() { name = "Constraints_Product<C_Polyhedron,Grid>"; kind = K_PRODUCT; modes = 2; has_wrap = false; has_cip = false; }
  const char* mode_name(int m) const { return m == 0 ? "refined" : "refined_components_from_generators"; }
  Subject* build(const Built& b, int mode) const {
    ProdSubject* s = new ProdSubject(b.n);
    if (mode == 1) {
      // the grid component comes from a non-minimal generator system (several points), the polyhedron from it + constraints
      GridParts g = grid_parts(b);
      if (g.empty) { PROD t(b.n, PPL::EMPTY); s->d.m_swap(t); return s; }
      PPL::Grid_Generator_System gs;
      gs.insert(base_point(g, b.n));
      for (size_t i = 0; i < g.params.size(); ++i) gs.insert(shifted_point(g, g.params[i], b.n));
      for (size_t i = 0; i < g.lines.size(); ++i) gs.insert(g.lines[i]);
      PPL::Grid gr(gs);
      PROD t(gr); t.refine_with_constraints(b.cs[0]);
      s->d.m_swap(t); return s;
    }
    s->d.refine_with_constraints(b.cs[0]);
    s->d.refine_with_congruences(b.cgs);
    return s;
  }
};

std::vector<Domain*> domains_poly() {
  std::vector<Domain*> v;
  v.push_back(new PolyDomain<PPL::C_Polyhedron>("C_Polyhedron"));
  v.push_back(new PolyDomain<PPL::NNC_Polyhedron>("NNC_Polyhedron"));
  v.push_back(new PSDomain());
  v.push_back(new GridDomain());
  v.push_back(new ProdDomain());
  return v;
}

} // namespace c17

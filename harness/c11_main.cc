// C11 part 1 driver: bounded exhaustive enumeration of the PPL numeric kernel against an exact GMP oracle.
#include "harness/c11_common.hh"
#include "initializer.hh"
#include <algorithm>
namespace c11 { bool& thorough_alphabets_ref(); }

namespace c11 {

// ---------------------------------------------------------------- narrow triggers (predicates over the input)
std::string trigger_of(const CaseCtx& c, const Exact& E, unsigned r, const XVal& S, const char* clause) {
  std::string op = c.op; size_t ip = op.find("(in-place)"); bool in_place = ip != std::string::npos; if (in_place) op = op.substr(0, ip);
  const bool sint = c.dcls == TC_SINT, uint = c.dcls == TC_UINT, conv = c.from_type != 0;
  const bool xf = c.x && c.x->fin(), yf = c.y && c.y->fin();
  (void)r; (void)S; (void)clause;
  mpq_class half_range = c.dbits ? pow2((unsigned)c.dbits - 1) : mpq_class(0);      // 2^(bits-1) = -(type min)
  // 1. div_signed_int decides the rounding from the sign of x % y only: wrong when the divisor is negative
  if (op == "div" && sint && !conv && xf && yf && sgn(c.y->q) < 0 && E.defined() && E.kind == K_FIN && !is_int_q(E.q))
    return "div_negative_divisor_inexact";
  // 2. add_mul_float/sub_mul_float evaluate x*y + to in two steps: with an infinite accumulator the rounded
  //    product (overflow to the opposite infinity / underflow raising the inexact flag) spoils result or relation
  if ((op == "add_mul" || op == "sub_mul") && c.dcls == TC_FLT && c.z && c.z->inf() && xf && yf)
    return "fused_float_infinite_accumulator_finite_factors";
  // 3. assign_int_float compares `from' with the type maximum converted to the (narrower) floating type
  if ((op == "assign" || op == "construct") && (sint || uint) && conv && c.scls == TC_FLT && xf
      && (c.x->q == (sint ? half_range : half_range * 2)))
    return "float_source_is_power_of_two_just_above_integer_max";
  // 4. construct_mpz_float rounds with rint() in round-up mode but fixes up as if it had truncated
  if (op == "construct" && c.dcls == TC_MPZ && conv && c.scls == TC_FLT && xf && sgn(c.x->q) > 0 && !is_int_q(c.x->q))
    return "construct_mpz_from_positive_noninteger_float";
  // 5. div_mpz / div_2exp_mpz test divisibility of the numerator after it has been overwritten
  if ((op == "div" || op == "div_2exp") && c.dcls == TC_MPZ && in_place && (c.dir & 8u) && (c.dir & 7u) <= 1u)
    return "mpz_in_place_division_strict_relation";
  // 6. lcm_gcd_exact takes the absolute values under the *source* policies
  if (op == "lcm" && sint && ((xf && c.x->q == -half_range) || (yf && c.y->q == -half_range)))
    return "lcm_operand_is_type_min";
  // 7. sqrt_mpq computes 1/sqrt(1/x) for x <= 1 but returns the relation of the reciprocal; inverse() rejects NOT_NEEDED
  if (op == "sqrt" && c.dcls == TC_MPQ && xf && sgn(c.x->q) > 0 && c.x->q <= 1) {
    if ((c.dir & 7u) == 7u) return "sqrt_mpq_round_not_needed_radicand_le_one";
    return "sqrt_mpq_radicand_below_one";
  }
  // 7b. ... and with ROUND_IGNORE it combines an upward division with a downward square root but reports the division's V_LE
  if (op == "sqrt" && c.dcls == TC_MPQ && xf && c.x->q > 1 && (c.dir & 7u) == 6u)
    return "sqrt_mpq_round_ignore";
  // 8. isqrt_rem overflows its accumulator for signed radicands >= 2^(bits-2)
  if (op == "sqrt" && sint && xf && c.x->q >= half_range / 2)
    return "sqrt_signed_int_radicand_ge_quarter_range";
  // 9. sub_mul_int: 0 - (max+1) is exactly the type minimum, reported as negative overflow
  if (op == "sub_mul" && sint && E.defined() && E.kind == K_FIN && E.q == -half_range && c.z && c.z->fin() && sgn(c.z->q) == 0)
    return "sub_mul_zero_accumulator_result_exactly_type_min";
  // 10. umod_2exp_signed_int does not compare the result with the extended maximum
  if (op == "umod_2exp" && sint && E.defined() && E.kind == K_FIN && E.q == half_range - 1)
    return "umod_2exp_signed_result_is_raw_type_max";
  // 11. float_mpq_to_string (used by the long double -> mpz path) misplaces the sign of small negative fractions
  if ((op == "assign" || op == "construct") && c.dcls == TC_MPZ && conv && c.from_type == std::string("long_double") && xf && sgn(c.x->q) < 0 && c.x->q > -1)
    return "mpz_from_negative_long_double_fraction";
  // 13. assign_float_mpq keeps one mantissa bit too many when the value turns out to be denormal only after the division
  if ((op == "assign" || op == "construct") && c.dcls == TC_FLT && conv && c.scls == TC_MPQ && xf && sgn(c.x->q) != 0) {
    int emin = c.dbits == 32 ? -126 : c.dbits == 64 ? -1022 : -16382;
    mpq_class ax = abs(c.x->q);
    if (ax < pow2(0) / pow2((unsigned)(-emin))) return "rational_source_below_smallest_normal_float";
  }
  // 12. assign_int_float calls the double version of rint() also for long double sources
  if ((op == "assign" || op == "construct") && (sint || uint) && conv && c.from_type == std::string("long_double") && xf && sgn(c.x->q) != 0) {
    mpz_class n = abs(c.x->q.get_num());
    if ((long)mpz_sizeinbase(n.get_mpz_t(), 2) - (long)mpz_scan1(n.get_mpz_t(), 0) > 53)
      return "long_double_source_with_more_than_53_significant_bits";
  }
  return "none";
}

struct Item { int cell; long long lo, hi; };
static std::vector<Item> ITEMS;

struct CrashRec { volatile long long item, sub; char op[40]; volatile unsigned dir; volatile int valid; };
static CrashRec* CRASH = 0;
static volatile long long g_item = -1;

static void crash_handler(int sig) {
  int w = vf::pool().worker_id;
  if (CRASH && w >= 0 && w < 64) {
    CrashRec& c = CRASH[w];
    c.item = g_item; c.sub = vf::shared()->prog_sub[w];
    const char* o = cur().op; int i = 0; for (; o && o[i] && i < 39; ++i) c.op[i] = o[i]; c.op[i] = 0;
    c.dir = cur().dir; c.valid = 1;
  }
  signal(sig, SIG_DFL);
  raise(sig);
}

static std::string jfield(const std::string& txt, const std::string& key) {
  std::string k = "\"" + key + "\"";
  size_t p = txt.find(k);
  if (p == std::string::npos) return "";
  p = txt.find(':', p + k.size());
  if (p == std::string::npos) return "";
  p = txt.find('"', p);
  if (p == std::string::npos) return "";
  size_t e = txt.find('"', p + 1);
  return txt.substr(p + 1, e - p - 1);
}

static bool self_check_encodings() {
  using namespace PPL;
  typedef Debug_WRD_Extended_Number_Policy P; typedef Bounded_Policy B;
  bool ok = true;
#define C11_ENC(T) \
  ok = ok && IntEnc<T>::pinf() == Checked::Extended_Int<P, T>::plus_infinity && IntEnc<T>::minf() == Checked::Extended_Int<P, T>::minus_infinity \
    && IntEnc<T>::nan(true) == Checked::Extended_Int<P, T>::not_a_number && IntEnc<T>::fmin(true, true) == Checked::Extended_Int<P, T>::min \
    && IntEnc<T>::fmax(true, true) == Checked::Extended_Int<P, T>::max && IntEnc<T>::fmin(false, false) == Checked::Extended_Int<B, T>::min \
    && IntEnc<T>::fmax(false, false) == Checked::Extended_Int<B, T>::max;
  C11_ENC(signed char) C11_ENC(unsigned char) C11_ENC(short) C11_ENC(unsigned short) C11_ENC(int) C11_ENC(unsigned int)
  C11_ENC(long) C11_ENC(unsigned long) C11_ENC(long long) C11_ENC(unsigned long long)
  // documented int8 layout: -128 = -inf, 127 = +inf, -127 = NaN, finite -126..126
  ok = ok && IntEnc<signed char>::minf() == -128 && IntEnc<signed char>::pinf() == 127 && IntEnc<signed char>::nan(true) == -127
    && IntEnc<signed char>::fmin(true, true) == -126 && IntEnc<signed char>::fmax(true, true) == 126;
  // the conversion of floating point numbers to Q used for reading stored values back
  ok = ok && q_of_flt(0.5L) == mpq_class(1, 2) && q_of_flt(-3.0L) == mpq_class(-3) && q_of_flt((long double)0.1) * 10 != 1
    && q_of_flt((long double)std::numeric_limits<double>::denorm_min()) == mpq_class(1) / pow2(1074);
  return ok;
}

} // namespace c11

using namespace c11;

int main(int argc, char** argv) {
  vf::Args ARGS = vf::parse_args(argc, argv);
  vf::sink().open(ARGS.out);
  double t0 = vf::now_s();
  if (!self_check_encodings()) {
    vf::sink().line(vf::J().str("t", "error").str("msg", "harness model of the reserved encodings / float read-back disagrees with the sources").done());
    return 0;
  }
  thorough_alphabets_ref() = ARGS.thorough() || ARGS.has("--wide");
  register_int8(); register_uint8(); register_int16(); register_int32(); register_int64(); register_llong();
  register_float(); register_double(); register_ldouble(); register_mpz(); register_mpq();
  register_conv_a(); register_conv_b(); register_conv_c(); register_conv_d(); register_conv_e();
  std::vector<Cell>& CS = cells();
  std::string only = ARGS.opt("--only", "");
  if (ARGS.has("--list")) {
    for (size_t i = 0; i < CS.size(); ++i) printf("%zu %s | %s | %s nsub=%lld nops=%d\n", i, CS[i].type.c_str(), CS[i].policy.c_str(), CS[i].group.c_str(), CS[i].nsub, CS[i].nops);
    return 0;
  }

  // ---- replay of one recorded violation
  if (!ARGS.replay.empty()) {
    std::ifstream f(ARGS.replay.c_str()); std::stringstream ss; ss << f.rdbuf(); std::string txt = ss.str();
    size_t ip = txt.find("\"input\""); std::string in = ip == std::string::npos ? txt : txt.substr(ip);
    Filter& F = filter(); F.on = true;
    F.type = jfield(in, "type"); F.policy = jfield(in, "policy"); F.op = jfield(in, "op"); F.dir = jfield(in, "dir");
    F.x = jfield(in, "x"); F.y = jfield(in, "y"); F.z = jfield(in, "to_before");
    { size_t ep = in.find("\"exp\""); if (ep != std::string::npos) { ep = in.find(':', ep); F.exp = std::to_string(atoi(in.c_str() + ep + 1)); } }
    std::string from = jfield(in, "from_type");
    printf("replaying %s %s %s %s x=%s y=%s to=%s\n", F.type.c_str(), F.policy.c_str(), F.op.c_str(), F.dir.c_str(), F.x.c_str(), F.y.c_str(), F.z.c_str());
    for (size_t i = 0; i < CS.size(); ++i) {
      std::string want_type = from.empty() ? F.type : F.type + "<-" + from;
      if (CS[i].type != want_type || CS[i].policy.compare(0, F.policy.size(), F.policy) != 0) continue;
      CS[i].run(0, CS[i].nsub, 0);
    }
    return 0;
  }

  // ---- work items: chunks of sub-steps, interleaved so that the 16 shards are balanced
  long long total_cells = 0;
  for (size_t i = 0; i < CS.size(); ++i) {
    if (!only.empty() && (CS[i].type + "|" + CS[i].policy + "|" + CS[i].group).find(only) == std::string::npos) continue;
    total_cells += (long long)CS[i].nops * CS[i].ndirs;
    long long per = (long long)CS[i].nops * CS[i].ndirs;
    long long chunk = std::max<long long>(1, 120000 / per);
    for (long long lo = 0; lo < CS[i].nsub; lo += chunk) { Item it; it.cell = (int)i; it.lo = lo; it.hi = std::min(CS[i].nsub, lo + chunk); ITEMS.push_back(it); }
  }
  CRASH = (CrashRec*)mmap(0, sizeof(CrashRec) * 64, PROT_READ | PROT_WRITE, MAP_SHARED | MAP_ANONYMOUS, -1, 0);
  memset((void*)CRASH, 0, sizeof(CrashRec) * 64);

  vf::Pool::Fn fn = [&](long long item, long long sub_start) {
    static bool installed = false;
    if (!installed) { installed = true; signal(SIGFPE, crash_handler); signal(SIGSEGV, crash_handler); signal(SIGABRT, crash_handler); signal(SIGBUS, crash_handler); signal(SIGILL, crash_handler); }
    const Item& it = ITEMS[item];
    g_item = item;
    long long s0 = (sub_start > it.lo) ? sub_start : it.lo;
    CS[it.cell].run(it.lo, it.hi, s0);
    flush_local(CS[it.cell].fam);
  };
  vf::Pool::CrashFn cf = [&](long long item, long long sub, int sig, bool confirmed) {
    if (!confirmed) return;
    vf::count(CN_CRASH);
    const Item& it = ITEMS[item]; const Cell& c = CS[it.cell];
    std::string op = "?"; unsigned dir = 0;
    for (int w = 0; w < 64; ++w) if (CRASH[w].valid && CRASH[w].item == item && CRASH[w].sub == sub) { op = CRASH[w].op; dir = CRASH[w].dir; }
    Cell::Operands o = c.operands(sub);
    static std::string opn; opn = op;
    CaseCtx ctx; ctx.type = c.to_type.c_str(); ctx.policy = c.policy.c_str(); ctx.op = opn.c_str(); ctx.dcls = c.dcls; ctx.scls = c.scls;
    ctx.from_type = c.is_conv ? c.from_type.c_str() : 0; ctx.dir = dir; ctx.dbits = c.dbits;
    if (o.hx) ctx.x = &o.x; if (o.hy) ctx.y = &o.y; if (o.hz) ctx.z = &o.z; if (o.he) { ctx.has_exp = true; ctx.exp = o.exp; }
    Exact E = Exact::undef(U_NONE, 0);
    std::string trig = trigger_of(ctx, E, 0, XVal(), "crash");
    vf::report_violation(site_of(ctx), std::string("crash:") + vf::signame(sig), trig, input_json(ctx), vf::signame(sig), "normal return with a Result code");
  };
  vf::limit_memory(4ULL << 30);
  vf::pool().run((long long)ITEMS.size(), ARGS.jobs, fn, cf, ARGS, 0);

  bool complete = vf::counter(vf::CNT_SKIPPED) == 0;
  vf::J extra;
  vf::J fam; long long tot = 0;
  for (int i = 0; i < 16; ++i) { fam.num(FAM_NAMES[i], vf::counter(CN_CALLS_BASE + i)); tot += vf::counter(CN_CALLS_BASE + i); }
  extra.raw("checked_calls_per_type", fam.done()).num("predicate_evaluations", vf::counter(CN_PRED))
    .num("type_policy_group_cells", (long long)CS.size()).num("work_items", (long long)ITEMS.size())
    .num("inputs_skipped_precondition_of_policy_or_ROUND_NOT_NEEDED", vf::counter(CN_SKIP_ILLEGAL))
    .num("results_V_UNKNOWN_OVERFLOW_accepted", vf::counter(CN_UNKNOWN_OVF))
    .num("non_strict_relation_under_ROUND_STRICT_RELATION_metric", vf::counter(CN_NONSTRICT))
    .num("confirmed_crashes", vf::counter(CN_CRASH)).num("items_skipped_by_deadline", vf::counter(vf::CNT_SKIPPED));
  std::vector<std::string> samples;
  for (size_t i = 0; i < CS.size() && samples.size() < 6; i += std::max<size_t>(1, CS.size() / 6))
    samples.push_back(vf::jstr(CS[i].type + " / " + CS[i].policy + " / " + CS[i].group + " : " + CS[i].describe(CS[i].nsub / 2) + " (8 rounding modes)"));
  vf::J st; st.str("t", "stats").num("states", total_cells).num("transitions", vf::counter(vf::CNT_TRANS))
    .num("traces_validated_against_impl", vf::counter(vf::CNT_TRANS)).boolean("exhaustive", complete)
    .str("bound", std::string(thorough_alphabets_ref() ? "[thorough: alphabets widened with every power of two +-1 (integers), 2^k(1+-ulp) (floats), 32-value fused alphabets] " : "") + "part 1: all 2^16 operand pairs (raw encodings, incl. reserved ones) for int8_t/uint8_t, all triples of a 16-value alphabet for add_mul/sub_mul; "
                  "~28-value boundary alphabets for 16/32/64-bit integers and long long, ~48-value alphabets for float/double/long double, ~25 for mpz/mpq, all pairs; "
                  "mpq -> float/double/long double conversions additionally from {1,3,5,7,-1,-5}/({7,3,5,1}*2^k) over the whole denormal range, around min_normal and around max; "
                  "exponents {0,1,2,3,b/2,b-2,b-1,b,b+1,2b}; 8 rounding modes (DOWN, UP, IGNORE, NOT_NEEDED x strict); policies Debug_WRD, WRD, Extended, Bounded_Integer_Coefficient, "
                  "Transparent, raw native, Checks_NoExt; states = (type, policy, operation, direction) cells")
    .arr("samples", samples).raw("extra", extra.done()).dbl("wall_s", vf::now_s() - t0);
  vf::sink().line(st.done());
  return 0;
}

// C11 part 1: conversions (assign_r / construct between type pairs), part c
#include "harness/c11_cells.hh"
namespace c11 {
using namespace PPL;
typedef Debug_WRD_Extended_Number_Policy PD; typedef WRD_Extended_Number_Policy PW; typedef Bounded_Policy PB;
// policy used for mode B (the production configurations): bounded coefficients for integers, WRD for the rest
template <class T, TClass C = TI<T>::cls> struct ProdP { typedef PW type; };
template <class T> struct ProdP<T, TC_SINT> { typedef PB type; };
template <class T> struct ProdP<T, TC_UINT> { typedef PB type; };
template <class T> struct IsMP { static const bool v = false; };
template <> struct IsMP<mpz_class> { static const bool v = true; };
template <> struct IsMP<mpq_class> { static const bool v = true; };
template <class To, class From> static void pair() {
  Conv<CNW<To, PD>, CNW<From, PD>, IsMP<To>::v>::reg();                               // A: fully checked, extended, both sides
  Conv<CNW<To, typename ProdP<To>::type>, RAWW<From>, IsMP<To>::v>::reg();            // B: production policy <- raw native
  Conv<RAWW<To>, RAWW<From>, IsMP<To>::v>::reg();                                     // C: raw native <- raw native
}
template <class To> static void to_all() {
  pair<To, signed char>(); pair<To, unsigned char>(); pair<To, short>(); pair<To, unsigned short>(); pair<To, int>(); pair<To, unsigned int>();
  pair<To, long>(); pair<To, unsigned long>(); pair<To, long long>(); pair<To, unsigned long long>();
  pair<To, float>(); pair<To, double>(); pair<To, long double>(); pair<To, mpz_class>(); pair<To, mpq_class>();
}
void register_conv_c() { to_all<long>(); to_all<unsigned long>(); to_all<long long>(); }
}

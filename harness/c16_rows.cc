// C16 part 2: dense == sparse lock-step over Linear_Expression histories.
// Four lineages of a pair (e1, e2) -- representations (D,D), (S,S), (D,S), (S,D) -- receive the same
// operations; after every step every lineage must agree, coefficient by coefficient and query by query,
// with an independent reference (vector<mpz_class> arithmetic).  Phase A: breadth-first closure of a
// builder alphabet to depth D from a menu of initial pairs (states deduplicated on reference value +
// representations + sparse tree layouts).  Phase B: from every state, every operation of the full
// alphabet and every query.  No aliased calls (e -= e is property C13).
#include "engine/common.hh"
#include "ppl-config.h"
#include "version.hh"
#include "ppl_include_files.hh"
#include <gmpxx.h>
#include <unordered_map>
#include <memory>

namespace PPL = Parma_Polyhedra_Library;
using namespace vf;
typedef PPL::Linear_Expression LE;
typedef PPL::Variable Var;
typedef PPL::dimension_type dim_t;
typedef mpz_class Z;
using PPL::DENSE; using PPL::SPARSE;

static Args ARGS;
static int MAXDIM = 4;
static const char* VN = "ABCDEFGH";

// ---------------------------------------------------------------- reference expressions
struct RE {
  std::vector<Z> c;                      // c[0] inhomogeneous term, c[i] coefficient of Variable(i-1)
  RE() : c(1, Z(0)) {}
  int dim() const { return (int)c.size() - 1; }
  void grow(int d) { if (d > dim()) c.resize(d + 1, Z(0)); }
  std::string str() const { std::string s = "dim=" + std::to_string(dim()) + " ["; for (size_t i = 0; i < c.size(); ++i) { if (i) s += ","; s += c[i].get_str(); } return s + "]"; }
  bool operator==(const RE& o) const { return c == o.c; }
};
static RE mkre(std::initializer_list<long> l) { RE r; r.c.clear(); for (long v : l) r.c.push_back(Z(v)); return r; }
static void combine(RE& a, const RE& b, const Z& c1, const Z& c2) {      // a = a*c1 + b*c2, dimension max
  a.grow(b.dim());
  for (size_t i = 0; i < a.c.size(); ++i) { a.c[i] *= c1; if (i < b.c.size()) a.c[i] += b.c[i] * c2; }
}
static void combine_range(RE& a, const RE& b, const Z& c1, const Z& c2, int s, int e) { for (int i = s; i < e; ++i) a.c[i] = a.c[i] * c1 + b.c[i] * c2; }
static Z gcd_range(const RE& a, int s, int e) { Z g = 0; for (int i = s; i < e; ++i) { Z t = abs(a.c[i]); mpz_gcd(g.get_mpz_t(), g.get_mpz_t(), t.get_mpz_t()); } return g; }

static LE build(const RE& r, PPL::Representation rep) {
  LE e(rep);
  e.set_space_dimension(r.dim());
  for (int i = 1; i <= r.dim(); ++i) if (r.c[i] != 0) e.set_coefficient(Var(i - 1), r.c[i]);
  e.set_inhomogeneous_term(r.c[0]);
  return e;
}
static std::string le_values(const LE& e) {
  std::string s = "dim=" + std::to_string(e.space_dimension()) + " [" + Z(e.inhomogeneous_term()).get_str();
  for (dim_t i = 0; i < e.space_dimension(); ++i) s += "," + Z(e.coefficient(Var(i))).get_str();
  return s + "]";
}
static const char* repn(PPL::Representation r) { return r == DENSE ? "DENSE" : "SPARSE"; }

// layout of the sparse row behind an expression (reads only)
static std::string layout_of(const LE& e) {
  typedef PPL::Linear_Expression_Impl<PPL::Sparse_Row> SI;
  const SI* p = dynamic_cast<const SI*>(e.impl);
  if (!p) return "D";
  const PPL::CO_Tree& t = p->row.tree;
  std::string s = "S";
  s.push_back((char)('0' + t.max_depth));
  for (dim_t i = 1; i <= t.reserved_size; ++i) s.push_back(t.indexes[i] == PPL::CO_Tree::unused_index ? '_' : (char)('a' + t.indexes[i]));
  return s;
}

// ---------------------------------------------------------------- operations
struct Op {
  std::string name, site;
  bool builder, swaps;
  std::function<bool(const RE&, const RE&)> ok;
  std::function<void(LE&, LE&)> impl;          // second argument is only modified by `swaps` operations
  std::function<void(RE&, RE&)> ref;
  // when set and true, the documentation does not pin the result down for C16 (see note at linear_combine):
  // the lineages are then only compared with each other
  std::function<bool(const RE&, const RE&)> unspec;
  long lax_c1, lax_c2; int rs, re; bool is_lax; int trunc_dim;
  Op() : builder(false), swaps(false), lax_c1(1), lax_c2(1), rs(-1), re(-1), is_lax(false), trunc_dim(-1) {}
};
static std::vector<Op> OPS;
static void add(const std::string& name, const std::string& site, bool builder,
                std::function<bool(const RE&, const RE&)> ok, std::function<void(LE&, LE&)> impl, std::function<void(RE&, RE&)> ref, bool swaps = false) {
  Op o; o.name = name; o.site = "Linear_Expression::" + site; o.builder = builder; o.swaps = swaps; o.ok = ok; o.impl = impl; o.ref = ref; OPS.push_back(o);
}
static bool always(const RE&, const RE&) { return true; }
static std::string zs(long n) { return std::to_string(n); }

static void build_ops() {
  using std::string;
  // ---- expression / expression
  add("e1 += e2", "operator+=(e,e)", true, always, [](LE& x, LE& y) { x += y; }, [](RE& a, RE& b) { combine(a, b, 1, 1); });
  add("e1 -= e2", "operator-=(e,e)", true, always, [](LE& x, LE& y) { x -= y; }, [](RE& a, RE& b) { combine(a, b, 1, -1); });
  add("e1 = e1 + e2", "operator+(e,e)", false, always, [](LE& x, LE& y) { x = x + y; }, [](RE& a, RE& b) { combine(a, b, 1, 1); });
  add("e1 = e2 + e1", "operator+(e,e)", false, always, [](LE& x, LE& y) { x = y + x; }, [](RE& a, RE& b) { combine(a, b, 1, 1); });
  add("e1 = e1 - e2", "operator-(e,e)", false, always, [](LE& x, LE& y) { x = x - y; }, [](RE& a, RE& b) { combine(a, b, 1, -1); });
  add("e1 = e2 - e1", "operator-(e,e)", true, always, [](LE& x, LE& y) { x = y - x; }, [](RE& a, RE& b) { combine(a, b, -1, 1); });
  add("e1 = e2", "operator=", false, always, [](LE& x, LE& y) { x = y; }, [](RE& a, RE& b) { a = b; });
  add("swap(e1,e2)", "swap", true, always, [](LE& x, LE& y) { using std::swap; swap(x, y); }, [](RE& a, RE& b) { std::swap(a, b); }, true);
  add("e1.m_swap(e2)", "m_swap", false, always, [](LE& x, LE& y) { x.m_swap(y); }, [](RE& a, RE& b) { std::swap(a, b); }, true);
  for (long n : {0L, 1L, 2L, -1L}) {
    add("add_mul_assign(e1," + zs(n) + ",e2)", "add_mul_assign(e,n,e)", n == 2, always, [n](LE& x, LE& y) { add_mul_assign(x, Z(n), y); }, [n](RE& a, RE& b) { if (n != 0) combine(a, b, 1, n); });
    add("sub_mul_assign(e1," + zs(n) + ",e2)", "sub_mul_assign(e,n,e)", false, always, [n](LE& x, LE& y) { sub_mul_assign(x, Z(n), y); }, [n](RE& a, RE& b) { if (n != 0) combine(a, b, 1, -n); });
  }
  static const long CPS[][2] = { {1, 1}, {1, -1}, {2, 1}, {2, -1}, {2, 3}, {-1, 2}, {0, 1}, {1, 0}, {0, 0}, {0, -2}, {3, 0} };
  for (int i = 0; i < 11; ++i) {
    long c1 = CPS[i][0], c2 = CPS[i][1];
    // NOTE (outside C16, identical for both representations): when y has a smaller space dimension than *this the
    // implementation multiplies only the first y.space_dimension()+1 coefficients of *this by c1, although the
    // documentation says "*this = *this * c1 + y * c2".  For c1 != 1 such calls are only checked for dense == sparse.
    auto unspec = [c1](const RE& a, const RE& b) { return b.dim() < a.dim() && c1 != 1; };
    if (c1 != 0 && c2 != 0) {
      add("e1.linear_combine(e2," + zs(c1) + "," + zs(c2) + ")", "linear_combine(y,c1,c2)", i == 4, always, [c1, c2](LE& x, LE& y) { x.linear_combine(y, Z(c1), Z(c2)); }, [c1, c2](RE& a, RE& b) { combine(a, b, c1, c2); });
      OPS.back().unspec = unspec;
    }
    add("e1.linear_combine_lax(e2," + zs(c1) + "," + zs(c2) + ")", "linear_combine_lax(y,c1,c2)", i == 3, always, [c1, c2](LE& x, LE& y) { x.linear_combine_lax(y, Z(c1), Z(c2)); }, [c1, c2](RE& a, RE& b) { combine(a, b, c1, c2); });
    OPS.back().unspec = unspec; OPS.back().is_lax = true; OPS.back().lax_c1 = c1; OPS.back().lax_c2 = c2;
    // sub-ranges (private interface used by the systems)
    for (int s = 0; s <= MAXDIM + 1; ++s) for (int e = s; e <= MAXDIM + 1; ++e) {
      auto fits = [s, e](const RE& a, const RE& b) { return e <= a.dim() + 1 && e <= b.dim() + 1; };
      if (c1 != 0 && c2 != 0 && i < 5)
        add("e1.linear_combine(e2," + zs(c1) + "," + zs(c2) + "," + zs(s) + "," + zs(e) + ")", "linear_combine(y,c1,c2,start,end)", false, fits,
            [c1, c2, s, e](LE& x, LE& y) { x.linear_combine(y, Z(c1), Z(c2), (dim_t)s, (dim_t)e); }, [c1, c2, s, e](RE& a, RE& b) { combine_range(a, b, c1, c2, s, e); });
      if (i == 4 || i >= 6)
        add("e1.linear_combine_lax(e2," + zs(c1) + "," + zs(c2) + "," + zs(s) + "," + zs(e) + ")", "linear_combine_lax(y,c1,c2,start,end)", false, fits,
            [c1, c2, s, e](LE& x, LE& y) { x.linear_combine_lax(y, Z(c1), Z(c2), (dim_t)s, (dim_t)e); }, [c1, c2, s, e](RE& a, RE& b) { combine_range(a, b, c1, c2, s, e); });
      if (i == 4 || i >= 6) { OPS.back().is_lax = true; OPS.back().lax_c1 = c1; OPS.back().lax_c2 = c2; OPS.back().rs = s; OPS.back().re = e; }
    }
  }
  for (int v = 0; v < MAXDIM; ++v) {
    // linear_combine(y, v): same dimension, both coefficients non-zero; result = a*(y_v/g) - b*(x_v/g)
    auto okv = [v](const RE& a, const RE& b) { return a.dim() == b.dim() && v < a.dim() && a.c[v + 1] != 0 && b.c[v + 1] != 0; };
    auto refv = [v](RE& a, RE& b) { Z x = a.c[v + 1], y = b.c[v + 1], g; mpz_gcd(g.get_mpz_t(), x.get_mpz_t(), y.get_mpz_t()); x /= g; y /= g; combine(a, b, y, -x); };
    // NOTE: the public overload linear_combine(y, Variable) is declared but has no definition in the library (link error):
    // the index overload used by the systems is called instead (index = v.id() + 1).
    add(string("e1.linear_combine(e2, index of ") + VN[v] + ")", "linear_combine(y,i)", v == 0, okv, [v](LE& x, LE& y) { x.linear_combine(y, (dim_t)(v + 1)); }, refv);
  }
  // ---- expression / variable / number
  for (int v = 0; v < MAXDIM; ++v) {
    add(string("e1 += ") + VN[v], "operator+=(e,v)", v == 0, always, [v](LE& x, LE&) { x += Var(v); }, [v](RE& a, RE&) { a.grow(v + 1); a.c[v + 1] += 1; });
    add(string("e1 -= ") + VN[v], "operator-=(e,v)", v == 1, always, [v](LE& x, LE&) { x -= Var(v); }, [v](RE& a, RE&) { a.grow(v + 1); a.c[v + 1] -= 1; });
    add(string("e1 = e1 + ") + VN[v], "operator+(e,v)", false, always, [v](LE& x, LE&) { x = x + Var(v); }, [v](RE& a, RE&) { a.grow(v + 1); a.c[v + 1] += 1; });
    add(string("e1 = ") + VN[v] + " + e1", "operator+(v,e)", false, always, [v](LE& x, LE&) { x = Var(v) + x; }, [v](RE& a, RE&) { a.grow(v + 1); a.c[v + 1] += 1; });
    add(string("e1 = e1 - ") + VN[v], "operator-(e,v)", false, always, [v](LE& x, LE&) { x = x - Var(v); }, [v](RE& a, RE&) { a.grow(v + 1); a.c[v + 1] -= 1; });
    add(string("e1 = ") + VN[v] + " - e1", "operator-(v,e)", v == 3, always, [v](LE& x, LE&) { x = Var(v) - x; }, [v](RE& a, RE&) { a.grow(v + 1); for (size_t i = 0; i < a.c.size(); ++i) a.c[i] = -a.c[i]; a.c[v + 1] += 1; });
    for (long n : {0L, 2L, -1L}) {
      add("add_mul_assign(e1," + zs(n) + "," + VN[v] + ")", "add_mul_assign(e,n,v)", false, always, [n, v](LE& x, LE&) { add_mul_assign(x, Z(n), Var(v)); }, [n, v](RE& a, RE&) { a.grow(v + 1); a.c[v + 1] += n; });
      add("sub_mul_assign(e1," + zs(n) + "," + VN[v] + ")", "sub_mul_assign(e,n,v)", false, always, [n, v](LE& x, LE&) { sub_mul_assign(x, Z(n), Var(v)); }, [n, v](RE& a, RE&) { a.grow(v + 1); a.c[v + 1] -= n; });
    }
    for (long n : {0L, 5L, -1L})
      add(string("e1.set_coefficient(") + VN[v] + "," + zs(n) + ")", "set_coefficient", (v == 1 && n == 0) || (v == 0 && n == -1), [v](const RE& a, const RE&) { return v < a.dim(); },
          [n, v](LE& x, LE&) { x.set_coefficient(Var(v), Z(n)); }, [n, v](RE& a, RE&) { a.c[v + 1] = n; });
    for (int w = 0; w < MAXDIM; ++w) {
      add(string("e1.swap_space_dimensions(") + VN[v] + "," + VN[w] + ")", "swap_space_dimensions", (v == 0 && w == 2) || (v == 1 && w == 0), [v, w](const RE& a, const RE&) { return v < a.dim() && w < a.dim(); },
          [v, w](LE& x, LE&) { x.swap_space_dimensions(Var(v), Var(w)); }, [v, w](RE& a, RE&) { std::swap(a.c[v + 1], a.c[w + 1]); });
      if (v != w) {
        add(string("e1 = ") + VN[v] + " + " + VN[w] + " + e1", "operator+(v,v)", false, always, [v, w](LE& x, LE&) { x = (Var(v) + Var(w)) + x; }, [v, w](RE& a, RE&) { a.grow(std::max(v, w) + 1); a.c[v + 1] += 1; a.c[w + 1] += 1; });
        add(string("e1 = ") + VN[v] + " - " + VN[w] + " + e1", "operator-(v,v)", false, always, [v, w](LE& x, LE&) { x = (Var(v) - Var(w)) + x; }, [v, w](RE& a, RE&) { a.grow(std::max(v, w) + 1); a.c[v + 1] += 1; a.c[w + 1] -= 1; });
      }
    }
    for (int n = 1; n <= 2; ++n)
      add(string("e1.shift_space_dimensions(") + VN[v] + "," + zs(n) + ")", "shift_space_dimensions", v == 1 && n == 1, [v, n](const RE& a, const RE&) { return v <= a.dim() && a.dim() + n <= MAXDIM; },
          [v, n](LE& x, LE&) { x.shift_space_dimensions(Var(v), n); }, [v, n](RE& a, RE&) { a.c.insert(a.c.begin() + v + 1, n, Z(0)); });
  }
  {
    int v = MAXDIM;     // shifting "at the end"
    add(string("e1.shift_space_dimensions(") + VN[v] + ",1)", "shift_space_dimensions", false, [v](const RE& a, const RE&) { return v <= a.dim() && a.dim() + 1 <= MAXDIM; },
        [v](LE& x, LE&) { x.shift_space_dimensions(Var(v), 1); }, [v](RE& a, RE&) { a.c.insert(a.c.begin() + v + 1, 1, Z(0)); });
  }
  for (long n : {1L, -2L, 3L}) {
    add("e1 += " + zs(n), "operator+=(e,n)", n == 1, always, [n](LE& x, LE&) { x += Z(n); }, [n](RE& a, RE&) { a.c[0] += n; });
    add("e1 -= " + zs(n), "operator-=(e,n)", false, always, [n](LE& x, LE&) { x -= Z(n); }, [n](RE& a, RE&) { a.c[0] -= n; });
    add("e1 = e1 + " + zs(n), "operator+(e,n)", false, always, [n](LE& x, LE&) { x = x + Z(n); }, [n](RE& a, RE&) { a.c[0] += n; });
    add("e1 = " + zs(n) + " + e1", "operator+(n,e)", false, always, [n](LE& x, LE&) { x = Z(n) + x; }, [n](RE& a, RE&) { a.c[0] += n; });
    add("e1 = e1 - " + zs(n), "operator-(e,n)", false, always, [n](LE& x, LE&) { x = x - Z(n); }, [n](RE& a, RE&) { a.c[0] -= n; });
    add("e1 = " + zs(n) + " - e1", "operator-(n,e)", false, always, [n](LE& x, LE&) { x = Z(n) - x; }, [n](RE& a, RE&) { for (size_t i = 0; i < a.c.size(); ++i) a.c[i] = -a.c[i]; a.c[0] += n; });
  }
  for (long n : {0L, 2L, -1L, 3L}) {
    add("e1 *= " + zs(n), "operator*=", n == 2, always, [n](LE& x, LE&) { x *= Z(n); }, [n](RE& a, RE&) { for (size_t i = 0; i < a.c.size(); ++i) a.c[i] *= n; });
    add("e1 = e1 * " + zs(n), "operator*(e,n)", false, always, [n](LE& x, LE&) { x = x * Z(n); }, [n](RE& a, RE&) { for (size_t i = 0; i < a.c.size(); ++i) a.c[i] *= n; });
    add("e1 = " + zs(n) + " * e1", "operator*(n,e)", false, always, [n](LE& x, LE&) { x = Z(n) * x; }, [n](RE& a, RE&) { for (size_t i = 0; i < a.c.size(); ++i) a.c[i] *= n; });
    add("e1.set_inhomogeneous_term(" + zs(n) + ")", "set_inhomogeneous_term", false, always, [n](LE& x, LE&) { x.set_inhomogeneous_term(Z(n)); }, [n](RE& a, RE&) { a.c[0] = n; });
  }
  for (long n : {2L, -1L, 3L})
    add("e1 /= " + zs(n), "operator/=", n == 2, always, [n](LE& x, LE&) { x /= Z(n); }, [n](RE& a, RE&) { for (size_t i = 0; i < a.c.size(); ++i) a.c[i] /= n; });   // mpz_class / truncates, like GMP_Integer /=
  add("neg_assign(e1)", "neg_assign", true, always, [](LE& x, LE&) { neg_assign(x); }, [](RE& a, RE&) { for (size_t i = 0; i < a.c.size(); ++i) a.c[i] = -a.c[i]; });
  add("e1 = -e1", "operator-(e)", false, always, [](LE& x, LE&) { x = -x; }, [](RE& a, RE&) { for (size_t i = 0; i < a.c.size(); ++i) a.c[i] = -a.c[i]; });
  add("e1 = +e1", "operator+(e)", false, always, [](LE& x, LE&) { x = +x; }, [](RE&, RE&) {});
  add("e1.normalize()", "normalize", true, always, [](LE& x, LE&) { x.normalize(); }, [](RE& a, RE&) { Z g = gcd_range(a, 0, (int)a.c.size()); if (g > 1) for (size_t i = 0; i < a.c.size(); ++i) a.c[i] /= g; });
  add("e1.sign_normalize()", "sign_normalize", true, always, [](LE& x, LE&) { x.sign_normalize(); },
      [](RE& a, RE&) { for (size_t i = 1; i < a.c.size(); ++i) if (a.c[i] != 0) { if (a.c[i] < 0) for (size_t j = 0; j < a.c.size(); ++j) a.c[j] = -a.c[j]; break; } });
  // ---- dimensions
  for (int n = 0; n <= MAXDIM; ++n) {
    add("e1.set_space_dimension(" + zs(n) + ")", "set_space_dimension", n == 2, always, [n](LE& x, LE&) { x.set_space_dimension(n); }, [n](RE& a, RE&) { a.c.resize(n + 1, Z(0)); });
    add("e1 = Linear_Expression(e1," + zs(n) + ")", "Linear_Expression(e,space_dim)", false, always, [n](LE& x, LE&) { LE t(x, (dim_t)n); x.m_swap(t); }, [n](RE& a, RE&) { a.c.resize(n + 1, Z(0)); });
    for (int r = 0; r < 2; ++r) {
      add("e1 = Linear_Expression(e1," + zs(n) + "," + (r ? "SPARSE" : "DENSE") + ")", "Linear_Expression(e,space_dim,r)", false, always, [n, r](LE& x, LE&) { LE t(x, (dim_t)n, r ? SPARSE : DENSE); x.m_swap(t); }, [n](RE& a, RE&) { a.c.resize(n + 1, Z(0)); });
      if (r) OPS.back().trunc_dim = n;
    }
  }
  for (int mask = 0; mask < (1 << MAXDIM); ++mask) {
    std::string nm; for (int v = 0; v < MAXDIM; ++v) if (mask & (1 << v)) nm += VN[v];
    add("e1.remove_space_dimensions({" + nm + "})", "remove_space_dimensions", mask == 2 || mask == 5, [mask](const RE& a, const RE&) { return mask < (1 << a.dim()); },
        [mask](LE& x, LE&) { PPL::Variables_Set vs; for (int v = 0; v < MAXDIM; ++v) if (mask & (1 << v)) vs.insert(Var(v)); x.remove_space_dimensions(vs); },
        [mask](RE& a, RE&) { std::vector<Z> n; n.push_back(a.c[0]); for (int v = 0; v < a.dim(); ++v) if (!(mask & (1 << v))) n.push_back(a.c[v + 1]); a.c = n; });
  }
  {
    // every cycle of length 2..MAXDIM over distinct variables (as ordered lists)
    std::vector<std::vector<int> > cycles;
    std::function<void(std::vector<int>&)> rec = [&](std::vector<int>& cur) {
      if (cur.size() >= 2) cycles.push_back(cur);
      if ((int)cur.size() == MAXDIM) return;
      for (int v = 0; v < MAXDIM; ++v) if (std::find(cur.begin(), cur.end(), v) == cur.end()) { cur.push_back(v); rec(cur); cur.pop_back(); }
    };
    std::vector<int> cur; rec(cur);
    cycles.push_back(std::vector<int>()); cycles.push_back(std::vector<int>(1, 1));
    for (size_t ci = 0; ci < cycles.size(); ++ci) {
      std::vector<int> cy = cycles[ci];
      std::string nm; int mx = -1; for (int v : cy) { nm += VN[v]; mx = std::max(mx, v); }
      bool b = (cy.size() == 3 && cy[0] == 0 && cy[1] == 1 && cy[2] == 2) || (cy.size() == 2 && cy[0] == 1 && cy[1] == 2);
      add("e1.permute_space_dimensions((" + nm + "))", "permute_space_dimensions", b, [mx](const RE& a, const RE&) { return mx < a.dim(); },
          [cy](LE& x, LE&) { std::vector<Var> c; for (int v : cy) c.push_back(Var(v)); x.permute_space_dimensions(c); },
          [cy](RE& a, RE&) { if (cy.size() < 2) return; std::vector<Z> o = a.c; for (size_t i = 0; i < cy.size(); ++i) a.c[cy[(i + 1) % cy.size()] + 1] = o[cy[i] + 1]; });
    }
  }
  // ---- representation / copies
  add("e1.set_representation(toggle)", "set_representation", true, always, [](LE& x, LE&) { x.set_representation(x.representation() == DENSE ? SPARSE : DENSE); }, [](RE&, RE&) {});
  add("e1.set_representation(same)", "set_representation", false, always, [](LE& x, LE&) { x.set_representation(x.representation()); }, [](RE&, RE&) {});
  add("e1 = Linear_Expression(e1)", "Linear_Expression(e)", false, always, [](LE& x, LE&) { LE t(x); x.m_swap(t); }, [](RE&, RE&) {});
  add("e1 = Linear_Expression(e1,DENSE)", "Linear_Expression(e,r)", false, always, [](LE& x, LE&) { LE t(x, DENSE); x.m_swap(t); }, [](RE&, RE&) {});
  add("e1 = Linear_Expression(e1,SPARSE)", "Linear_Expression(e,r)", false, always, [](LE& x, LE&) { LE t(x, SPARSE); x.m_swap(t); }, [](RE&, RE&) {});
  // ---- private interface used by constraints / generators / systems
  for (int i = 0; i <= MAXDIM; ++i) for (long n : {0L, 4L})
    add("e1.set(" + zs(i) + "," + zs(n) + ")", "set(i,n)", false, [i](const RE& a, const RE&) { return i <= a.dim(); }, [i, n](LE& x, LE&) { x.set((dim_t)i, Z(n)); }, [i, n](RE& a, RE&) { a.c[i] = n; });
  for (int s = 0; s <= MAXDIM + 1; ++s) for (int e = s; e <= MAXDIM + 1; ++e) {
    auto fits = [e](const RE& a, const RE&) { return e <= a.dim() + 1; };
    add("e1.negate(" + zs(s) + "," + zs(e) + ")", "negate(first,last)", false, fits, [s, e](LE& x, LE&) { x.negate((dim_t)s, (dim_t)e); }, [s, e](RE& a, RE&) { for (int i = s; i < e; ++i) a.c[i] = -a.c[i]; });
    for (long n : {0L, 2L, -1L})
      add("e1.mul_assign(" + zs(n) + "," + zs(s) + "," + zs(e) + ")", "mul_assign(n,start,end)", false, fits, [n, s, e](LE& x, LE&) { x.mul_assign(Z(n), (dim_t)s, (dim_t)e); }, [n, s, e](RE& a, RE&) { for (int i = s; i < e; ++i) a.c[i] *= n; });
    for (long n : {2L, -1L, 3L})
      add("e1.exact_div_assign(" + zs(n) + "," + zs(s) + "," + zs(e) + ")", "exact_div_assign(c,start,end)", false,
          [n, s, e](const RE& a, const RE&) { if (e > a.dim() + 1) return false; for (int i = s; i < e; ++i) if (a.c[i] % n != 0) return false; return true; },
          [n, s, e](LE& x, LE&) { x.exact_div_assign(Z(n), (dim_t)s, (dim_t)e); }, [n, s, e](RE& a, RE&) { for (int i = s; i < e; ++i) a.c[i] /= n; });
  }
}

// ---------------------------------------------------------------- queries
// every query returns a text; the reference text is computed from (a, b) only
struct Query { std::string name; std::function<bool(const RE&, const RE&)> ok; std::function<std::string(const LE&, const LE&)> impl; std::function<std::string(const RE&, const RE&)> ref; };
static std::vector<Query> QS;
static std::string bs(bool b) { return b ? "true" : "false"; }
static int sgnz(const Z& z) { return z < 0 ? -1 : z > 0 ? 1 : 0; }

static void build_queries() {
  auto q = [](const std::string& n, std::function<bool(const RE&, const RE&)> ok, std::function<std::string(const LE&, const LE&)> i, std::function<std::string(const RE&, const RE&)> r) { Query x; x.name = n; x.ok = ok; x.impl = i; x.ref = r; QS.push_back(x); };
  q("space_dimension/coefficient/inhomogeneous_term", always,
    [](const LE& x, const LE&) { std::string s = le_values(x); for (int v = 0; v <= MAXDIM + 1; ++v) s += "|" + Z(x.coefficient(Var(v))).get_str(); return s; },
    [](const RE& a, const RE&) { std::string s = a.str(); for (int v = 0; v <= MAXDIM + 1; ++v) s += "|" + (v < a.dim() ? a.c[v + 1].get_str() : std::string("0")); return s; });
  q("get(i)/get(v)", always,
    [](const LE& x, const LE&) { std::string s; for (dim_t i = 0; i <= x.space_dimension(); ++i) s += Z(x.get(i)).get_str() + ","; for (dim_t v = 0; v < x.space_dimension(); ++v) s += Z(x.get(Var(v))).get_str() + ";"; return s; },
    [](const RE& a, const RE&) { std::string s; for (size_t i = 0; i < a.c.size(); ++i) s += a.c[i].get_str() + ","; for (int v = 0; v < a.dim(); ++v) s += a.c[v + 1].get_str() + ";"; return s; });
  q("is_zero", always, [](const LE& x, const LE&) { return bs(x.is_zero()); }, [](const RE& a, const RE&) { for (const Z& z : a.c) if (z != 0) return bs(false); return bs(true); });
  q("all_homogeneous_terms_are_zero", always, [](const LE& x, const LE&) { return bs(x.all_homogeneous_terms_are_zero()); }, [](const RE& a, const RE&) { for (size_t i = 1; i < a.c.size(); ++i) if (a.c[i] != 0) return bs(false); return bs(true); });
  q("iteration begin..end", always,
    [](const LE& x, const LE&) { std::string s; for (LE::const_iterator i = x.begin(), e = x.end(); i != e; ++i) s += std::to_string(i.variable().id()) + ":" + Z(*i).get_str() + " "; return s; },
    [](const RE& a, const RE&) { std::string s; for (int v = 0; v < a.dim(); ++v) if (a.c[v + 1] != 0) s += std::to_string(v) + ":" + a.c[v + 1].get_str() + " "; return s; });
  q("iteration backwards", always,
    [](const LE& x, const LE&) { std::string s; LE::const_iterator b = x.begin(), i = x.end(); while (i != b) { --i; s += std::to_string(i.variable().id()) + ":" + Z(*i).get_str() + " "; } return s; },
    [](const RE& a, const RE&) { std::string s; for (int v = a.dim() - 1; v >= 0; --v) if (a.c[v + 1] != 0) s += std::to_string(v) + ":" + a.c[v + 1].get_str() + " "; return s; });
  for (int v = 0; v <= MAXDIM; ++v)
    q(std::string("lower_bound(") + VN[v] + ")", [v](const RE& a, const RE&) { return v <= a.dim(); },
      [v](const LE& x, const LE&) { LE::const_iterator i = x.lower_bound(Var(v)); return i == x.end() ? std::string("end") : std::to_string(i.variable().id()) + ":" + Z(*i).get_str(); },
      [v](const RE& a, const RE&) { for (int w = v; w < a.dim(); ++w) if (a.c[w + 1] != 0) return std::to_string(w) + ":" + a.c[w + 1].get_str(); return std::string("end"); });
  q("is_equal_to(e2)", always, [](const LE& x, const LE& y) { return bs(x.is_equal_to(y)) + bs(y.is_equal_to(x)); }, [](const RE& a, const RE& b) { return bs(a == b) + bs(a == b); });
  auto cmp = [](const RE& a, const RE& b) {
    int n = std::max(a.dim(), b.dim());
    for (int v = 0; v < n; ++v) { Z x = v < a.dim() ? a.c[v + 1] : Z(0), y = v < b.dim() ? b.c[v + 1] : Z(0); if (x != y) return x < y ? -2 : 2; }
    return a.c[0] < b.c[0] ? -1 : a.c[0] > b.c[0] ? 1 : 0; };
  q("compare(e1,e2)", always, [](const LE& x, const LE& y) { return std::to_string(compare(x, y)) + "/" + std::to_string(compare(y, x)); }, [cmp](const RE& a, const RE& b) { return std::to_string(cmp(a, b)) + "/" + std::to_string(cmp(b, a)); });
  for (int mask = 0; mask < (1 << MAXDIM); ++mask) {
    q("all_zeroes(vars mask " + std::to_string(mask) + ")", [mask](const RE& a, const RE&) { return mask < (1 << a.dim()); },
      [mask](const LE& x, const LE&) { PPL::Variables_Set vs; for (int v = 0; v < MAXDIM; ++v) if (mask & (1 << v)) vs.insert(Var(v)); return bs(x.all_zeroes(vs)); },
      [mask](const RE& a, const RE&) { for (int v = 0; v < a.dim(); ++v) if ((mask & (1 << v)) && a.c[v + 1] != 0) return bs(false); return bs(true); });
  }
  q("last_nonzero()", always, [](const LE& x, const LE&) { return std::to_string(x.last_nonzero()); }, [](const RE& a, const RE&) { for (int i = (int)a.c.size() - 1; i >= 0; --i) if (a.c[i] != 0) return std::to_string(i); return std::string("0"); });
  q("has_a_free_dimension_helper", always,
    [](const LE& x, const LE&) { std::set<dim_t> s; for (dim_t i = 0; i <= x.space_dimension(); ++i) s.insert(i); x.has_a_free_dimension_helper(s); std::string r; for (dim_t i : s) r += std::to_string(i) + ","; return r; },
    [](const RE& a, const RE&) { std::string r; for (size_t i = 0; i < a.c.size(); ++i) if (a.c[i] == 0) r += std::to_string(i) + ","; return r; });
  q("has_a_free_dimension_helper(odd indexes)", always,
    [](const LE& x, const LE&) { std::set<dim_t> s; for (dim_t i = 1; i <= x.space_dimension(); i += 2) s.insert(i); x.has_a_free_dimension_helper(s); std::string r; for (dim_t i : s) r += std::to_string(i) + ","; return r; },
    [](const RE& a, const RE&) { std::string r; for (size_t i = 1; i < a.c.size(); i += 2) if (a.c[i] == 0) r += std::to_string(i) + ","; return r; });
  q("get_row(Dense_Row)/get_row(Sparse_Row)", always,
    [](const LE& x, const LE&) { PPL::Dense_Row d; PPL::Sparse_Row s; x.get_row(d); x.get_row(s); std::string r = std::to_string(d.size()) + "/" + std::to_string(s.size()) + ":";
      for (dim_t i = 0; i < d.size(); ++i) r += Z(d[i]).get_str() + "," + Z(s.get(i)).get_str() + ";"; return r; },
    [](const RE& a, const RE&) { std::string r = std::to_string(a.c.size()) + "/" + std::to_string(a.c.size()) + ":"; for (const Z& z : a.c) r += z.get_str() + "," + z.get_str() + ";"; return r; });
  q("operator<< (dense text == sparse text)", always, [](const LE& x, const LE&) { std::ostringstream s; using namespace PPL::IO_Operators; s << x; return s.str(); }, nullptr);
  q("scalar_product(e2)", [](const RE& a, const RE& b) { return a.dim() <= b.dim(); },
    [](const LE& x, const LE& y) { Z r = 77; x.scalar_product_assign(r, y); return r.get_str() + "/" + std::to_string(x.scalar_product_sign(y)); },
    [](const RE& a, const RE& b) { Z r = 0; for (size_t i = 0; i < a.c.size(); ++i) r += a.c[i] * b.c[i]; return r.get_str() + "/" + std::to_string(sgnz(r)); });
  // ranged queries
  for (int s = 0; s <= MAXDIM + 1; ++s) for (int e = s; e <= MAXDIM + 1; ++e) {
    std::string rg = "(" + std::to_string(s) + "," + std::to_string(e) + ")";
    auto fits1 = [e](const RE& a, const RE&) { return e <= a.dim() + 1; };
    auto fits2 = [e](const RE& a, const RE& b) { return e <= a.dim() + 1 && e <= b.dim() + 1; };
    q("all_zeroes/num_zeroes/gcd/first_nonzero/last_nonzero" + rg, fits1,
      [s, e](const LE& x, const LE&) { return bs(x.all_zeroes((dim_t)s, (dim_t)e)) + "/" + std::to_string(x.num_zeroes(s, e)) + "/" + Z(x.gcd(s, e)).get_str() + "/" + std::to_string(x.first_nonzero(s, e)) + "/" + std::to_string(x.last_nonzero(s, e)); },
      [s, e](const RE& a, const RE&) { int nz = 0, f = e, l = e; for (int i = s; i < e; ++i) { if (a.c[i] == 0) ++nz; else { if (f == e) f = i; l = i; } }
        return bs(nz == e - s) + "/" + std::to_string(nz) + "/" + gcd_range(a, s, e).get_str() + "/" + std::to_string(f) + "/" + std::to_string(l); });
    q("scalar_product(e2)" + rg, fits2,
      [s, e](const LE& x, const LE& y) { Z r = 77; x.scalar_product_assign(r, y, s, e); return r.get_str() + "/" + std::to_string(x.scalar_product_sign(y, s, e)); },
      [s, e](const RE& a, const RE& b) { Z r = 0; for (int i = s; i < e; ++i) r += a.c[i] * b.c[i]; return r.get_str() + "/" + std::to_string(sgnz(r)); });
    q("is_equal_to(e2)" + rg, fits2, [s, e](const LE& x, const LE& y) { return bs(x.is_equal_to(y, s, e)); }, [s, e](const RE& a, const RE& b) { for (int i = s; i < e; ++i) if (a.c[i] != b.c[i]) return bs(false); return bs(true); });
    for (int k = 0; k < 3; ++k) {
      static const long cc[3][2] = { {1, 1}, {2, -1}, {-1, 2} };
      long c1 = cc[k][0], c2 = cc[k][1];
      q("is_equal_to(e2," + std::to_string(c1) + "," + std::to_string(c2) + ")" + rg, fits2, [s, e, c1, c2](const LE& x, const LE& y) { return bs(x.is_equal_to(y, Z(c1), Z(c2), s, e)); },
        [s, e, c1, c2](const RE& a, const RE& b) { for (int i = s; i < e; ++i) if (a.c[i] * c1 != b.c[i] * c2) return bs(false); return bs(true); });
    }
    for (int mask : {0, 1, 2, 5, 10, 15})
      q("all_zeroes_except(vars mask " + std::to_string(mask) + ")" + rg, fits1,
        [s, e, mask](const LE& x, const LE&) { PPL::Variables_Set vs; for (int v = 0; v < MAXDIM; ++v) if (mask & (1 << v)) vs.insert(Var(v)); return bs(x.all_zeroes_except(vs, s, e)); },
        [s, e, mask](const RE& a, const RE&) { for (int i = s; i < e; ++i) if (a.c[i] != 0 && (i == 0 || !(mask & (1 << (i - 1))))) return bs(false); return bs(true); });
    if (s >= 1)
      q("have_a_common_variable(e2)" + rg, fits2,
        [s, e](const LE& x, const LE& y) { return bs(x.have_a_common_variable(y, Var(s - 1), Var(e - 1))); },
        [s, e](const RE& a, const RE& b) { for (int i = s; i < e; ++i) if (a.c[i] != 0 && b.c[i] != 0) return bs(true); return bs(false); });
  }
}

// ---------------------------------------------------------------- states
static const PPL::Representation LREP[4][2] = { {DENSE, DENSE}, {SPARSE, SPARSE}, {DENSE, SPARSE}, {SPARSE, DENSE} };
struct State { RE a, b; std::unique_ptr<LE> e[4][2]; int parent, op, depth; };
static std::vector<State*> ST;
static std::unordered_map<std::string, int> SEEN;
static std::vector<std::pair<RE, RE> > INIT;

static std::string lin_name(const LE& x, const LE& y) { return std::string("e1 ") + repn(x.representation()) + ", e2 " + repn(y.representation()); }
static std::string state_key(const State& s) {
  std::string k = s.a.str() + s.b.str();
  for (int l = 0; l < 4; ++l) for (int j = 0; j < 2; ++j) k += "|" + layout_of(*s.e[l][j]);
  return k;
}
static std::vector<std::string> history_of(int id) {
  std::vector<std::string> h;
  while (id >= 0 && ST[id]->parent >= 0) { h.push_back(OPS[ST[id]->op].name); id = ST[id]->parent; }
  if (id >= 0) h.push_back("initial: e1 = " + ST[id]->a.str() + ", e2 = " + ST[id]->b.str());
  std::reverse(h.begin(), h.end());
  return h;
}
static std::string hist_json(int id) { std::vector<std::string> h = history_of(id), q; for (size_t i = 0; i < h.size(); ++i) q.push_back(jstr(h[i])); std::string s = "["; for (size_t i = 0; i < q.size(); ++i) { if (i) s += ","; s += q[i]; } return s + "]"; }
static std::string input_json(int id, const std::string& op) {
  return J().raw("history", hist_json(id)).str("e1", ST[id]->a.str()).str("e2", ST[id]->b.str()).str("op", op).done();
}

// compare one expression with its reference value
static std::string diff_expr(const LE& x, const RE& r) {
  if (!x.OK()) return "invariant:OK()";
  if ((int)x.space_dimension() != r.dim()) return "value:space_dimension";
  if (x.inhomogeneous_term() != r.c[0]) return "value:inhomogeneous_term";
  for (int v = 0; v < r.dim(); ++v) if (x.coefficient(Var(v)) != r.c[v + 1]) return "value:coefficient";
  // iteration must show exactly the non-zero homogeneous coefficients, in order
  {
    int v = 0;
    for (LE::const_iterator i = x.begin(), e = x.end(); i != e; ++i) {
      while (v < r.dim() && r.c[v + 1] == 0) ++v;
      if (v >= r.dim() || (int)i.variable().id() != v || *i != r.c[v + 1]) return "iteration:!=reference";
      ++v;
    }
    while (v < r.dim() && r.c[v + 1] == 0) ++v;
    if (v < r.dim()) return "iteration:!=reference";
  }
  // the row behind a sparse expression must itself be a valid row (reads only)
  typedef PPL::Linear_Expression_Impl<PPL::Sparse_Row> SI;
  if (const SI* p = dynamic_cast<const SI*>(x.impl)) if (!p->row.OK() || !p->row.tree.OK()) return "invariant:Sparse_Row::OK()";
  return "";
}

// narrow predicates over the input for known findings
static std::string trigger_for(const Op& op, const LE& x0, const LE& y0, const RE& a, const RE& b) {
  if (op.is_lax && op.lax_c1 == 0 && op.lax_c2 != 0 && x0.representation() == SPARSE && y0.representation() == DENSE) {
    int s = op.rs < 0 ? 0 : op.rs, e = op.rs < 0 ? b.dim() + 1 : op.re;
    for (int i = s; i < e; ++i) if (b.c[i] == 0) return "sparse_receiver_dense_operand_c1_zero_and_operand_has_zero_coefficient_in_range";
  }
  if (op.trunc_dim >= 0 && x0.representation() == DENSE && op.trunc_dim < a.dim()) {
    for (int i = op.trunc_dim + 1; i <= a.dim(); ++i) if (a.c[i] != 0) return "dense_source_sparse_copy_smaller_dimension_and_nonzero_coefficient_beyond_it";
  }
  return "none";
}
static RE read_values(const LE& x) { RE r; r.c.assign(x.space_dimension() + 1, Z(0)); r.c[0] = x.inhomogeneous_term(); for (dim_t v = 0; v < x.space_dimension(); ++v) r.c[v + 1] = x.coefficient(Var(v)); return r; }

// apply op to the four lineages (on copies); ra/rb receive the reference result
struct Res { std::unique_ptr<LE> x, y; std::string clause, obs, trig; };
static void run_all(const Op& op, const State& s, RE& ra, RE& rb, Res res[4]) {
  ra = s.a; rb = s.b;
  bool unspec = op.unspec && op.unspec(s.a, s.b);
  op.ref(ra, rb);
  bool threw[4] = {false, false, false, false};
  for (int l = 0; l < 4; ++l) {
    Res& r = res[l];
    r.x.reset(new LE(*s.e[l][0])); r.y.reset(new LE(*s.e[l][1])); r.clause.clear(); r.trig = "none";
    try { op.impl(*r.x, *r.y); }
    catch (const std::exception& ex) { r.obs = std::string("exception: ") + ex.what(); r.clause = "unexpected-exception"; threw[l] = true; }
  }
  if (unspec) for (int l = 0; l < 4; ++l) if (!threw[l] && res[l].x->OK()) { ra = read_values(*res[l].x); break; }   // yardstick: first sane lineage
  for (int l = 0; l < 4; ++l) {
    Res& r = res[l];
    if (!threw[l]) {
      std::string d = diff_expr(*r.x, ra);
      if (!d.empty()) { r.obs = le_values(*r.x); r.clause = d; }
      else { d = diff_expr(*r.y, rb); if (!d.empty()) { r.obs = "e2 = " + le_values(*r.y); r.clause = (op.swaps ? "" : "const-operand-changed:") + d; } }
    }
    if (!r.clause.empty()) {
      r.trig = trigger_for(op, *s.e[l][0], *s.e[l][1], s.a, s.b);
      bool binary = op.name.find("e2") != std::string::npos;
      r.clause += " (" + (binary ? lin_name(*s.e[l][0], *s.e[l][1]) : std::string("e1 ") + repn(s.e[l][0]->representation())) + ")";
    }
  }
}

static long long TRANS_A = 0;
static void phase_a(int depth) {
  for (size_t i = 0; i < INIT.size(); ++i) {
    State* s = new State; s->a = INIT[i].first; s->b = INIT[i].second; s->parent = -1; s->op = -1; s->depth = 0;
    for (int l = 0; l < 4; ++l) { s->e[l][0].reset(new LE(build(s->a, LREP[l][0]))); s->e[l][1].reset(new LE(build(s->b, LREP[l][1]))); }
    std::string k = state_key(*s);
    if (SEEN.count(k)) { delete s; continue; }
    SEEN[k] = (int)ST.size(); ST.push_back(s);
  }
  size_t begin = 0;
  for (int d = 1; d <= depth; ++d) {
    size_t end = ST.size();
    for (size_t si = begin; si < end; ++si) {
      for (size_t oi = 0; oi < OPS.size(); ++oi) {
        const Op& op = OPS[oi];
        if (!op.builder || !op.ok(ST[si]->a, ST[si]->b)) continue;
        { RE ta = ST[si]->a, tb = ST[si]->b; op.ref(ta, tb); if (ta.dim() > MAXDIM || tb.dim() > MAXDIM) continue; }
        RE ra, rb; Res res[4];
        run_all(op, *ST[si], ra, rb, res);
        State* n = new State; n->a = ra; n->b = rb; n->parent = (int)si; n->op = (int)oi; n->depth = d;
        bool bad = false;
        for (int l = 0; l < 4; ++l) {
          ++TRANS_A;
          n->e[l][0].swap(res[l].x); n->e[l][1].swap(res[l].y);
          if (!res[l].clause.empty()) {
            bad = true;
            if (violcap().admit(op.site + res[l].clause + res[l].trig)) report_violation(op.site, res[l].clause, res[l].trig, input_json((int)si, op.name), res[l].obs, "e1 = " + ra.str() + ", e2 = " + rb.str());
          }
        }
        if (bad) { delete n; continue; }
        std::string k = state_key(*n);
        if (SEEN.count(k)) { delete n; continue; }
        SEEN[k] = (int)ST.size(); ST.push_back(n);
      }
    }
    begin = end;
    fprintf(stderr, "[c16 rows] phase A depth %d: %zu states\n", d, ST.size());
    if (ARGS.left() < ARGS.deadline * 0.6) { fprintf(stderr, "[c16 rows] phase A cut by deadline\n"); break; }
  }
}

static void work_on(int si, long long sub_start) {
  const State& s = *ST[si];
  long long sub = 0;
  // queries
  for (size_t qi = 0; qi < QS.size(); ++qi, ++sub) {
    const Query& q = QS[qi];
    if (!pool().want(sub, sub_start)) continue;
    if (!q.ok(s.a, s.b)) continue;
    pool().step(sub);
    std::string want; bool have_want = false;
    if (q.ref) { want = q.ref(s.a, s.b); have_want = true; }
    for (int l = 0; l < 4; ++l) {
      std::string got;
      try { got = q.impl(*s.e[l][0], *s.e[l][1]); } catch (const std::exception& ex) { got = std::string("exception: ") + ex.what(); }
      count(CNT_TRANS); count(CNT_CHECKS);
      if (!have_want) { want = got; have_want = true; continue; }
      if (got != want) {
        std::string site = "Linear_Expression::" + q.name.substr(0, q.name.find('('));
        bool binary = q.name.find("e2") != std::string::npos;
        std::string clause = "query:answer!=reference (" + (binary ? lin_name(*s.e[l][0], *s.e[l][1]) : std::string("e1 ") + repn(s.e[l][0]->representation())) + ")";
        std::string trig = "none";
        if (q.name.find("all_zeroes_except") == 0 && q.name.find(")(0,0)") != std::string::npos && s.e[l][0]->representation() == DENSE && s.a.c[0] != 0)
          trig = "dense_empty_range_at_index_0_and_nonzero_inhomogeneous_term";
        if (violcap().admit(site + clause + trig)) report_violation(site, clause, trig, input_json(si, q.name), got, want);
      }
    }
    // queries must not change anything
    for (int l = 0; l < 4; ++l) if (!diff_expr(*s.e[l][0], s.a).empty() || !diff_expr(*s.e[l][1], s.b).empty()) {
      if (violcap().admit("obs" + q.name)) report_violation("Linear_Expression::" + q.name.substr(0, q.name.find('(')), "observer-changed-state", "none", input_json(si, q.name), le_values(*s.e[l][0]), s.a.str());
    }
  }
  for (size_t oi = 0; oi < OPS.size(); ++oi, ++sub) {
    const Op& op = OPS[oi];
    if (!pool().want(sub, sub_start)) continue;
    if (!op.ok(s.a, s.b)) continue;
    { RE ta = s.a, tb = s.b; op.ref(ta, tb); if (ta.dim() > MAXDIM || tb.dim() > MAXDIM) continue; }
    pool().step(sub);
    RE ra, rb; Res res[4];
    run_all(op, s, ra, rb, res);
    for (int l = 0; l < 4; ++l) {
      count(CNT_TRANS);
      if (!res[l].clause.empty() && violcap().admit(op.site + res[l].clause + res[l].trig))
        report_violation(op.site, res[l].clause, res[l].trig, input_json(si, op.name), res[l].obs, "e1 = " + ra.str() + ", e2 = " + rb.str());
    }
  }
  count(CNT_STATES);
}

// --replay: re-execute one recorded case in the four lineages and print both sides
static RE parse_re(const std::string& t, size_t from) {
  size_t a = t.find('[', from), b = t.find(']', a);
  RE r; r.c.clear();
  std::istringstream is(t.substr(a + 1, b - a - 1)); std::string tok;
  while (std::getline(is, tok, ',')) r.c.push_back(Z(tok));
  return r;
}
static int replay(const std::string& text) {
  size_t hp = text.find("\"history\"");
  if (hp == std::string::npos) { printf("no history in replay file\n"); return 2; }
  size_t a = text.find('[', hp), p = a + 1;
  std::vector<std::string> items;
  while (true) {                                   // the strings of the history array (no escaped quotes inside)
    size_t q1 = text.find('"', p), close = text.find(']', p);
    // a ']' inside a string belongs to an expression text: skip strings first
    if (q1 == std::string::npos || (close != std::string::npos && close < q1)) break;
    size_t q2 = text.find('"', q1 + 1);
    items.push_back(text.substr(q1 + 1, q2 - q1 - 1));
    p = q2 + 1;
  }
  std::string opname; size_t op = text.find("\"op\"");
  if (op != std::string::npos) { size_t q1 = text.find('"', text.find(':', op)), q2 = text.find('"', q1 + 1); opname = text.substr(q1 + 1, q2 - q1 - 1); }
  if (items.empty() || items[0].find("initial:") != 0) { printf("cannot parse history\n"); return 2; }
  State s; s.a = parse_re(items[0], items[0].find("e1 =")); s.b = parse_re(items[0], items[0].find("e2 ="));
  for (int l = 0; l < 4; ++l) { s.e[l][0].reset(new LE(build(s.a, LREP[l][0]))); s.e[l][1].reset(new LE(build(s.b, LREP[l][1]))); }
  printf("%s\n", items[0].c_str());
  std::vector<std::string> todo(items.begin() + 1, items.end());
  todo.push_back(opname);
  for (size_t i = 0; i < todo.size(); ++i) {
    const Op* o = 0; for (size_t k = 0; k < OPS.size(); ++k) if (OPS[k].name == todo[i]) o = &OPS[k];
    if (!o) {
      const Query* q = 0; for (size_t k = 0; k < QS.size(); ++k) if (QS[k].name == todo[i]) q = &QS[k];
      if (!q) { printf("unknown step '%s'\n", todo[i].c_str()); return 2; }
      printf("query %s: reference %s\n", q->name.c_str(), q->ref ? q->ref(s.a, s.b).c_str() : "(dense text)");
      for (int l = 0; l < 4; ++l) printf("   %-28s -> %s\n", lin_name(*s.e[l][0], *s.e[l][1]).c_str(), q->impl(*s.e[l][0], *s.e[l][1]).c_str());
      continue;
    }
    RE ra, rb; Res res[4];
    run_all(*o, s, ra, rb, res);
    printf("%s: reference e1 = %s, e2 = %s\n", o->name.c_str(), ra.str().c_str(), rb.str().c_str());
    for (int l = 0; l < 4; ++l) {
      printf("   %-28s -> e1 = %s%s%s\n", lin_name(*s.e[l][0], *s.e[l][1]).c_str(), le_values(*res[l].x).c_str(), res[l].clause.empty() ? "" : "   VIOLATION ", res[l].clause.c_str());
      s.e[l][0].swap(res[l].x); s.e[l][1].swap(res[l].y);
    }
    s.a = ra; s.b = rb;
  }
  return 0;
}

int main(int argc, char** argv) {
  ARGS = parse_args(argc, argv);
  sink().open(ARGS.out);
  int depth = atoi(ARGS.opt("--depth", "2").c_str());
  MAXDIM = atoi(ARGS.opt("--maxdim", "4").c_str());
  if (MAXDIM < 2 || MAXDIM > 6) { sink().line(J().str("t", "error").str("msg", "--maxdim out of range").done()); return 2; }
  double t0 = now_s();
  build_ops(); build_queries();
  if (!ARGS.replay.empty()) { std::ifstream in(ARGS.replay.c_str()); std::string t((std::istreambuf_iterator<char>(in)), std::istreambuf_iterator<char>()); return replay(t); }
  INIT = {
    { mkre({0}), mkre({0}) },
    { mkre({1, 1}), mkre({0, 0, 1}) },
    { mkre({1, 2, -1}), mkre({0, 1, 1}) },
    { mkre({0, 0, 3, 1}), mkre({3, 2, -1, 0}) },
    { mkre({-2, -1, 0, 2}), mkre({0, 2, 0, 4}) },
    { mkre({0, 4, -6, 0, 2}), mkre({1, 0, 3}) },
    { mkre({5, 1, 1, 1, 1}), mkre({0, -1, 2, -3, 4}) },
  };
  phase_a(depth);
  size_t nb = 0; for (size_t i = 0; i < OPS.size(); ++i) if (OPS[i].builder) ++nb;
  fprintf(stderr, "[c16 rows] phase A: depth=%d states=%zu transitions=%lld ops=%zu (builders %zu) queries=%zu in %.1fs\n", depth, ST.size(), TRANS_A, OPS.size(), nb, QS.size(), now_s() - t0);
  Pool::Fn fn = [&](long long item, long long sub_start) { alarm(300); work_on((int)item, sub_start); alarm(0); };
  Pool::CrashFn cf = [&](long long item, long long sub, int sig, bool confirmed) {
    if (!confirmed) return;
    std::string nm, site;
    if (sub < (long long)QS.size()) { nm = QS[sub].name; site = "Linear_Expression::" + nm.substr(0, nm.find('(')); }
    else { const Op& op = OPS[sub - QS.size()]; nm = op.name; site = op.site; }
    report_violation(site, std::string("crash:") + signame(sig), "none", input_json((int)item, nm), signame(sig), "normal return");
  };
  pool().run((long long)ST.size(), ARGS.jobs, fn, cf, ARGS, 0);
  bool complete = counter(CNT_SKIPPED) == 0;
  std::vector<std::string> samples;
  for (size_t i = ST.size() / 5; i < ST.size() && samples.size() < 3; i += std::max<size_t>(1, ST.size() / 3)) samples.push_back(J().raw("history", hist_json((int)i)).str("e1", ST[i]->a.str()).str("e2", ST[i]->b.str()).done());
  if (samples.empty()) samples.push_back(hist_json(0));
  J extra; extra.num("phaseA_states", (long long)ST.size()).num("phaseA_transitions", TRANS_A).num("operations", (long long)OPS.size()).num("builder_operations", (long long)nb)
    .num("queries", (long long)QS.size()).num("lineages", 4).num("query_comparisons", counter(CNT_CHECKS)).num("items_skipped_by_deadline", counter(CNT_SKIPPED));
  J st; st.str("t", "stats").num("states", (long long)ST.size()).num("transitions", TRANS_A + counter(CNT_TRANS)).num("traces_validated_against_impl", TRANS_A + counter(CNT_TRANS))
    .boolean("exhaustive", complete)
    .str("bound", "Linear_Expression dense==sparse lock-step: 7 initial pairs (e1,e2), space dimension <= " + std::to_string(MAXDIM) + ", every history of <= " + std::to_string(depth) + " builder operations (" + std::to_string(nb) +
         " builders) followed by every operation of the full alphabet (" + std::to_string(OPS.size()) + ") and every query (" + std::to_string(QS.size()) + "), in 4 representation lineages (D,D),(S,S),(D,S),(S,D); no aliased calls" +
         (complete ? "; depth bound completed" : "; NOT completed (deadline)"))
    .arr("samples", samples).raw("extra", extra.done()).dbl("wall_s", now_s() - t0);
  sink().line(st.done());
  fprintf(stderr, "[c16 rows] states=%zu transitions=%lld wall=%.1fs complete=%d\n", ST.size(), TRANS_A + counter(CNT_TRANS), now_s() - t0, (int)complete);
  return 0;
}

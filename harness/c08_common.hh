// C08 -- widenings are upper bounds, well defined on values, and force convergence.
// Shared machinery of the harness/c08_*.cc game-graph explorers (owned by property C08).
//
//   state   = the current iterate x (a *value*: an equivalence class of descriptions decided by the
//             reference semantics, never by the library);
//   move    = the adversary picks an increment m of a finite menu, y = x |_| m (library join, checked
//             against the reference: x <= y, m <= y);
//   answer  = x' = x widen y, computed as  y.<operator>(x)  on the real objects.
// Every operator has its own graph, explored breadth first to closure or to a depth bound (phase A,
// in the parent).  Phase B (fork pool, one work item per edge) re-executes every edge under all
// variants (representation pairs, token counts, limiting constraint systems) and applies the oracle.
#ifndef VERIF_C08_COMMON_HH
#define VERIF_C08_COMMON_HH 1

#include "engine/common.hh"
#include "engine/ppl_ref.hh"
#include "ref/ops.hh"
#include "ref/dd.hh"
#include <unordered_map>
#include <memory>
#include <functional>

namespace c08 {

using namespace vf;
using ref::Cell; using ref::Row; using ref::Vec; using ref::Q; using ref::USet;

// ------------------------------------------------------------------ value classes of polyhedral values
struct Classes {
  std::vector<Cell> cells;
  std::unordered_map<std::string, std::vector<int> > bucket;   // canon(closure) -> ids
  std::unordered_map<std::string, int> memo;                   // sorted normalised rows -> id
  static std::string key_of(const Cell& c) {
    if (c.bot) return "bot/" + std::to_string(c.n);
    std::vector<std::string> parts;
    for (size_t i = 0; i < c.rows.size(); ++i) {
      int t = ref::trivial(c.rows[i]);
      if (t == 1) continue;
      if (t == 0) return "bot/" + std::to_string(c.n);
      parts.push_back(ref::row_str(ref::norm(c.rows[i])));
    }
    std::sort(parts.begin(), parts.end());
    parts.erase(std::unique(parts.begin(), parts.end()), parts.end());
    std::string s = std::to_string(c.n) + ":";
    for (size_t i = 0; i < parts.size(); ++i) { s += parts[i]; s += ";"; }
    return s;
  }
  int classify(const Cell& c0) {
    std::string key = key_of(c0);
    std::unordered_map<std::string, int>::iterator it = memo.find(key);
    if (it != memo.end()) return it->second;
    Cell c = ref::normalized(c0);
    std::string ck = c.bot ? ("bot/" + std::to_string(c.n)) : ref::canon_closed(ref::closure(c));
    std::vector<int>& b = bucket[ck];
    int id = -1;
    for (size_t i = 0; i < b.size() && id < 0; ++i) if (ref::equal(cells[b[i]], c)) id = b[i];
    if (id < 0) { id = (int)cells.size(); cells.push_back(c); b.push_back(id); }
    memo[key] = id;
    return id;
  }
  const Cell& operator[](int id) const { return cells[id]; }
  size_t size() const { return cells.size(); }
};

inline std::string qstr(const Q& q) { return q.get_str(); }

// human readable constraint text of a cell ("A", "B", ...)
inline std::string cell_text(const Cell& c) {
  if (c.bot) return "false";
  if (c.rows.empty()) return "true";
  std::string s;
  for (size_t i = 0; i < c.rows.size(); ++i) {
    const Row& r = c.rows[i];
    if (i) s += ", ";
    bool first = true;
    for (size_t j = 0; j < r.a.size(); ++j) if (r.a[j] != 0) {
      std::string q = qstr(r.a[j]);
      if (!first && r.a[j] > 0) s += "+";
      if (q == "1") q = ""; else if (q == "-1") q = "-"; else q += "*";
      s += q + std::string(1, char('A' + j)); first = false;
    }
    if (r.b != 0 || first) { if (!first && r.b > 0) s += "+"; s += qstr(r.b); }
    s += (r.k == ref::EQ ? " = 0" : r.k == ref::GE ? " >= 0" : " > 0");
  }
  return s;
}

// ------------------------------------------------------------------ independent convergence measures
// All measures are vectors compared lexicographically; *smaller is later in the chain*.
// A measure is only ever compared between an iterate x and its successor x' >= x.

// number of constraints of a minimal description of the closed polyhedron cl(c):
// (n - affine dimension) equalities + number of facets
inline long minimal_constraint_count(const Cell& c) {
  Cell nc = ref::normalized(ref::closure(c));
  int n = nc.n, ad = ref::affine_dimension(nc);
  long facets = 0;
  for (size_t i = 0; i < nc.rows.size(); ++i) {
    if (nc.rows[i].k == ref::EQ) continue;
    Row e = nc.rows[i]; e.k = ref::EQ;
    if (!ref::rows_implies(nc.rows, e, n)) ++facets;
  }
  return (n - ad) + facets;
}

struct PolyShape { int affdim, lin; long ncons, nverts; std::vector<long> rays_by_zeroes; long nstrict; };
inline PolyShape poly_shape(const Cell& c) {     // c non-empty
  PolyShape s; s.affdim = ref::affine_dimension(c); s.ncons = minimal_constraint_count(c);
  ref::Gens g; ref::gens_of_closed_cell(c, g);
  s.lin = 0; s.nverts = 0; s.rays_by_zeroes.assign(c.n, 0);
  for (size_t i = 0; i < g.size(); ++i) {
    if (g[i].t == 'l') ++s.lin; else if (g[i].t == 'p') ++s.nverts;
    else { int z = 0; for (int j = 0; j < c.n; ++j) if (g[i].v[j] == 0) ++z; if (z < c.n) s.rays_by_zeroes[z]++; }
  }
  Cell nc = ref::normalized(c);
  s.nstrict = 0; for (size_t i = 0; i < nc.rows.size(); ++i) if (nc.rows[i].k == ref::GT) ++s.nstrict;
  return s;
}
// H79: (affine dimension up, number of non-redundant constraints down)
inline std::vector<long> measure_H79(const Cell& c) {
  if (ref::is_empty(c)) return std::vector<long>(1, 1000000);
  PolyShape s = poly_shape(c);
  return std::vector<long>{0, -s.affdim, s.ncons};
}
// BHRZ03: (affine dim up, lineality up, constraints down, vertices down, rays with more non-zero coordinates down).
// The last component is only canonical for pointed polyhedra; with lines it is left out (a tie is then "undetermined").
inline std::vector<long> measure_BHRZ03(const Cell& c) {
  if (ref::is_empty(c)) return std::vector<long>(1, 1000000);
  PolyShape s = poly_shape(c);
  std::vector<long> v{0, -s.affdim, -s.lin, s.ncons, s.nverts};
  if (s.lin == 0) for (size_t i = 0; i < s.rays_by_zeroes.size(); ++i) v.push_back(s.rays_by_zeroes[i]);
  return v;
}
// -1: a < b (strict progress), 0 tie on the common prefix, 1: a > b
inline int lexcmp(const std::vector<long>& a, const std::vector<long>& b) {
  for (size_t i = 0; i < a.size() && i < b.size(); ++i) if (a[i] != b[i]) return a[i] < b[i] ? -1 : 1;
  return 0;
}
inline std::string vec_text(const std::vector<long>& v) {
  std::string s = "(";
  for (size_t i = 0; i < v.size(); ++i) { if (i) s += ","; s += std::to_string(v[i]); }
  return s + ")";
}

// ------------------------------------------------------------------ reference interval (CC76 with stop points -2..2)
struct Bound { bool inf; Q v; bool open; Bound() : inf(true), v(0), open(true) {} };
struct Itv { Bound lo, hi; };
inline std::vector<Itv> bounding_box(const Cell& c) {   // c non-empty
  std::vector<Itv> b(c.n);
  for (int i = 0; i < c.n; ++i) {
    ref::Sup s = ref::sup(c, ref::unit(c.n, i), Q(0));
    if (s.status == 1) { b[i].hi.inf = false; b[i].hi.v = s.value; b[i].hi.open = !s.attained; }
    ref::Sup t = ref::inf(c, ref::unit(c.n, i), Q(0));
    if (t.status == 1) { b[i].lo.inf = false; b[i].lo.v = t.value; b[i].lo.open = !t.attained; }
  }
  return b;
}
// documented CC76 interval widening with thresholds {-2,-1,0,1,2}: an unstable bound moves to the next
// stop point (or to infinity); `newer` contains `older`
inline Itv cc76_interval(const Itv& newer, const Itv& older) {
  static const long stops[] = {-2, -1, 0, 1, 2};
  Itv r = newer;
  if (!newer.hi.inf && !older.hi.inf && older.hi.v < newer.hi.v) {
    bool found = false;
    for (int k = 0; k < 5 && !found; ++k) if (Q(stops[k]) >= newer.hi.v) { if (Q(stops[k]) > newer.hi.v) r.hi.v = stops[k]; found = true; }
    if (!found) r.hi = Bound();
  }
  if (!newer.lo.inf && !older.lo.inf && older.lo.v > newer.lo.v) {
    bool found = false;
    for (int k = 4; k >= 0 && !found; --k) if (Q(stops[k]) <= newer.lo.v) { if (Q(stops[k]) < newer.lo.v) r.lo.v = stops[k]; found = true; }
    if (!found) r.lo = Bound();
  }
  return r;
}
inline Cell box_cell(const std::vector<Itv>& b, bool closed_only) {
  int n = (int)b.size(); Cell c(n);
  for (int i = 0; i < n; ++i) {
    if (!b[i].lo.inf) c.rows.push_back(Row(ref::unit(n, i), -b[i].lo.v, (b[i].lo.open && !closed_only) ? ref::GT : ref::GE));
    if (!b[i].hi.inf) c.rows.push_back(Row(ref::unit(n, i, Q(-1)), b[i].hi.v, (b[i].hi.open && !closed_only) ? ref::GT : ref::GE));
  }
  return c;
}
// rank of a box for the CC76 widening: per bound 2*(1 + number of stop points strictly beyond it) + open bit, 0 for infinite
inline std::vector<long> measure_box(const Cell& c) {
  if (ref::is_empty(c)) return std::vector<long>(1, 1000000);
  std::vector<Itv> b = bounding_box(c);
  long tot = 0;
  for (size_t i = 0; i < b.size(); ++i) {
    if (!b[i].hi.inf) { long k = 0; for (long s = -2; s <= 2; ++s) if (Q(s) > b[i].hi.v) ++k; tot += 2 * (1 + k) + (b[i].hi.open ? 1 : 0); }
    if (!b[i].lo.inf) { long k = 0; for (long s = -2; s <= 2; ++s) if (Q(s) < b[i].lo.v) ++k; tot += 2 * (1 + k) + (b[i].lo.open ? 1 : 0); }
  }
  return std::vector<long>{0, tot};
}

// ------------------------------------------------------------------ graph analysis
struct GEdge { int from, to; };
struct GraphInfo { bool acyclic; long longest; std::vector<int> cycle; long nonstationary; };
// nodes 0..n-1; only edges with from != to are passed
inline GraphInfo analyse(int n, const std::vector<GEdge>& es) {
  GraphInfo gi; gi.acyclic = true; gi.longest = 0; gi.nonstationary = (long)es.size();
  std::vector<std::vector<int> > adj(n);
  for (size_t i = 0; i < es.size(); ++i) adj[es[i].from].push_back(es[i].to);
  for (int i = 0; i < n; ++i) { std::sort(adj[i].begin(), adj[i].end()); adj[i].erase(std::unique(adj[i].begin(), adj[i].end()), adj[i].end()); }
  std::vector<int> color(n, 0), parent(n, -1); std::vector<long> best(n, 0);
  // iterative DFS with post-order longest-path computation
  for (int s = 0; s < n && gi.acyclic; ++s) {
    if (color[s]) continue;
    std::vector<std::pair<int, size_t> > st; st.push_back(std::make_pair(s, 0)); color[s] = 1;
    while (!st.empty() && gi.acyclic) {
      int u = st.back().first; size_t& k = st.back().second;
      if (k < adj[u].size()) {
        int v = adj[u][k++];
        if (color[v] == 0) { color[v] = 1; parent[v] = u; st.push_back(std::make_pair(v, 0)); }
        else if (color[v] == 1) { gi.acyclic = false; gi.cycle.push_back(v); for (int w = u; w != v && w >= 0; w = parent[w]) gi.cycle.push_back(w); std::reverse(gi.cycle.begin() + 1, gi.cycle.end()); }
      } else {
        long b = 0; for (size_t i = 0; i < adj[u].size(); ++i) b = std::max(b, best[adj[u][i]] + 1);
        best[u] = b; color[u] = 2; st.pop_back();
      }
    }
  }
  if (gi.acyclic) for (int i = 0; i < n; ++i) gi.longest = std::max(gi.longest, best[i]);
  return gi;
}

// ------------------------------------------------------------------ replay: restrict the run to the edges of one recorded violation
// (bin/vcheck replay <file> passes --replay <json>): the exploration is repeated, only edges whose description matches the
// recorded input are re-executed, and their violation records are printed on standard output.
struct ReplayFilter {
  bool on; std::map<std::string, std::string> want;
  ReplayFilter() : on(false) {}
  static std::string field(const std::string& txt, const std::string& key) {
    std::string pat = "\"" + key + "\":";
    size_t p = txt.find(pat); if (p == std::string::npos) return "\x01";
    p += pat.size(); while (p < txt.size() && txt[p] == ' ') ++p;
    std::string out;
    if (p < txt.size() && txt[p] == '"') {
      for (++p; p < txt.size() && txt[p] != '"'; ++p) {
        if (txt[p] == '\\' && p + 1 < txt.size()) { ++p; out += txt[p] == 'n' ? '\n' : txt[p]; } else out += txt[p];
      }
    } else while (p < txt.size() && txt[p] != ',' && txt[p] != '}') out += txt[p++];
    return out;
  }
  void load(const std::string& path) {
    std::ifstream f(path.c_str()); std::stringstream ss; ss << f.rdbuf(); std::string txt = ss.str();
    size_t ip = txt.find("\"input\""); if (ip != std::string::npos) txt = txt.substr(ip);
    const char* keys[] = {"domain", "dim", "operator", "older", "newer"};
    for (const char* k : keys) { std::string v = field(txt, k); if (v != "\x01") want[k] = v; }
    on = true;
  }
  bool match(const std::string& domain, int dim, const std::string& op, const std::string& older, const std::string& newer) const {
    if (!on) return true;
    auto ok = [&](const char* k, const std::string& v) { std::map<std::string, std::string>::const_iterator it = want.find(k); return it == want.end() || it->second == v; };
    return ok("domain", domain) && ok("dim", std::to_string(dim)) && ok("operator", op) && ok("older", older) && ok("newer", newer);
  }
};
inline ReplayFilter& replay() { static ReplayFilter r; return r; }

// ------------------------------------------------------------------ per-operator counters shared between workers
enum { OC_REP_PAIRS = 0, OC_TOKEN = 1, OC_LIMITED = 2, OC_BOUNDED = 3, OC_LIBCERT = 4, OC_INDEP = 5, OC_INDEP_UNDET = 6,
       OC_SUPERSET = 7, OC_CONSTARG = 8, OC_TOKEN_WASTED_LIMITED = 9, OC_EDGES_DONE = 10, OC_INDEP_FAIL = 11, OC_REPDEP_CAVEAT = 12, OC_LIBCERT_FAIL = 13, OC_SAME_ARGS_CHANGED = 14, OC_N = 16 };
struct OpCounters { volatile long long c[64][OC_N]; };
inline OpCounters* opc() {
  static OpCounters* p = 0;
  if (!p) { p = (OpCounters*)mmap(0, sizeof(OpCounters), PROT_READ | PROT_WRITE, MAP_SHARED | MAP_ANONYMOUS, -1, 0); memset((void*)p, 0, sizeof(OpCounters)); }
  return p;
}
inline void opcount(int op, int what, long long n = 1) { __sync_fetch_and_add(&opc()->c[op][what], n); }

// subsets of size <= 2 of {0..k-1}
inline std::vector<std::vector<int> > small_subsets(int k) {
  std::vector<std::vector<int> > out; out.push_back(std::vector<int>());
  for (int i = 0; i < k; ++i) out.push_back(std::vector<int>(1, i));
  for (int i = 0; i < k; ++i) for (int j = i + 1; j < k; ++j) { std::vector<int> s; s.push_back(i); s.push_back(j); out.push_back(s); }
  return out;
}

// ==================================================================================================
// Generic game over a domain whose values are polyhedral (ref::Cell): polyhedra, BD shapes, octagons, boxes.
//
// Domain adapter D must provide:
//   typedef Obj;  std::string name;  int dim;  bool nnc;
//   Obj* clone(const Obj&)            faithful copy (representation included)
//   Cell cell(const Obj&)             value of the object, read from the constraints of a clone
//   std::string dump(const Obj&)
//   void join(Obj& a, const Obj& b)   a := a |_| b
//   bool ok(const Obj&)
//   void menu(std::vector<MenuItem>&) increments (name, object, reference cell)
//   Obj* empty()
//   void reps(const Obj& natural, const Cell& value, std::vector<Rep>&)   synthetic representations of the value
//   void ops(std::vector<OpDef>&)
//   std::vector<vf::CN> limits()      menu of limiting constraints
//   PPL::Constraint_System cs_of(const std::vector<vf::CN>&)
// ==================================================================================================
template <typename D>
struct OpDefT {
  typedef typename D::Obj Obj; typedef typename D::Val Val; typedef typename D::Lim Lim; typedef typename D::LimSys LimSys;
  std::string name;          // e.g. "H79_widening_assign"
  std::string site;          // e.g. "Polyhedron::H79_widening_assign"
  bool widening;             // convergence is promised (false for *_extrapolation_*)
  bool tokens;               // the operator takes a token pointer
  std::function<void(Obj& newer, const Obj& older, unsigned* tp)> plain;
  std::string limited_name, bounded_name;
  std::function<void(Obj& newer, const Obj& older, const LimSys& cs, unsigned* tp)> limited, bounded;
  std::function<int(const Obj& older, const Obj& result)> libcert;     // 1 iff the library's certificate says "strictly stabilizing"
  std::string libcert_name;
  bool libcert_informational;                                          // a reconstruction of an internal criterion: counted, not reported
  // consistency of the certificate class itself: "" or a description of the disagreement between compare(Certificate) and compare(object)
  std::function<std::string(const Obj& older, const Obj& result)> libcert_consistency;
  std::function<std::string(const Val& older, const Val& result)> libcert_consistency_trigger;
  std::function<std::vector<long>(const Val&)> measure;                // independent measure (may be empty)
  std::function<bool(const Val&)> measure_complete;                    // is the measure canonical for this value? (default yes); a tie
                                                                       // between two complete measures is a violation, else "undetermined"
  bool measure_informational;                                          // failures are only counted (documented caveat), never reported
  // trigger (known-defect predicate) attached to violations of the two certificate checks; default "none"
  std::function<std::string(const Obj& older_natural, const Obj& newer_natural, const Val& older, const Val& newer, const Val& result)> cert_trigger;
  bool cert_only_when_newer_differs;                                   // certificates are only checked when the newer argument differs from the older one
  bool limited_compare_with_plain;                                     // the limited result is compared with the plain widening of the same call
                                                                       // (false when the documentation leaves the choice of the widening open)
  std::function<bool(const Lim&)> limit_representable;                 // BD/octagon/box: non-representable limiting constraints are ignored
  OpDefT() : widening(true), tokens(true), libcert_informational(false), measure_informational(false), cert_only_when_newer_differs(false), limited_compare_with_plain(true) {}
};

template <typename Obj> struct RepT { std::string name; std::shared_ptr<Obj> obj; };
template <typename Obj, typename Val> struct MenuItemT { std::string name; std::shared_ptr<Obj> obj; Val cell; int cls; };

// Value space of the polyhedral domains (polyhedra, BD shapes, octagons, boxes): values are ref::Cell, limiting
// systems are constraint systems.  The adapter supplies `dim` and `nnc`.
template <typename Self>
struct CellSpace {
  typedef Cell Val; typedef Classes Space; typedef vf::CN Lim; typedef PPL::Constraint_System LimSys;
  const Self& self() const { return *static_cast<const Self*>(this); }
  std::string text(const Cell& c) const { return cell_text(c); }
  bool vempty(const Cell& c) const { return c.bot; }
  bool vsubset(const Cell& a, const Cell& b) const { return ref::subset(a, b); }
  std::string witness_outside(const Cell& a, const Cell& b) const {
    Vec w; if (ref::find_point_outside(a, b, w)) return "point " + ref::vec_str(w) + " of the newer argument is not in the result";
    return "";
  }
  std::string lim_text(const vf::CN& c) const { return c.str(); }
  bool lim_implied(const Cell& v, const vf::CN& c) const { return ref::implies(v, c.row(self().dim)); }
  Cell lim_meet(const Cell& v, const std::vector<vf::CN>& kept) const {
    Cell w = v; if (!w.bot) for (size_t k = 0; k < kept.size(); ++k) w.rows.push_back(kept[k].row(self().dim)); return w;
  }
  PPL::Constraint_System lim_sys(const std::vector<vf::CN>& v) const {
    PPL::Constraint_System cs; for (size_t i = 0; i < v.size(); ++i) cs.insert(v[i].ppl()); return cs;
  }
  // CC76-widened bounding box of (newer, older), for the bounded extrapolations
  bool bounded_box(const Cell& newer, const Cell& older, Cell& out) const {
    if (newer.bot || older.bot) return false;
    std::vector<Itv> by = bounding_box(newer), bx = bounding_box(older), bw(by.size());
    for (size_t i = 0; i < by.size(); ++i) bw[i] = cc76_interval(by[i], bx[i]);
    out = box_cell(bw, !self().nnc);
    return true;
  }
  Cell vmeet(const Cell& a, const Cell& b) const { return ref::meet(a, b); }
  template <typename O> bool caveat_accepts(const std::string&, const O&, const O&, const Cell&) const { return true; }
  template <typename O> std::string repdep_trigger(const O&, const O&, const O&, const O&) const { return "none"; }
  template <typename O> std::string limited_trigger(const std::string&, const O&, const std::vector<vf::CN>&, const std::vector<bool>&) const { return "none"; }
};

template <typename D>
struct Game {
  typedef typename D::Obj Obj;
  typedef typename D::Val Val;
  typedef typename D::Lim Lim;
  typedef typename D::LimSys LimSys;
  typedef OpDefT<D> OpDef;
  typedef RepT<Obj> Rep;
  typedef MenuItemT<Obj, Val> MenuItem;
  typedef std::shared_ptr<Obj> P;

  D& d;
  const Args& args;
  int op_base;                 // index of the first operator in the shared counter table
  typename D::Space CL;
  std::vector<MenuItem> MENU;
  std::vector<OpDef> OPS;
  std::vector<Lim> LIMITS;
  std::vector<std::vector<int> > LIMSETS;
  std::unordered_map<int, std::vector<Rep> > REPS;        // class -> synthetic representations (phase A, parent)
  bool caveat_as_violation = false;
  int max_depth, rep_mode;     // rep_mode 0: star, 1: full product
  bool phase_a_cut = false;    // exploration stopped by the time budget (graphs reported as not closed)
  int limit_cap = 0;           // > 0: keep only that many limiting constraints (the first cap-1 and the last)     // rep_mode 0: star (natural x all + all x natural + diagonal), 1: full product

  struct Node { int cls; P natural; int parent, via; int depth; };
  struct Edge { int from, m, ycls, to; };
  struct OpGraph { std::vector<Node> nodes; std::unordered_map<int, int> node_of; std::vector<Edge> edges; bool closed; int depth_done; };
  std::vector<OpGraph> G;

  Game(D& d_, const Args& a, int base) : d(d_), args(a), op_base(base), max_depth(8), rep_mode(0) { opc(); shared(); if (!a.replay.empty() && !replay().on) replay().load(a.replay); }

  P cl(const Obj& o) { return P(d.clone(o)); }
  int cls_of(const Obj& o) { RefGuard g; return CL.classify(d.value(o)); }
  std::string T(int cls) const { return d.text(CL[cls]); }

  std::string history(int op, int node) const {
    std::vector<std::string> h;
    const OpGraph& g = G[op];
    for (int n = node; n >= 0; n = g.nodes[n].parent) {
      if (g.nodes[n].parent < 0) h.push_back(g.nodes[n].via >= 0 ? "start:" + MENU[g.nodes[n].via].name : "start:empty");
      else h.push_back("+" + MENU[g.nodes[n].via].name);
    }
    std::reverse(h.begin(), h.end());
    std::string s;
    for (size_t i = 0; i < h.size(); ++i) { if (i) s += " "; s += h[i]; }
    return s;
  }

  void ensure_reps(int cls, const Obj& sample) {
    if (REPS.count(cls)) return;
    std::vector<Rep> r;
    d.reps(sample, CL[cls], r);
    std::vector<Rep> good;
    for (size_t i = 0; i < r.size(); ++i) {
      int c = cls_of(*r[i].obj);
      if (c != cls) {
        // a representation builder that does not reproduce the value: machinery problem or a defect of a
        // builder operation (not of a widening): report once as an error line, do not use it
        static int reported = 0;
        if (reported++ < 3) sink().line(J().str("t", "error").str("msg", "representation '" + r[i].name + "' of " + T(cls) + " denotes " + T(c)).done());
        continue;
      }
      good.push_back(r[i]);
    }
    REPS[cls] = good;
  }

  // ---------------------------------------------------------------- phase A
  void phase_a() {
    d.menu(MENU);
    for (size_t i = 0; i < MENU.size(); ++i) {
      MENU[i].cls = CL.classify(MENU[i].cell);
      int c = cls_of(*MENU[i].obj);
      if (c != MENU[i].cls) sink().line(J().str("t", "error").str("msg", d.name + ": menu element " + MENU[i].name + " does not denote its reference value").done());
    }
    d.ops(OPS);
    LIMITS = d.limits();
    if (limit_cap > 0 && (int)LIMITS.size() > limit_cap) { Lim last = LIMITS.back(); LIMITS.resize(limit_cap - 1); LIMITS.push_back(last); }
    LIMSETS = small_subsets((int)LIMITS.size());
    G.resize(OPS.size());
    for (size_t oi = 0; oi < OPS.size(); ++oi) {
      OpGraph& g = G[oi]; const OpDef& op = OPS[oi];
      g.closed = false; g.depth_done = 0;
      std::vector<int> frontier;
      auto add_node = [&](int cls, P nat, int parent, int via, int depth) -> int {
        std::unordered_map<int, int>::iterator it = g.node_of.find(cls);
        if (it != g.node_of.end()) return it->second;
        Node n; n.cls = cls; n.natural = nat; n.parent = parent; n.via = via; n.depth = depth;
        g.nodes.push_back(n); g.node_of[cls] = (int)g.nodes.size() - 1;
        frontier.push_back((int)g.nodes.size() - 1);
        ensure_reps(cls, *nat);
        return (int)g.nodes.size() - 1;
      };
      { P e(d.empty()); add_node(cls_of(*e), e, -1, -1, 0); }
      for (size_t i = 0; i < MENU.size(); ++i) add_node(MENU[i].cls, cl(*MENU[i].obj), -1, (int)i, 0);
      for (int depth = 1; depth <= max_depth; ++depth) {
        std::vector<int> cur; cur.swap(frontier);
        if (cur.empty()) { g.closed = true; break; }
        for (size_t fi = 0; fi < cur.size(); ++fi) {
          int ni = cur[fi];
          // phase A may use at most 45% of the budget: the rest is needed to check the edges found so far
          if (args.left() < args.deadline * 0.55) { phase_a_cut = true; break; }
          for (size_t mi = 0; mi < MENU.size(); ++mi) {
            P y = cl(*g.nodes[ni].natural);
            d.join(*y, *MENU[mi].obj);
            int ycls = cls_of(*y);
            ensure_reps(ycls, *y);
            P older = cl(*g.nodes[ni].natural);
            op.plain(*y, *older, 0);
            count(CNT_TRANS);
            int rcls = cls_of(*y);
            int to = add_node(rcls, y, ni, (int)mi, depth);
            Edge e; e.from = ni; e.m = (int)mi; e.ycls = ycls; e.to = to;
            g.edges.push_back(e);
          }
        }
        if (phase_a_cut) { frontier.push_back(-1); break; }
        g.depth_done = depth;
        if (args.expired()) break;
      }
      if (!g.closed && frontier.empty()) g.closed = true;
    }
  }

  // ---------------------------------------------------------------- phase B
  struct Item { int op, edge; };
  std::vector<Item> ITEMS;
  void make_items() {
    if (phase_a_cut) count(CNT_SKIPPED);      // the run is then reported as not exhaustive
    for (size_t oi = 0; oi < G.size(); ++oi) for (size_t e = 0; e < G[oi].edges.size(); ++e) { Item it; it.op = (int)oi; it.edge = (int)e; ITEMS.push_back(it); }
  }

  std::string input_json(int oi, int ei, const std::string& variant, const std::string& xrep, const std::string& yrep) const {
    const OpGraph& g = G[oi]; const Edge& e = g.edges[ei];
    J j; j.str("domain", d.name).num("dim", d.dim).str("operator", OPS[oi].name).str("variant", variant)
      .str("older", T(g.nodes[e.from].cls)).str("increment", MENU[e.m].name + ": " + d.text(MENU[e.m].cell))
      .str("newer", T(e.ycls)).str("older_rep", xrep).str("newer_rep", yrep)
      .str("history_of_older", history(oi, e.from));
    return j.done();
  }
  void viol(const std::string& site, const std::string& clause, const std::string& trig, const std::string& inj,
            const std::string& obs, const std::string& exp, const std::string& detail = "") {
    count(CNT_VIOL);
    if (violcap().admit(site + "|" + clause + "|" + trig)) report_violation(site, clause, trig, inj, obs, exp, detail);
  }

  std::unordered_map<long long, bool> SUBMEMO;
  bool ref_subset(int a, int b) {      // CL[a] subseteq CL[b]
    if (a == b) return true;
    long long k = ((long long)a << 32) | (unsigned)b;
    std::unordered_map<long long, bool>::iterator it = SUBMEMO.find(k);
    if (it != SUBMEMO.end()) return it->second;
    RefGuard g; bool r = d.vsubset(CL[a], CL[b]); SUBMEMO[k] = r; return r;
  }
  std::unordered_map<std::string, std::vector<long> > MEASMEMO;
  const std::vector<long>& measure(int oi, int cls) {
    std::string k = std::to_string(oi) + "|" + std::to_string(cls);
    std::unordered_map<std::string, std::vector<long> >::iterator it = MEASMEMO.find(k);
    if (it != MEASMEMO.end()) return it->second;
    RefGuard g; return MEASMEMO[k] = OPS[oi].measure(CL[cls]);
  }
  std::unordered_map<std::string, bool> IMPLMEMO;
  bool ref_implies(int cls, const Lim& c) {
    std::string k = std::to_string(cls) + "|" + d.lim_text(c);
    std::unordered_map<std::string, bool>::iterator it = IMPLMEMO.find(k);
    if (it != IMPLMEMO.end()) return it->second;
    RefGuard g; bool r = d.lim_implied(CL[cls], c); IMPLMEMO[k] = r; return r;
  }

  // number of sub-steps of an item is data dependent; a crash is attributed through the shared (item, sub) pair and
  // reported with the item description plus the sub-step number
  void run_item(long long item, long long sub_start) {
    const Item& it = ITEMS[item];
    const int oi = it.op;
    const OpGraph& g = G[oi]; const Edge& e = g.edges[it.edge]; const OpDef& op = OPS[oi];
    const int gop = op_base + oi;
    const int xcls = g.nodes[e.from].cls, ycls = e.ycls, rcls = g.nodes[e.to].cls;
    const Obj& xnat = *g.nodes[e.from].natural;
    if (!replay().match(d.name, d.dim, op.name, T(xcls), T(ycls))) return;
    long long sub = 0;
    auto want = [&]() -> bool { long long my = sub++; if (!pool().want(my, sub_start)) return false; pool().step(my); return true; };

    // the natural newer element: the join as the library leaves it
    P ynat = cl(xnat);
    d.join(*ynat, *MENU[e.m].obj);
    std::string site = op.site;

    if (want()) {
      // ---- set-up facts, oracle (1), const argument, certificates: on the natural representations
      std::string inj = input_json(oi, it.edge, "plain", "natural", "natural");
      int yc = cls_of(*ynat);
      if (yc != ycls) viol(d.name + "::upper_bound_assign", "setup:join-not-deterministic", "none", inj, T(yc), T(ycls));
      if (!ref_subset(xcls, ycls) || !ref_subset(MENU[e.m].cls, ycls))
        viol(d.name + "::upper_bound_assign", "setup:join-not-an-upper-bound", "none", inj, T(ycls), "contains both arguments");
      P n = cl(*ynat), o = cl(xnat);
      op.plain(*n, *o, 0);
      count(CNT_TRANS);
      int rc = cls_of(*n);
      if (rc != rcls) viol(site, "determinism:same-call-different-value", "none", inj, T(rc), T(rcls));
      if (!d.ok(*n)) viol(site, "invariant:OK()-of-result", "none", inj, "OK() false", "OK() true");
      if (!d.ok(*o)) viol(site, "invariant:OK()-of-argument", "none", inj, "OK() false", "OK() true");
      opcount(gop, OC_SUPERSET);
      if (!ref_subset(ycls, rcls)) {
        std::string wt; { RefGuard gg; wt = d.witness_outside(CL[ycls], CL[rcls]); }
        viol(site, "upper-bound:result-does-not-contain-newer-argument", "none", inj, T(rcls), "superset of " + T(ycls), wt);
      }
      opcount(gop, OC_CONSTARG);
      int oc = cls_of(*o);
      if (oc != xcls) viol(site, "const-argument:value-changed", "none", inj, T(oc), T(xcls));
      if (ycls == xcls && rcls != xcls) opcount(gop, OC_SAME_ARGS_CHANGED);    // x widen x != x: legal, but worth knowing
      // ---- convergence on non-stationary edges
      if (rcls != xcls && op.widening && !(op.cert_only_when_newer_differs && ycls == xcls)) {
        std::string ctrig = "none";
        if (op.cert_trigger) { RefGuard gg; ctrig = op.cert_trigger(xnat, *ynat, CL[xcls], CL[ycls], CL[rcls]); }
        if (op.libcert) {
          P oo = cl(xnat), rr = cl(*n);
          int c = op.libcert(*oo, *rr);
          opcount(gop, OC_LIBCERT);
          if (c != 1) {
            opcount(gop, OC_LIBCERT_FAIL);
            if (!op.libcert_informational)
              viol(site, "convergence:" + op.libcert_name + "-not-strictly-decreasing", ctrig, inj, "compare = " + std::to_string(c), "1 (strictly stabilizing) because the result differs from the older iterate");
          }
        }
        if (op.libcert_consistency && !d.vempty(CL[xcls])) {
          P oo = cl(xnat), rr = cl(*n);
          std::string dis = op.libcert_consistency(*oo, *rr);
          if (!dis.empty()) {
            std::string trig = "none";
            if (op.libcert_consistency_trigger) { RefGuard gg; trig = op.libcert_consistency_trigger(CL[xcls], CL[rcls]); }
            viol(site.substr(0, site.find("::")) + "::" + op.libcert_name + "::compare", "certificate:compare(Certificate)-disagrees-with-compare(object)", trig, inj, dis, "the same sign from both overloads", "result " + T(rcls));
          }
        }
        if (op.measure) {
          const std::vector<long>& mx = measure(oi, xcls); const std::vector<long>& mr = measure(oi, rcls);
          int c = lexcmp(mr, mx);
          opcount(gop, OC_INDEP);
          bool complete = true;
          if (op.measure_complete) { RefGuard gg; complete = op.measure_complete(CL[xcls]) && op.measure_complete(CL[rcls]); }
          if (c == 0 && !complete) opcount(gop, OC_INDEP_UNDET);
          else if (c >= 0) {
            opcount(gop, OC_INDEP_FAIL);
            if (!op.measure_informational) viol(site, "convergence:independent-measure-not-strictly-decreasing", ctrig, inj, vec_text(mr), "lexicographically smaller than " + vec_text(mx), "result " + T(rcls));
          }
        }
      }
    }

    // ---- (2) representation independence
    const std::vector<Rep>& xr = REPS[xcls]; const std::vector<Rep>& yr = REPS[ycls];
    int nx = (int)xr.size() + 1, ny = (int)yr.size() + 1;     // index 0 = natural
    for (int i = 0; i < nx; ++i) for (int j = 0; j < ny; ++j) {
      if (i == 0 && j == 0) continue;
      if (rep_mode == 0 && !(i == 0 || j == 0 || i == j)) continue;
      if (!want()) continue;
      const Obj& xo = i == 0 ? xnat : *xr[i - 1].obj; const Obj& yo = j == 0 ? *ynat : *yr[j - 1].obj;
      P n = cl(yo), o = cl(xo);
      op.plain(*n, *o, 0);
      count(CNT_TRANS); opcount(gop, OC_REP_PAIRS);
      int rc = cls_of(*n);
      std::string xn = i == 0 ? "natural" : xr[i - 1].name, yn = j == 0 ? "natural" : yr[j - 1].name;
      if (rc != rcls) {
        // a known-defect predicate takes precedence over a documented caveat (the case is then reported under that trigger)
        const std::string rtrig = d.repdep_trigger(xnat, *ynat, xo, yo);
        std::string cav = d.repdep_caveat(op.name, CL[xcls], CL[ycls], xn, yn, rtrig);
        if (!cav.empty()) {
          opcount(gop, OC_REPDEP_CAVEAT);
          // even under a documented caveat the result must be one the documentation allows
          if (!d.caveat_accepts(op.name, xo, yo, CL[rc]))
            viol(site, "well-defined-on-values:result-outside-documented-alternatives", "none", input_json(oi, it.edge, "plain", xn, yn), T(rc), "one of the documented alternatives");
        }
        if (cav.empty() || caveat_as_violation)
          viol(site, "well-defined-on-values:result-depends-on-representation", cav.empty() ? rtrig : cav, input_json(oi, it.edge, "plain", xn, yn),
               T(rc), T(rcls) + " (natural representations)", "older object:\n" + d.dump(xo) + "newer object:\n" + d.dump(yo) + "natural older object:\n" + d.dump(xnat) + "natural newer object:\n" + d.dump(*ynat));
        // the result must be an upper bound whatever the representation
        if (!ref_subset(ycls, rc)) viol(site, "upper-bound:result-does-not-contain-newer-argument", "none", input_json(oi, it.edge, "plain", xn, yn), T(rc), "superset of " + T(ycls));
      }
      else if (!d.ok(*n)) viol(site, "invariant:OK()-of-result", "none", input_json(oi, it.edge, "plain", xn, yn), "OK() false", "OK() true");
      int oc = cls_of(*o);
      opcount(gop, OC_CONSTARG);
      if (oc != xcls) viol(site, "const-argument:value-changed", "none", input_json(oi, it.edge, "plain", xn, yn), T(oc), T(xcls));
    }

    // ---- (4) tokens
    if (op.tokens) for (unsigned t0 = 0; t0 <= 2; ++t0) for (int rp = 0; rp < 2; ++rp) {
      if (rp == 1 && (xr.empty() || yr.empty())) continue;
      if (!want()) continue;
      // rp 0: natural representations; rp 1: a synthetic pair chosen by the token count
      const Obj& xo = rp == 0 ? xnat : *xr[(t0 + it.edge) % xr.size()].obj; const Obj& yo = rp == 0 ? *ynat : *yr[(t0 + 2 * it.edge) % yr.size()].obj;
      // the plain widening of exactly this pair of representations is the baseline
      int base_cls = rcls;
      if (rp == 1) { P n0 = cl(yo), o0 = cl(xo); op.plain(*n0, *o0, 0); count(CNT_TRANS); base_cls = cls_of(*n0); }
      P n = cl(yo), o = cl(xo);
      unsigned t = t0;
      op.plain(*n, *o, &t);
      count(CNT_TRANS); opcount(gop, OC_TOKEN);
      int rc = cls_of(*n);
      bool loses = (base_cls != ycls);
      unsigned want_t = (loses && t0 > 0) ? t0 - 1 : t0;
      int want_cls = (loses && t0 > 0) ? ycls : base_cls;
      std::string inj = input_json(oi, it.edge, "tokens=" + std::to_string(t0), rp ? "synthetic" : "natural", rp ? "synthetic" : "natural");
      if (t != want_t)
        viol(site, loses ? "tokens:not-consumed-although-precision-is-lost" : "tokens:consumed-although-no-precision-is-lost", "none", inj,
             "tokens after = " + std::to_string(t), "tokens after = " + std::to_string(want_t), "plain widening " + T(base_cls));
      if (rc != want_cls)
        viol(site, "tokens:wrong-value", "none", inj, T(rc), T(want_cls));
    }

    // ---- (5) limited / bounded extrapolations
    for (int kind = 0; kind < 2; ++kind) {
      const auto& fn = kind == 0 ? op.limited : op.bounded;
      if (!fn) continue;
      const std::string& fname = kind == 0 ? op.limited_name : op.bounded_name;
      std::string fsite = site.substr(0, site.find("::") + 2) + fname;
      int boxcls = -1;
      if (kind == 1) {
        RefGuard gg;
        Val bx;
        if (d.bounded_box(CL[ycls], CL[xcls], bx)) boxcls = CL.classify(bx);
      }
      for (size_t si = 0; si < LIMSETS.size(); ++si) for (unsigned t0 = 0; t0 <= 1; ++t0) {
        if (t0 == 1 && (!op.tokens || (si % 3) != (size_t)(it.edge % 3))) continue;     // tokens with a third of the subsets
        if (!want()) continue;
        std::vector<Lim> S; std::string stxt = "{";
        for (size_t k = 0; k < LIMSETS[si].size(); ++k) { S.push_back(LIMITS[LIMSETS[si][k]]); if (k) stxt += ", "; stxt += d.lim_text(LIMITS[LIMSETS[si][k]]); }
        stxt += "}";
        LimSys cs = d.lim_sys(S);
        P n = cl(*ynat), o = cl(xnat);
        unsigned t = t0;
        fn(*n, *o, cs, t0 ? &t : 0);
        count(CNT_TRANS); opcount(gop, kind == 0 ? OC_LIMITED : OC_BOUNDED);
        int rc = cls_of(*n);
        std::string inj = input_json(oi, it.edge, fname + " cs=" + stxt + (t0 ? " tokens=1" : ""), "natural", "natural");
        std::vector<bool> sat(S.size());
        for (size_t k = 0; k < S.size(); ++k) sat[k] = ref_implies(ycls, S[k]);
        const std::string trig = d.limited_trigger(fname, *ynat, S, sat);
        const bool cmp_plain = op.limited_compare_with_plain;
        if (!d.ok(*n)) viol(fsite, "invariant:OK()-of-result", "none", inj, "OK() false", "OK() true");
        if (!ref_subset(ycls, rc)) viol(fsite, "limited:result-does-not-contain-newer-argument", trig, inj, T(rc), "superset of " + T(ycls));
        if (cmp_plain && !ref_subset(rc, rcls)) viol(fsite, "limited:result-not-within-plain-widening", trig, inj, T(rc), "subset of " + T(rcls));
        bool all_kept = true;
        for (size_t k = 0; k < S.size(); ++k) {
          if (op.limit_representable && !op.limit_representable(S[k])) { all_kept = false; continue; }
          if (!ref_implies(ycls, S[k])) continue;
          bool kept; { RefGuard gg; kept = d.lim_implied(CL[rc], S[k]); }
          if (!kept) viol(fsite, "limited:supplied-constraint-satisfied-by-newer-argument-is-lost", trig, inj, T(rc), "satisfies " + d.lim_text(S[k]));
        }
        if (kind == 1 && boxcls >= 0 && !ref_subset(rc, boxcls))
          viol(fsite, "bounded:result-not-within-CC76-widened-bounding-box", "none", inj, T(rc), "subset of " + T(boxcls));
        // exact expected value (documented construction): plain widening /\ kept constraints (/\ box); with a token
        // available and precision loss of the *plain* widening the object is left unchanged
        bool loses = (rcls != ycls);
        if (t0 == 1 && cmp_plain) {
          unsigned want_t = loses ? 0 : 1;
          if (t != want_t) {
            // the token rule of the limited operators is inherited from the plain widening
            viol(fsite, loses ? "tokens:not-consumed-although-precision-is-lost" : "tokens:consumed-although-no-precision-is-lost", trig, inj,
                 "tokens after = " + std::to_string(t), "tokens after = " + std::to_string(want_t));
          }
        }
        if (all_kept && cmp_plain) {
          int want_cls;
          if (t0 == 1 && loses) want_cls = ycls;
          else {
            RefGuard gg;
            std::vector<Lim> kept;
            for (size_t k = 0; k < S.size(); ++k) if (ref_implies(ycls, S[k])) kept.push_back(S[k]);
            Val w = d.lim_meet(CL[rcls], kept);
            if (kind == 1 && boxcls >= 0) w = d.vmeet(w, CL[boxcls]);
            want_cls = CL.classify(w);
          }
          if (rc != want_cls) viol(fsite, "limited:value-differs-from-documented-construction", trig, inj, T(rc), T(want_cls));
        }
        int oc = cls_of(*o);
        if (oc != xcls) viol(fsite, "const-argument:value-changed", "none", inj, T(oc), T(xcls));
      }
    }
    opcount(gop, OC_EDGES_DONE);
  }

  void on_crash(long long item, long long sub, int sig, bool confirmed) {
    if (!confirmed) return;
    const Item& it = ITEMS[item];
    report_violation(OPS[it.op].site, std::string("crash:") + signame(sig), "none",
                     input_json(it.op, it.edge, "sub-step " + std::to_string(sub), "?", "?"), signame(sig), "normal return");
  }

  // ---------------------------------------------------------------- graph verdicts + statistics (parent, after phase B)
  struct Summary { long states, edges; std::vector<std::string> per_op; std::vector<std::string> samples; bool all_closed; };
  Summary finish() {
    Summary s; s.states = 0; s.edges = 0; s.all_closed = true;
    for (size_t oi = 0; oi < G.size(); ++oi) {
      const OpGraph& g = G[oi]; const OpDef& op = OPS[oi];
      std::vector<GEdge> ns;
      for (size_t e = 0; e < g.edges.size(); ++e) if (g.edges[e].from != g.edges[e].to) { GEdge ge; ge.from = g.edges[e].from; ge.to = g.edges[e].to; ns.push_back(ge); }
      GraphInfo gi = analyse((int)g.nodes.size(), ns);
      if (!gi.acyclic && op.widening) {
        std::string cyc;
        for (size_t i = 0; i < gi.cycle.size(); ++i) { if (i) cyc += "  ->  "; cyc += T(g.nodes[gi.cycle[i]].cls); }
        J j; j.str("domain", d.name).num("dim", d.dim).str("operator", op.name).str("cycle", cyc).str("history_of_first", history((int)oi, gi.cycle.empty() ? 0 : gi.cycle[0]));
        report_violation(op.site, "convergence:cycle-of-non-stationary-steps", "none", j.done(), "cycle of length " + std::to_string(gi.cycle.size()), "acyclic graph of non-stationary steps");
      }
      s.states += (long)g.nodes.size(); s.edges += (long)g.edges.size();
      if (!g.closed) s.all_closed = false;
      const volatile long long* c = opc()->c[op_base + oi];
      J j; j.str("domain", d.name).num("dim", d.dim).str("operator", op.name).boolean("widening", op.widening)
        .num("states", g.nodes.size()).num("edges", g.edges.size()).boolean("closed", g.closed).num("depth_explored", g.depth_done)
        .num("nonstationary_edges", gi.nonstationary).boolean("nonstationary_acyclic", gi.acyclic).num("longest_nonstationary_path", gi.acyclic ? gi.longest : -1)
        .num("edges_checked", c[OC_EDGES_DONE]).num("representation_pairs_compared", c[OC_REP_PAIRS]).num("token_cases", c[OC_TOKEN])
        .num("limited_cases", c[OC_LIMITED]).num("bounded_cases", c[OC_BOUNDED]).num("library_certificate_checks", c[OC_LIBCERT]).num("library_certificate_not_decreasing", c[OC_LIBCERT_FAIL]).num("edges_where_widening_of_equal_arguments_changes_the_value", c[OC_SAME_ARGS_CHANGED])
        .num("independent_measure_checks", c[OC_INDEP]).num("independent_measure_ties", c[OC_INDEP_UNDET]).num("independent_measure_failures", c[OC_INDEP_FAIL]).num("representation_dependent_results_under_documented_caveat", c[OC_REPDEP_CAVEAT]).num("superset_checks", c[OC_SUPERSET]).num("const_argument_checks", c[OC_CONSTARG]);
      s.per_op.push_back(j.done());
      if (!g.edges.empty()) {
        size_t e = g.edges.size() / 2;
        s.samples.push_back(input_json((int)oi, (int)e, "plain", "natural", "natural"));
      }
    }
    return s;
  }
};

} // namespace c08
#endif

// shapes.cc part 2: configuration, menus, the operation alphabet with its reference semantics.
namespace {

struct Cfg {
  bool c04;            // exactness / best-abstraction clauses (mpq only); otherwise soundness only
  bool thorough;
  int maxdim;          // dimensions 0..maxdim are explored (initial states)
  int mindim;
  int depth;           // phase A: number of value-changing builder steps
  int depth_ops;       // transformers are applied to classes first reached at depth <= depth_ops
  std::string consts;  // "small" | "full"
  std::string what;    // "all" | "queries" | "ops" | "ctors" | "binq" (binary predicates only)
  int pool_depth;      // operand pool: classes first reached at depth <= pool_depth
  int pool_sigs;
  Cfg() : c04(false), thorough(false), maxdim(2), mindim(0), depth(2), depth_ops(2), consts("small"), what("all"), pool_depth(1), pool_sigs(2) {}
};
static Cfg CFG;
static Args ARGS;

// ------------------------------------------------------------------ constants of the bound type
struct TypeConsts { std::vector<Q> unary, binary, eq; Q big, over; bool has_big; };
static Q pow2(int k) { return Q(mpz_class(1) << k); }
static TypeConsts type_consts() {
  TypeConsts t; t.has_big = false;
  bool full = CFG.consts == "full";
  if (CFG.c04 || EXACT_T) {
    if (CFG.consts == "tiny") { t.unary = {Q(-1), Q(0)}; t.binary = {Q(0)}; t.eq = {Q(1)}; }
    else if (full) { t.unary = {Q(-2), Q(-1), Q(-1, 2), Q(0), Q(1, 2), Q(1), Q(2)}; t.binary = {Q(-1), Q(0), Q(1, 2), Q(1), Q(2)}; t.eq = {Q(0), Q(1, 2), Q(1)}; }
    else { t.unary = {Q(-1), Q(0), Q(1, 2), Q(2)}; t.binary = {Q(-1), Q(0), Q(1)}; t.eq = {Q(0), Q(1, 2)}; }
    return t;
  }
  const int bits = BT<BTy>::bits;
  if (BT<BTy>::is_float) {
    Q F = q_of(std::numeric_limits<BTy>::max()), dm = q_of(std::numeric_limits<BTy>::denorm_min()), P1 = pow2(bits) + 1;
    t.big = F; t.over = 2 * F; t.has_big = true;
    if (full) { t.unary = {-2 * F, -F, -P1, Q(-1), Q(-1, 3), Q(-1, 10), -dm, Q(0), dm, Q(1, 10), Q(1, 3), Q(1), P1, F, 2 * F}; t.binary = {-F, -P1, Q(-1, 3), Q(0), dm, Q(1, 10), P1, F}; t.eq = {Q(0), Q(1, 3), P1}; }
    else { t.unary = {-F, -P1, Q(-1, 3), Q(0), dm, Q(1, 10), P1, F, 2 * F}; t.binary = {-F, Q(-1, 3), Q(0), P1, F}; t.eq = {Q(0), Q(1, 10)}; }
    return t;
  }
  if (bits > 0) {
    Q M = pow2(bits - 1) - 2, H = pow2(bits - 2);
    t.big = M; t.over = M + 74; t.has_big = true;
    if (full) { t.unary = {-(M + 74), -M, -M + 1, -H, Q(-1), Q(-1, 2), Q(0), Q(1, 3), Q(1), H - 1, M - 1, M, M + 74, 8 * (M + 2)}; t.binary = {-M, -H, Q(-1, 2), Q(0), Q(1), H - 1, M, M + 74}; t.eq = {Q(0), Q(1, 2), M}; }
    else { t.unary = {-(M + 74), -M, Q(-1, 2), Q(0), Q(1, 3), H - 1, M, M + 74}; t.binary = {-M, Q(-1, 2), Q(0), H - 1, M}; t.eq = {Q(0), Q(1, 2)}; }
    return t;
  }
  // mpz: no limits, fractions must round outward
  if (full) { t.unary = {Q(-2), Q(-3, 2), Q(-1), Q(-1, 3), Q(0), Q(1, 2), Q(1), Q(5, 2)}; t.binary = {Q(-1), Q(-1, 3), Q(0), Q(1, 2), Q(2)}; t.eq = {Q(0), Q(1, 2), Q(1)}; }
  else { t.unary = {Q(-3, 2), Q(-1, 3), Q(0), Q(1, 2), Q(2)}; t.binary = {Q(-1, 3), Q(0), Q(1)}; t.eq = {Q(0), Q(1, 2)}; }
  return t;
}

// ------------------------------------------------------------------ menus
static std::vector<ZC> BM;      // builder constraints (expressible in the domain)
static std::vector<ZC> RM;      // refine / relation_with probes (BM + non-expressible)
static std::vector<ZE> EM;      // expressions
static TypeConsts TC;

static std::vector<long> dvec(int n, int i, long ci, int j = -1, long cj = 0) { std::vector<long> d(n, 0); d[i] = ci; if (j >= 0) d[j] = cj; return d; }

static void build_menus() {
  TC = type_consts();
  int n = std::max(CFG.maxdim, 1);
  // unary rows
  for (int i = 0; i < n; ++i) for (long s = 1; s >= -1; s -= 2) for (size_t c = 0; c < TC.unary.size(); ++c) {
    BM.push_back(mkc(dvec(n, i, s), 'L', TC.unary[c]));
    if (OPEN_OK && (EXACT_T ? true : (c % 2 == 0))) BM.push_back(mkc(dvec(n, i, s), 'l', TC.unary[c]));
  }
  for (int i = 0; i < n; ++i) for (size_t c = 0; c < TC.eq.size(); ++c) BM.push_back(mkc(dvec(n, i, 1), 'E', TC.eq[c]));
  if (KIND != K_BOX) {
    for (int i = 0; i < n; ++i) for (int j = 0; j < n; ++j) if (i != j) for (size_t c = 0; c < TC.binary.size(); ++c) BM.push_back(mkc(dvec(n, i, 1, j, -1), 'L', TC.binary[c]));
    for (int i = 0; i < n; ++i) for (int j = i + 1; j < n; ++j) for (size_t c = 0; c + 1 < TC.eq.size() + 1 && c < 2; ++c) BM.push_back(mkc(dvec(n, i, 1, j, -1), 'E', TC.eq[c]));
  }
  if (KIND == K_OCT) {
    for (int i = 0; i < n; ++i) for (int j = i + 1; j < n; ++j) for (long s = 1; s >= -1; s -= 2) for (size_t c = 0; c < TC.binary.size(); ++c) BM.push_back(mkc(dvec(n, i, s, j, s), 'L', TC.binary[c]));
    for (int i = 0; i < n; ++i) for (int j = i + 1; j < n; ++j) BM.push_back(mkc(dvec(n, i, 1, j, 1), 'E', TC.eq.back()));
  }
  // trivial rows
  BM.push_back(ZC(ZE({}, 1), ref::GE)); BM.push_back(ZC(ZE({}, -1), ref::GE)); BM.push_back(ZC(ZE({}, 0), ref::EQ));
  // probes: everything in BM plus rows the domain cannot express
  RM = BM;
  {
    std::vector<ZC> extra;
    extra.push_back(mkc({2, -1}, 'L', Q(1))); extra.push_back(mkc({1, 1}, 'L', Q(1))); extra.push_back(mkc({1, -1}, 'L', Q(1, 2)));
    extra.push_back(mkc({-1, -1}, 'L', Q(0))); extra.push_back(mkc({1, 1}, 'E', Q(1))); extra.push_back(mkc({1, -1}, 'E', Q(0)));
    extra.push_back(mkc({1, 0}, 'l', Q(1))); extra.push_back(mkc({0, 1}, 'g', Q(0))); extra.push_back(mkc({1, -1}, 'l', Q(0))); extra.push_back(mkc({1, 2}, 'G', Q(-1)));
    extra.push_back(mkc({3, 0}, 'L', Q(1))); extra.push_back(mkc({-2, 2}, 'L', Q(1))); extra.push_back(mkc({1, 1, 1}, 'L', Q(1))); extra.push_back(mkc({0, 1, -1}, 'L', Q(0)));
    extra.push_back(ZC(ZE({}, 0), ref::GT)); extra.push_back(ZC(ZE({}, 1), ref::EQ));
    if (TC.has_big) { extra.push_back(mkc({1, 1}, 'L', TC.big)); extra.push_back(mkc({1, -1}, 'G', -TC.over)); extra.push_back(mkc({2, 0}, 'L', TC.big)); extra.push_back(mkc({1, 0}, 'l', TC.big)); }
    std::set<std::string> have; for (size_t i = 0; i < RM.size(); ++i) have.insert(RM[i].str());
    for (size_t i = 0; i < extra.size(); ++i) if (have.insert(extra[i].str()).second) RM.push_back(extra[i]);
  }
  // expressions: coefficients in {-3..3}
  EM = { ZE({1, 0}, 0), ZE({0, 1}, 0), ZE({-1, 0}, 0), ZE({0, -1}, 0), ZE({2, 0}, 0), ZE({1, 0}, 1), ZE({0, 1}, 2), ZE({1, 0}, -2),
         ZE({-1, 0}, 1), ZE({0, -1}, -1), ZE({1, 1}, 0), ZE({1, -1}, 0), ZE({2, -1}, 1), ZE({0, -2}, 0), ZE({}, 0), ZE({}, 3), ZE({}, -1),
         ZE({-3, 1}, 0), ZE({1, 2}, -1), ZE({0, 3}, 2), ZE({-1, -1}, 1) };
  if (CFG.maxdim >= 3) { EM.push_back(ZE({0, 0, 1}, 0)); EM.push_back(ZE({0, 0, 1}, 1)); EM.push_back(ZE({1, 0, -1}, 0)); }
  if (TC.has_big) {
    Q b = TC.big, o = TC.over; mpz_class B = b.get_num() / b.get_den(), O = o.get_num() / o.get_den();
    ZE e1({1, 0}, 0); e1.b = B; ZE e2({0, -1}, 0); e2.b = -B; ZE e3({}, 0); e3.b = B; ZE e4({}, 0); e4.b = O; ZE e5({}, 0); e5.b = -O; ZE e6({1, 0}, 0); e6.b = -O;
    EM.push_back(e1); EM.push_back(e2); EM.push_back(e3); EM.push_back(e4); EM.push_back(e5); EM.push_back(e6);
  }
}

// ------------------------------------------------------------------ operations
struct Ctx { int dim; int cls; int ocls; int odim; };
enum Mode { M_ENCLOSE = 0, M_EXACT = 1, M_BEST = 2 };
struct OpArgs { std::string fam; int v; ZE e, e2; long d; int rel; bool pre; ZC c; OpArgs() : v(-1), d(1), rel(-1), pre(false) {} };
struct Op {
  std::string name; OpArgs args;
  bool binary, builder, observer, within;
  Mode mode;
  std::function<bool(const Ctx&)> ok;
  std::function<std::string(D&, const D*)> apply;                 // returns the textual return value
  std::function<USet(const Cell&, const Cell*)> exact;            // f(gamma(args)) as a union of cells
  std::function<std::string(const Cell&, const Cell*)> refret;    // expected return value (C04)
  // replaces the standard comparison: returns "" or a clause text
  std::function<std::string(const Cell& before, const Cell* operand, const Cell& after, const std::string& ret)> custom;
  Op() : binary(false), builder(false), observer(false), within(false), mode(M_ENCLOSE) {}
};
static std::vector<Op> OPS;

static USet one(const Cell& c) { USet u; u.push_back(c); return u; }
static const char* relsym_name(int r) { static const char* n[] = {"<", "<=", "=", ">=", ">"}; return n[r]; }
static PPL::Relation_Symbol relsym_ppl(int r) {
  switch (r) { case 0: return PPL::LESS_THAN; case 1: return PPL::LESS_OR_EQUAL; case 2: return PPL::EQUAL; case 3: return PPL::GREATER_OR_EQUAL; default: return PPL::GREATER_THAN; }
}
static std::string vname(int v) { return std::string(1, char('A' + v)); }
static const std::string VOID;

static USet difference_pieces(const Cell& P, const Cell& Q_) {
  USet u;
  if (ref::is_empty(P)) return u;
  if (ref::is_empty(Q_)) { u.push_back(P); return u; }
  Cell q = ref::normalized(Q_);
  for (size_t i = 0; i < q.rows.size(); ++i) {
    ref::Rows np = ref::neg_pieces(q.rows[i]);
    for (size_t p = 0; p < np.size(); ++p) { Cell piece = P; piece.rows.push_back(np[p]); if (!ref::is_empty(piece)) u.push_back(piece); }
  }
  return u;
}
static USet fold_pieces(const Cell& P, const std::vector<int>& vars, int dest) {
  USet u; int n = P.n;
  u.push_back(ref::remove_dims(P, vars));
  for (size_t k = 0; k < vars.size(); ++k) {
    std::vector<int> e1(1, dest);
    Cell p = ref::is_empty(P) ? Cell::empty(n) : ref::project_out(P, e1);
    if (!p.bot) for (size_t r = 0; r < p.rows.size(); ++r) { p.rows[r].a[dest] = p.rows[r].a[vars[k]]; p.rows[r].a[vars[k]] = 0; }
    u.push_back(ref::remove_dims(p, vars));
  }
  return u;
}
// is the union {P, Q} an element of the domain?
static bool union_in_domain(const Cell& P, const Cell& Q_) {
  USet u; u.push_back(P); u.push_back(Q_);
  Cell a = alphaD(u, P.n);
  return ref::subset(a, u);
}

static void add_op(const Op& o) { OPS.push_back(o); }

static void build_ops() {
  // ---- builders: add_constraint over the expressible menu
  for (size_t i = 0; i < BM.size(); ++i) {
    ZC c = BM[i];
    Op o; o.name = "add_constraint(" + c.str() + ")"; o.builder = true; o.mode = M_EXACT; o.within = true;
    o.args.fam = "add"; o.args.c = c;
    o.ok = [c](const Ctx& x) { return fits(c.e, x.dim); };
    o.apply = [c](D& p, const D*) { p.add_constraint(c.ppl()); return VOID; };
    o.exact = [c](const Cell& v, const Cell*) { if (v.bot) return one(v); Cell r = v; r.rows.push_back(c.row(v.n)); return one(r); };
    add_op(o);
  }
  // ---- builders: observers that change the lazy state
  struct Obs { const char* n; std::function<void(D&)> f; };
  std::vector<Obs> obs = {
    {"is_empty()", [](D& p) { (void)p.is_empty(); }},
    {"minimized_constraints()", [](D& p) { (void)p.minimized_constraints(); }},
    {"is_universe()", [](D& p) { (void)p.is_universe(); }},
    {"affine_dimension()", [](D& p) { (void)p.affine_dimension(); }},
    {"constraints()", [](D& p) { (void)p.constraints(); }},
  };
  for (size_t i = 0; i < obs.size(); ++i) {
    Obs ob = obs[i];
    Op o; o.name = ob.n; o.builder = true; o.observer = true; o.mode = M_EXACT; o.within = true;
    o.ok = [](const Ctx&) { return true; };
    o.apply = [ob](D& p, const D*) { ob.f(p); return VOID; };
    o.exact = [](const Cell& v, const Cell*) { return one(v); };
    add_op(o);
  }

  // =================================================================== transformers
  for (size_t i = 0; i < RM.size(); ++i) {
    ZC c = RM[i];
    Op o; o.name = "refine_with_constraint(" + c.str() + ")"; o.within = true; o.mode = expressible(c) ? M_EXACT : M_ENCLOSE;
    o.args.fam = "refine"; o.args.c = c;
    o.ok = [c](const Ctx& x) { return fits(c.e, x.dim); };
    o.apply = [c](D& p, const D*) { p.refine_with_constraint(c.ppl()); return VOID; };
    o.exact = [c](const Cell& v, const Cell*) { if (v.bot) return one(v); Cell r = v; r.rows.push_back(c.row(v.n)); return one(r); };
    add_op(o);
  }
  // systems of two constraints
  {
    size_t nb = BM.size(), nr = RM.size();
    size_t pairs[][2] = {{0, nb / 2}, {1, nb - 4}, {nb / 3, nb / 2 + 1}, {nb - 5, 2}};
    for (auto& pr : pairs) for (int refine = 0; refine < 2; ++refine) {
      ZC a = BM[pr[0] % nb], b = refine ? RM[(nr - 1 - pr[1]) % nr] : BM[pr[1] % nb];
      Op o; o.name = std::string(refine ? "refine_with_constraints({" : "add_constraints({") + a.str() + "," + b.str() + "})"; o.within = true;
      o.mode = (expressible(a) && expressible(b)) ? M_EXACT : M_ENCLOSE;
      o.ok = [a, b](const Ctx& x) { return fits(a.e, x.dim) && fits(b.e, x.dim); };
      o.apply = [a, b, refine](D& p, const D*) { PPL::Constraint_System cs; cs.insert(a.ppl()); cs.insert(b.ppl()); if (refine) p.refine_with_constraints(cs); else p.add_constraints(cs); return VOID; };
      o.exact = [a, b](const Cell& v, const Cell*) { if (v.bot) return one(v); Cell r = v; r.rows.push_back(a.row(v.n)); r.rows.push_back(b.row(v.n)); return one(r); };
      add_op(o);
    }
  }
  // congruences: equalities and trivial ones are added exactly; a proper congruence may only be refined with
  {
    struct CG { ZE e; long m; };
    std::vector<CG> cgs = { {ZE({1, 0}, -1), 0}, {ZE({1, -1}, 0), 0}, {ZE({}, 0), 2}, {ZE({}, 1), 2}, {ZE({1, 0}, 0), 2}, {ZE({1, -1}, 1), 3}, {ZE({2, 0}, -1), 0} };
    for (size_t i = 0; i < cgs.size(); ++i) {
      CG g = cgs[i];
      bool constant = g.e.nvars() == 0;
      bool tfalse = constant && ((g.m != 0 && (g.e.b % g.m) != 0) || (g.m == 0 && g.e.b != 0));
      bool proper = g.m != 0 && !constant;
      ZC eqc(g.e, ref::EQ);
      for (int refine = 0; refine < 2; ++refine) {
        if (!refine && (proper || (!constant && !expressible(eqc)))) continue;
        Op o; o.name = std::string(refine ? "refine_with_congruence(" : "add_congruence(") + g.e.str() + "=0 mod " + std::to_string(g.m) + ")"; o.within = true;
        o.mode = (proper || (!constant && !expressible(eqc))) ? M_ENCLOSE : M_EXACT;
        o.ok = [g](const Ctx& x) { return fits(g.e, x.dim); };
        o.apply = [g, refine](D& p, const D*) { PPL::Congruence cg = (g.e.ppl() %= 0) / Coefficient(g.m); if (refine) p.refine_with_congruence(cg); else p.add_congruence(cg); return VOID; };
        o.exact = [g, tfalse, constant, proper](const Cell& v, const Cell*) {
          if (v.bot) return one(v);
          if (tfalse) return one(Cell::empty(v.n));
          if (constant) return one(v);
          USet u;
          if (!proper) { Cell r = v; r.rows.push_back(Row(g.e.vec(v.n), g.e.q0(), ref::EQ)); u.push_back(r); return u; }
          for (long k = -2; k <= 2; ++k) { Cell r = v; r.rows.push_back(Row(g.e.vec(v.n), g.e.q0() - Q(k * g.m), ref::EQ)); u.push_back(r); }   // some of the solutions
          return u; };
        add_op(o);
      }
    }
  }
  // affine_image / affine_preimage
  {
    std::vector<long> dens = CFG.thorough ? std::vector<long>{1, 2, -1, -2, 3} : std::vector<long>{1, 2, -1};
    for (int v = 0; v < CFG.maxdim; ++v) for (size_t ei = 0; ei < EM.size(); ++ei) for (long d : dens) for (int pre = 0; pre < 2; ++pre) {
      ZE e = EM[ei];
      if (v >= 2 && ei >= 12 && e.dim() < 3) continue;
      if (!CFG.thorough && (ei == 6 || ei == 7 || ei == 9 || ei == 13 || ei == 18 || ei == 19 || ei == 20)) continue;
      Op o; o.name = std::string(pre ? "affine_preimage(" : "affine_image(") + vname(v) + "," + e.str() + "," + std::to_string(d) + ")";
      o.mode = affine_expressible(v, e, mpz_class(d)) ? M_EXACT : M_ENCLOSE;
      o.args.fam = "affine"; o.args.v = v; o.args.e = e; o.args.d = d; o.args.pre = pre;
      o.ok = [e, v](const Ctx& x) { return v < x.dim && fits(e, x.dim); };
      o.apply = [e, v, d, pre](D& p, const D*) { if (pre) p.affine_preimage(Variable(v), e.ppl(), Coefficient(d)); else p.affine_image(Variable(v), e.ppl(), Coefficient(d)); return VOID; };
      o.exact = [e, v, d, pre](const Cell& c, const Cell*) { Cell rel = ref::rel_affine(c.n, v, e.vec(c.n), e.q0(), Q(d)); return one(pre ? ref::preimage(c, rel) : ref::image(c, rel)); };
      add_op(o);
    }
  }
  // generalized_affine_image / preimage (var form)
  {
    std::vector<size_t> eidx = {0, 1, 2, 5, 10, 14, 15};
    if (CFG.thorough) { eidx.push_back(12); eidx.push_back(8); eidx.push_back(11); eidx.push_back(17); eidx.push_back(4); }
    for (size_t k = 21; k < EM.size(); ++k) eidx.push_back(k);
    std::vector<long> dd = {1, 2, -1};
    for (int v = 0; v < CFG.maxdim; ++v) for (size_t ei : eidx) for (long d : dd) for (int rel = 0; rel < 5; ++rel) for (int pre = 0; pre < 2; ++pre) {
      if ((rel == 0 || rel == 4) && !OPEN_OK) continue;
      if (ei >= EM.size()) continue;
      ZE e = EM[ei];
      if (v >= 2 && e.dim() < 3 && ei != 0 && ei != 14) continue;
      Op o; o.name = std::string(pre ? "generalized_affine_preimage(" : "generalized_affine_image(") + vname(v) + "," + relsym_name(rel) + "," + e.str() + "," + std::to_string(d) + ")";
      o.args.fam = "genvar"; o.args.v = v; o.args.e = e; o.args.d = d; o.args.pre = pre; o.args.rel = rel;
      o.ok = [e, v](const Ctx& x) { return v < x.dim && fits(e, x.dim); };
      o.apply = [e, v, d, rel, pre](D& p, const D*) {
        if (pre) p.generalized_affine_preimage(Variable(v), relsym_ppl(rel), e.ppl(), Coefficient(d));
        else p.generalized_affine_image(Variable(v), relsym_ppl(rel), e.ppl(), Coefficient(d));
        return VOID; };
      o.exact = [e, v, d, rel, pre](const Cell& c, const Cell*) { Cell r = ref::rel_generalized_var(c.n, v, rel, e.vec(c.n), e.q0(), Q(d)); return one(pre ? ref::preimage(c, r) : ref::image(c, r)); };
      add_op(o);
    }
  }
  // generalized_affine_image / preimage (lhs form)
  {
    std::vector<ZE> lhs = {ZE({1, 0}, 0), ZE({0, 1}, 0), ZE({1, 1}, 0), ZE({2, -1}, 1), ZE({}, 1), ZE({0, -1}, 0), ZE({-1, 0}, 1), ZE({2, 0}, 0), ZE({0, 3}, -1), ZE({1, -1}, 0)};
    std::vector<size_t> ridx = {0, 1, 10, 14, 15, 16, 12};
    if (!CFG.thorough) { lhs.erase(lhs.begin() + 7, lhs.begin() + 9); ridx = {0, 1, 10, 14, 16}; }
    if (CFG.maxdim >= 3) { lhs.push_back(ZE({0, 0, 1}, 0)); lhs.push_back(ZE({0, 1, -1}, 0)); }
    for (const ZE& l : lhs) for (size_t ri : ridx) for (int rel = 0; rel < 5; ++rel) for (int pre = 0; pre < 2; ++pre) {
      if ((rel == 0 || rel == 4) && !OPEN_OK) continue;
      ZE r = EM[ri];
      Op o; o.name = std::string(pre ? "generalized_affine_preimage(" : "generalized_affine_image(") + l.str() + "," + relsym_name(rel) + "," + r.str() + ")";
      o.args.fam = "genlhs"; o.args.e = l; o.args.e2 = r; o.args.pre = pre; o.args.rel = rel;
      o.ok = [l, r](const Ctx& x) { return fits(l, x.dim) && fits(r, x.dim); };
      o.apply = [l, r, rel, pre](D& p, const D*) {
        if (pre) p.generalized_affine_preimage(l.ppl(), relsym_ppl(rel), r.ppl());
        else p.generalized_affine_image(l.ppl(), relsym_ppl(rel), r.ppl());
        return VOID; };
      o.exact = [l, r, rel, pre](const Cell& c, const Cell*) { Cell rr = ref::rel_generalized_lhs(c.n, l.vec(c.n), l.q0(), rel, r.vec(c.n), r.q0()); return one(pre ? ref::preimage(c, rr) : ref::image(c, rr)); };
      add_op(o);
    }
  }
  // bounded_affine_image / preimage
  {
    size_t lbub[][2] = {{14, 15}, {0, 5}, {1, 10}, {2, 0}, {11, 12}, {15, 14}, {0, 0}, {16, 1}};
    std::vector<long> dd = {1, 2, -1};
    int npairs = 0;
    for (int v = 0; v < std::min(CFG.maxdim, 2); ++v) { npairs = 0; for (auto& lu : lbub) { ++npairs; for (long d : dd) for (int pre = 0; pre < 2; ++pre) {
      // quick tier: the first five (lb, ub) pairs (Box::bounded_affine_preimage dies with SIGFPE on most of them; every crash costs a fork)
      if (!CFG.thorough && npairs > 5) continue;
      ZE lb = EM[lu[0]], ub = EM[lu[1]];
      Op o; o.name = std::string(pre ? "bounded_affine_preimage(" : "bounded_affine_image(") + vname(v) + "," + lb.str() + "," + ub.str() + "," + std::to_string(d) + ")";
      o.args.fam = "bounded"; o.args.v = v; o.args.e = lb; o.args.e2 = ub; o.args.d = d; o.args.pre = pre;
      o.ok = [lb, ub, v](const Ctx& x) { return v < x.dim && fits(lb, x.dim) && fits(ub, x.dim); };
      o.apply = [lb, ub, v, d, pre](D& p, const D*) {
        if (pre) p.bounded_affine_preimage(Variable(v), lb.ppl(), ub.ppl(), Coefficient(d));
        else p.bounded_affine_image(Variable(v), lb.ppl(), ub.ppl(), Coefficient(d));
        return VOID; };
      o.exact = [lb, ub, v, d, pre](const Cell& c, const Cell*) { Cell r = ref::rel_bounded(c.n, v, lb.vec(c.n), lb.q0(), ub.vec(c.n), ub.q0(), Q(d)); return one(pre ? ref::preimage(c, r) : ref::image(c, r)); };
      add_op(o);
    } } }
  }
  // unconstrain
  for (int mask = 1; mask < (1 << CFG.maxdim); ++mask) {
    std::vector<int> vs; for (int i = 0; i < CFG.maxdim; ++i) if (mask & (1 << i)) vs.push_back(i);
    std::string nm; for (int v : vs) nm += vname(v);
    Op o; o.name = "unconstrain(" + nm + ")"; o.mode = M_EXACT;
    o.ok = [vs](const Ctx& x) { return vs.back() < x.dim; };
    o.apply = [vs](D& p, const D*) { if (vs.size() == 1) p.unconstrain(Variable(vs[0])); else { PPL::Variables_Set s; for (int v : vs) s.insert(Variable(v)); p.unconstrain(s); } return VOID; };
    o.exact = [vs](const Cell& c, const Cell*) { return one(ref::unconstrain(c, vs)); };
    add_op(o);
  }
  { Op o; o.name = "topological_closure_assign()"; o.mode = M_EXACT; o.ok = [](const Ctx&) { return true; };
    o.apply = [](D& p, const D*) { p.topological_closure_assign(); return VOID; };
    o.exact = [](const Cell& c, const Cell*) { return one(ref::is_empty(c) ? Cell::empty(c.n) : ref::closure(c)); }; add_op(o); }
  // dimension changes
  for (int m = 1; m <= 2; ++m) for (int proj = 0; proj < 2; ++proj) {
    Op o; o.name = std::string(proj ? "add_space_dimensions_and_project(" : "add_space_dimensions_and_embed(") + std::to_string(m) + ")"; o.mode = M_EXACT;
    o.ok = [m](const Ctx& x) { return x.dim + m <= 4; };
    o.apply = [m, proj](D& p, const D*) { if (proj) p.add_space_dimensions_and_project(m); else p.add_space_dimensions_and_embed(m); return VOID; };
    o.exact = [m, proj](const Cell& c, const Cell*) { return one(proj ? ref::add_dims_project(c, m) : ref::add_dims_embed(c, m)); };
    add_op(o);
  }
  for (int mask = 0; mask < (1 << CFG.maxdim); ++mask) {
    std::vector<int> vs; for (int i = 0; i < CFG.maxdim; ++i) if (mask & (1 << i)) vs.push_back(i);
    Op o; o.name = "remove_space_dimensions(" + std::to_string(mask) + ")"; o.mode = M_EXACT;
    o.ok = [vs](const Ctx& x) { return vs.empty() || vs.back() < x.dim; };
    o.apply = [vs](D& p, const D*) { PPL::Variables_Set s; for (int v : vs) s.insert(Variable(v)); p.remove_space_dimensions(s); return VOID; };
    o.exact = [vs](const Cell& c, const Cell*) { return one(ref::remove_dims(c, vs)); };
    add_op(o);
  }
  for (int nd = 0; nd <= CFG.maxdim; ++nd) {
    Op o; o.name = "remove_higher_space_dimensions(" + std::to_string(nd) + ")"; o.mode = M_EXACT;
    o.ok = [nd](const Ctx& x) { return nd <= x.dim; };
    o.apply = [nd](D& p, const D*) { p.remove_higher_space_dimensions(nd); return VOID; };
    o.exact = [nd](const Cell& c, const Cell*) { std::vector<int> vs; for (int i = nd; i < c.n; ++i) vs.push_back(i); return one(ref::remove_dims(c, vs)); };
    add_op(o);
  }
  // map_space_dimensions: every partial injective map on dims <= 2 (a few on dim 3)
  {
    std::vector<std::vector<int> > maps;
    for (int a = -1; a <= 1; ++a) { std::vector<int> pf(1, a); if (a <= 0) maps.push_back(pf); }
    for (int a = -1; a <= 1; ++a) for (int b = -1; b <= 1; ++b) {
      if (a >= 0 && a == b) continue;
      std::vector<int> img; if (a >= 0) img.push_back(a); if (b >= 0) img.push_back(b);
      std::sort(img.begin(), img.end()); bool okk = true; for (size_t i = 0; i < img.size(); ++i) if (img[i] != (int)i) okk = false;
      if (okk) maps.push_back({a, b});
    }
    if (CFG.maxdim >= 3) { maps.push_back({2, 0, 1}); maps.push_back({1, -1, 0}); maps.push_back({-1, 0, -1}); }
    for (const std::vector<int>& pf : maps) {
      std::string nm; for (size_t i = 0; i < pf.size(); ++i) nm += (i ? "," : "") + std::to_string(pf[i]);
      int nd = (int)pf.size();
      Op o; o.name = "map_space_dimensions(" + nm + ")"; o.mode = M_EXACT;
      o.ok = [nd](const Ctx& x) { return x.dim == nd; };
      o.apply = [pf](D& p, const D*) { PPL::Partial_Function f; for (size_t i = 0; i < pf.size(); ++i) if (pf[i] >= 0) f.insert(i, pf[i]); p.map_space_dimensions(f); return VOID; };
      o.exact = [pf](const Cell& c, const Cell*) { return one(ref::map_dims(c, pf)); };
      add_op(o);
    }
  }
  for (int v = 0; v < CFG.maxdim; ++v) for (int m = 1; m <= 2; ++m) {
    Op o; o.name = "expand_space_dimension(" + vname(v) + "," + std::to_string(m) + ")"; o.mode = M_EXACT;
    o.ok = [v, m](const Ctx& x) { return v < x.dim && x.dim + m <= 4; };
    o.apply = [v, m](D& p, const D*) { p.expand_space_dimension(Variable(v), m); return VOID; };
    o.exact = [v, m](const Cell& c, const Cell*) { return one(ref::expand_dim(c, v, m)); };
    add_op(o);
  }
  {
    std::vector<std::pair<std::vector<int>, int> > folds = { {{1}, 0}, {{0}, 1}, {{}, 0} };
    if (CFG.maxdim >= 3) { folds.push_back({{0, 2}, 1}); folds.push_back({{2}, 0}); }
    for (auto& f : folds) {
      std::vector<int> src = f.first; int dst = f.second;
      std::string nm; for (int v : src) nm += vname(v);
      Op o; o.name = "fold_space_dimensions({" + nm + "}," + vname(dst) + ")"; o.mode = M_BEST;
      o.ok = [src, dst](const Ctx& x) { if (dst >= x.dim) return false; for (int v : src) if (v >= x.dim) return false; return true; };
      o.apply = [src, dst](D& p, const D*) { PPL::Variables_Set s; for (int v : src) s.insert(Variable(v)); p.fold_space_dimensions(s, Variable(dst)); return VOID; };
      o.exact = [src, dst](const Cell& c, const Cell*) { if (src.empty()) return one(c); return fold_pieces(c, src, dst); };
      add_op(o);
    }
  }
  { // drop_some_non_integer_points: keeps every integer point (checked on a window), never grows
    for (int cc = 0; cc < 2; ++cc) {
      Op o; o.name = std::string("drop_some_non_integer_points(") + (cc ? "ANY_COMPLEXITY)" : "POLYNOMIAL_COMPLEXITY)"); o.within = true; o.mode = M_ENCLOSE;
      o.ok = [](const Ctx& x) { return x.dim <= 3; };
      o.apply = [cc](D& p, const D*) { p.drop_some_non_integer_points(cc ? PPL::ANY_COMPLEXITY : PPL::POLYNOMIAL_COMPLEXITY); return VOID; };
      o.exact = [](const Cell& c, const Cell*) {
        USet u; if (c.bot) return u;
        int n = c.n; std::vector<long> x(n, -3);
        for (;;) {
          Vec p(n); for (int i = 0; i < n; ++i) p[i] = Q(x[i]);
          if (ref::member(c, p)) { Cell pt(n); for (int i = 0; i < n; ++i) pt.rows.push_back(Row(ref::unit(n, i), -p[i], ref::EQ)); u.push_back(pt); }
          int k = 0; while (k < n && ++x[k] > 3) { x[k] = -3; ++k; }
          if (k == n) break;
        }
        return u; };
      add_op(o);
    }
  }
  // ---- binary
  struct Bin { const char* n; Mode mode; std::function<void(D&, const D&)> f; std::function<USet(const Cell&, const Cell&)> r; };
  std::vector<Bin> bins = {
    {"intersection_assign", M_EXACT, [](D& p, const D& q) { p.intersection_assign(q); }, [](const Cell& a, const Cell& b) { return one(ref::meet(a, b)); }},
    {"upper_bound_assign", M_BEST, [](D& p, const D& q) { p.upper_bound_assign(q); }, [](const Cell& a, const Cell& b) { USet u; u.push_back(a); u.push_back(b); return u; }},
    {"difference_assign", M_BEST, [](D& p, const D& q) { p.difference_assign(q); }, [](const Cell& a, const Cell& b) { return difference_pieces(a, b); }},
    {"time_elapse_assign", M_ENCLOSE, [](D& p, const D& q) { p.time_elapse_assign(q); },
      [](const Cell& a, const Cell& b) { USet u; if (ref::is_empty(a) || ref::is_empty(b)) return u; u.push_back(a); u.push_back(ref::positive_time_elapse(a, b, true)); return u; }},
  };
  for (size_t i = 0; i < bins.size(); ++i) {
    Bin b = bins[i];
    Op o; o.name = b.n; o.binary = true; o.mode = b.mode;
    o.ok = [](const Ctx& x) { return x.odim == x.dim; };
    o.apply = [b](D& p, const D* q) { b.f(p, *q); return VOID; };
    o.exact = [b](const Cell& a, const Cell* q) { return b.r(a, *q); };
    add_op(o);
  }
  { Op o; o.name = "concatenate_assign"; o.binary = true; o.mode = M_EXACT;
    o.ok = [](const Ctx& x) { return x.dim + x.odim <= 4; };
    o.apply = [](D& p, const D* q) { p.concatenate_assign(*q); return VOID; };
    o.exact = [](const Cell& a, const Cell* q) { return one(ref::concatenate(a, *q)); };
    add_op(o); }
  { Op o; o.name = "upper_bound_assign_if_exact"; o.binary = true;
    o.ok = [](const Ctx& x) { return x.odim == x.dim; };
    o.apply = [](D& p, const D* q) { return std::string(p.upper_bound_assign_if_exact(*q) ? "true" : "false"); };
    o.custom = [](const Cell& before, const Cell* q, const Cell& after, const std::string& ret) -> std::string {
      USet u; u.push_back(before); u.push_back(*q);
      if (ret == "true") { if (!ref::subset(u, one(after))) return "enclosure:result-loses-points-of-union"; }
      else if (!ref::subset(before, after)) return "enclosure:receiver-changed-and-lost-points";
      if (!CFG.c04) return "";
      bool ex = union_in_domain(before, *q);
      if (ex != (ret == "true")) return ex ? "if_exact:false-but-union-is-in-domain" : "if_exact:true-but-union-not-in-domain";
      if (ex) { if (!ref::subset(one(after), u)) return "if_exact:result!=union"; }
      else if (!ref::equal(after, before)) return "if_exact:receiver-changed-when-false";
      return ""; };
    add_op(o); }
  { // simplify_using_context_assign: relational specification (meet with the context is preserved, the
    // result contains the receiver, false iff the meet is empty); crashes are caught by the pool
    Op o; o.name = "simplify_using_context_assign"; o.binary = true; o.args.fam = "simplify";
    o.ok = [](const Ctx& x) { return x.odim == x.dim; };
    o.apply = [](D& p, const D* q) { return std::string(p.simplify_using_context_assign(*q) ? "true" : "false"); };
    o.custom = [](const Cell& before, const Cell* q, const Cell& after, const std::string& ret) -> std::string {
      Cell m0 = ref::meet(before, *q);
      bool ie = ref::is_empty(m0);
      if (ie) return (CFG.c04 && ret != "false") ? "simplify:return-true-on-empty-meet" : "";
      if (!ref::subset(m0, ref::meet(after, *q))) return "simplify:meet-loses-points";
      if (!CFG.c04) return "";
      if (ret == "false") return "simplify:return-false-on-nonempty-meet";
      if (!ref::subset(ref::meet(after, *q), m0)) return "simplify:meet-not-preserved";
      return ""; };
    add_op(o); }
}

} // namespace

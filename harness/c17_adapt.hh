// C17: generic adapter for the domains described by a single constraint system
// (polyhedra, boxes, BD shapes, octagons).  Included by the c17_dom_*.cc units only.
#ifndef VERIF_C17_ADAPT_HH
#define VERIF_C17_ADAPT_HH 1
#include "harness/c17_common.hh"

namespace c17 {

template <class D>
struct SimpleSubject : Subject {
  D d; int n;
  explicit SimpleSubject(int n_) : d(n_, PPL::UNIVERSE), n(n_) {}
  void describe(Desc& out, bool) const {
    out.n = n; out.d.clear(); out.gg.clear(); out.has_gg = false;
    out.empty_flag = d.is_empty();
    Disj dj;
    PPL::Constraint_System cs = d.constraints();
    read_rows(cs, n, dj);
    out.d.push_back(dj);
  }
  std::string print() const { return vf::print_of(d); }
  void wrap(const WrapCall& c) { d.wrap_assign(c.vars, c.w, c.r, c.o, c.cs_p, c.thr, c.ind); }
  void drop_all(PPL::Complexity_Class cc) { d.drop_some_non_integer_points(cc); }
  void drop_vars(const PPL::Variables_Set& vs, PPL::Complexity_Class cc) { d.drop_some_non_integer_points(vs, cc); }
  bool cip() const { return d.contains_integer_point(); }
};

// Lazy states for the weakly relational domains and boxes:
//   0 "constraints"  universe refined with the constraints, nothing else called
//   1 "generators"   built by the constructor from a generator system
//   2 "closed"       as 0, then is_empty() and minimized_constraints() were called (closure / reduction computed)
//   3 "closed_then_refined"  all constraints but the last, closed, then the last constraint added (closure lost again)
template <class D>
struct SimpleDomain : Domain {
  SimpleDomain(const std::string& nm, bool box) { name = nm; kind = K_ROWS; modes = 4; extra_from = 3; has_wrap = true; has_cip = true; is_box = box; }
  const char* mode_name(int m) const { return m == 0 ? "constraints" : m == 1 ? "generators" : m == 2 ? "closed" : "closed_then_refined"; }
  Subject* build(const Built& b, int mode) const {
    SimpleSubject<D>* s = new SimpleSubject<D>(b.n);
    if (mode == 1) {
      if (b.gs[0].begin() == b.gs[0].end()) { D t(b.n, PPL::EMPTY); s->d.m_swap(t); }
      else { D t(b.gs[0]); s->d.m_swap(t); }
      return s;
    }
    if (mode == 3) {
      std::vector<PPL::Constraint> rows;
      for (PPL::Constraint_System::const_iterator i = b.cs[0].begin(), e = b.cs[0].end(); i != e; ++i) rows.push_back(*i);
      for (size_t i = 0; i + 1 < rows.size(); ++i) s->d.refine_with_constraint(rows[i]);
      (void)s->d.is_empty(); (void)s->d.minimized_constraints();
      if (!rows.empty()) s->d.refine_with_constraint(rows.back());
      return s;
    }
    s->d.refine_with_constraints(b.cs[0]);
    if (mode == 2) { (void)s->d.is_empty(); (void)s->d.minimized_constraints(); }
    return s;
  }
};

} // namespace c17
#endif
